#!/bin/sh
# re-runs kept seeded changes against the current checks (quick tier); one summary line each -> out/reeval_seeds.txt
# usage: tools/reeval_seeds.sh [ID ...]   (no IDs = all properties)
cd /verif; : > out/reeval_seeds.txt
for d in seeded/*/; do n=$(basename $d); pid=$(echo $n | cut -d- -f1)
  if [ $# -gt 0 ]; then case " $* " in *" $pid "*) ;; *) continue;; esac; fi
  r=$(tools/eval_seed.py /verif/seeded/$n $pid --skip-pytest 2>&1 | grep -E "CONFIRMED|NOT CONFIRMED|DOES NOT APPLY|OBSOLETE" | tail -1)
  echo "$n $r" | tee -a out/reeval_seeds.txt
done
