#!/usr/bin/env python3
"""Which lines of each property's anchored files do its generated cases execute?  Runs every quick check (or the listed ones)
with VF_LINECOV set, unions the per-shard hit files and prints, per property and anchored file, the functions with lines that
were never executed (by that property's check / by any check).  Diagnostic: finds code behind a property that no generated
case reaches.  usage: tools/linecov.py [--tier quick|thorough] [--no-run] [IDs...]   -> out/linecov.txt"""
import glob, json, os, subprocess, sys, shutil
V = os.path.dirname(os.path.dirname(os.path.abspath(__file__)))
args = sys.argv[1:]
tier = "quick"
if "--tier" in args:
    tier = args[args.index("--tier") + 1]; del args[args.index("--tier"):args.index("--tier") + 2]
norun = "--no-run" in args
args = [a for a in args if a != "--no-run"]
props = [json.loads(l) for l in open(os.path.join(V, "properties.jsonl"))]
ids = args or [p["id"] for p in props]
root = os.path.join(V, "out", "cov")
if not norun:
    for pid in ids:
        d = os.path.join(root, pid)
        shutil.rmtree(d, ignore_errors=True)
        r = subprocess.run([os.path.join(V, "check"), pid, "--tier", tier], env=dict(os.environ, VF_LINECOV=d, BITS_REPO=os.environ.get("BITS_REPO", "/repo")), capture_output=True, text=True, cwd=V)
        print(pid, "exit", r.returncode, flush=True)


def hits(pid):
    s = set()
    for f in glob.glob(os.path.join(root, pid, "*.json")):
        s |= set(map(tuple, json.load(open(f))))
    return s


def executable(path):
    """{function qualname: [lines]} from the compiled code objects."""
    src = open(path, encoding="utf8").read()
    top = compile(src, path, "exec")
    out = {}

    def walk(co, name):
        lines = sorted({l for _, _, l in co.co_lines() if l is not None and l > 0})
        doc_skip = set()
        out[name] = [l for l in lines if l not in doc_skip]
        for c in co.co_consts:
            if hasattr(c, "co_code"):
                walk(c, (name + "." if name != "<module>" else "") + c.co_name)

    walk(top, "<module>")
    return out


allhits = set()
per = {p["id"]: hits(p["id"]) for p in props}
for h in per.values():
    allhits |= h
lines_out = []
for p in props:
    pid = p["id"]
    if pid not in ids:
        continue
    for f in p["anchors"]["files"]:
        path = os.path.join("/repo", f)
        if not f.endswith(".py") or not os.path.isfile(path):
            continue
        rel = f[len("src/"):]
        ex = executable(path)
        for fn, ls in ex.items():
            if fn == "<module>":
                continue
            mine = [l for l in ls if (rel, l) not in per[pid]]
            anyw = [l for l in ls if (rel, l) not in allhits]
            if mine:
                frac = f"{len(ls) - len(mine)}/{len(ls)}"
                lines_out.append(f"{pid} {rel}:{fn} covered {frac} by own check; missed-by-own={mine[:40]} missed-by-all={anyw[:40]}")
open(os.path.join(V, "out", "linecov.txt"), "w").write("\n".join(lines_out) + "\n")
print("\n".join(lines_out))
