#!/venv/bin/python
"""
Sensitivity helper (not a registered check): copy /repo/src to a scratch dir, apply one textual replacement
(or a patch file), run ./check for the given properties against the copy, report, clean up.

  tools/try_mutant.py -f src/bits/base58.py -o 'OLD' -n 'NEW' C07 [C08 ...]
  tools/try_mutant.py -p /path/to/patch.diff C07
  options: --tier quick|thorough  --pytest (also run the pinned suite in the copy)  --keep
"""
import argparse, os, shutil, subprocess, sys, tempfile

ap = argparse.ArgumentParser()
ap.add_argument("-f"); ap.add_argument("-o"); ap.add_argument("-n")
ap.add_argument("-p", "--patch")
ap.add_argument("--tier", default="quick")
ap.add_argument("--pytest", action="store_true")
ap.add_argument("--keep", action="store_true")
ap.add_argument("--count", type=int, default=1, help="expected number of occurrences of OLD")
ap.add_argument("--target", action="append", default=[])
ap.add_argument("ids", nargs="+")
a = ap.parse_args()

tmp = tempfile.mkdtemp(prefix="bitsmut_", dir="/tmp")
try:
    subprocess.check_call(["git", "-C", "/repo", "worktree", "add", "--detach", "-q", tmp + "/wt", "HEAD"])
    wt = tmp + "/wt"
    # carry over uncommitted state of /repo? no: mutants are relative to HEAD
    if a.patch:
        subprocess.check_call(["git", "-C", wt, "apply", a.patch])
    else:
        path = os.path.join(wt, a.f)
        src = open(path).read()
        if src.count(a.o) != a.count:
            print(f"MUTANT-ERROR: {a.o!r} occurs {src.count(a.o)} times in {a.f}", file=sys.stderr)
            sys.exit(3)
        open(path, "w").write(src.replace(a.o, a.n))
    env = dict(os.environ, BITS_REPO=wt)
    if a.pytest:
        r = subprocess.run(["/venv/bin/python", "-m", "pytest", "-q", "-p", "no:cacheprovider", "-x", "--timeout=900"],
                           cwd=wt, env=dict(os.environ, PYTHONPATH=wt + "/src"), capture_output=True, text=True)
        print("pytest exit", r.returncode, r.stdout.strip().splitlines()[-1:] )
    for pid in a.ids:
        cmd = ["/verif/check", pid, "--tier", a.tier]
        for t in a.target:
            cmd += ["--target", t]
        r = subprocess.run(cmd, env=env, capture_output=True, text=True, cwd="/verif")
        lines = [l for l in r.stdout.splitlines() if l.startswith(("VIOLATION", "  failure", "HARNESS", "[", "KNOWN"))]
        print(f"== {pid}: exit {r.returncode}")
        for l in lines[:12]:
            print("   ", l[:300])
        if r.returncode == 2:
            print(r.stdout[-1500:], r.stderr[-1500:])
finally:
    if not a.keep:
        subprocess.call(["git", "-C", "/repo", "worktree", "remove", "--force", tmp + "/wt"])
        shutil.rmtree(tmp, ignore_errors=True)
    else:
        print("kept", tmp)
