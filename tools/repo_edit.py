#!/usr/bin/env python3
"""Exact textual replacement in a /repo file preserving its line endings: repo_edit.py <file> <old> <new> [count]"""
import sys
path, old, new = sys.argv[1], sys.argv[2], sys.argv[3]
count = int(sys.argv[4]) if len(sys.argv) > 4 else 1
raw = open(path, "rb").read()
crlf = b"\r\n" in raw
text = raw.decode("utf8")
if crlf:
    old = old.replace("\r\n", "\n").replace("\n", "\r\n")
    new = new.replace("\r\n", "\n").replace("\n", "\r\n")
n = text.count(old)
if n != count:
    sys.exit(f"expected {count} occurrence(s) of OLD in {path}, found {n}")
open(path, "wb").write(text.replace(old, new).encode("utf8"))
print(f"edited {path} ({'CRLF' if crlf else 'LF'}), {n} replacement(s)")
