#!/usr/bin/env python3
"""Run the scratch mutants of tools/mutants.json (optionally only some properties) and write out/mutants/<ID>.txt.
Each entry: {"id": "C02", "name": ..., "file": ..., "old": ..., "new": ..., "targets": [...], "expect": "caught"|"equivalent"}"""
import json, os, subprocess, sys
V = os.path.dirname(os.path.dirname(os.path.abspath(__file__)))
ms = json.load(open(os.path.join(V, "tools", "mutants.json")))
only = set(sys.argv[1:])
os.makedirs(os.path.join(V, "out", "mutants"), exist_ok=True)
for m in ms:
    if only and m["id"] not in only:
        continue
    cmd = [os.path.join(V, "tools", "try_mutant.py"), "-f", m["file"], "-o", m["old"], "-n", m["new"], "--count", str(m.get("count", 1))]
    for t in m.get("targets", []):
        cmd += ["--target", t]
    cmd.append(m["id"])
    r = subprocess.run(cmd, capture_output=True, text=True)
    code = [l for l in r.stdout.splitlines() if l.startswith("==")]
    sigs = [l.strip()[:140] for l in r.stdout.splitlines() if "failure" in l][:3]
    line = f"{m['id']} | {m['name']} | expect={m.get('expect','caught')} | {code[0] if code else 'ERROR ' + r.stderr[-200:]} | {' ;; '.join(sigs)}"
    print(line, flush=True)
    open(os.path.join(V, "out", "mutants", m["id"] + ".txt"), "a").write(line + "\n")
