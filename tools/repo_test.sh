#!/bin/sh
# runs the pinned suite in /repo (or $1) and prints the summary line; baseline is 187 passed / 12 always-failing
cd "${1:-/repo}" && /venv/bin/python -m pytest -q -p no:cacheprovider --timeout=900 2>&1 | tail -1
