#!/bin/sh
# prep_wave.sh <N> <file with the round-specific paragraph> : scratch dirs /tmp/seedN/Cxx with INSTRUCTIONS.md, property.txt,
# previous.txt (summaries of the kept changes) and a detached worktree of /repo HEAD each. Nothing from the checks is copied.
N=$1; PARA=$2; D=/tmp/seed$N; mkdir -p $D
python3 - "$N" "$PARA" <<'PY'
import sys,re
n,para=sys.argv[1],open(sys.argv[2]).read()
s=open('/verif/tools/SEED_INSTRUCTIONS.md').read()
s=re.sub(r'/tmp/seed\d+/', f'/tmp/seed{n}/', s)
s=re.sub(r'## This is an? \w+ round', f'## This is round {n}', s)
i=re.search(r'In this round (aim for the subtlest|do NOT try)', s).start()
open(f'/tmp/seed{n}/INSTRUCTIONS.md','w').write(s[:i]+para)
open('/verif/tools/SEED_INSTRUCTIONS.md','w').write(s[:i]+para)
PY
for i in $(seq -w 1 20); do d=$D/C$i; mkdir -p $d; cp /verif/tools/seed_property_texts/C$i.txt $d/property.txt
python3 - <<PY
import json,os,glob
out=''
for q in sorted(glob.glob('/verif/seeded/C$i-*/meta.json')):
    m=json.load(open(q)); w=q.split('-')[-1].split('/')[0]
    out+='PREVIOUS CHANGE '+w.upper()+' (do something different): '+str(m.get('summary',''))[:340]+'\n  FILES: '+str(m.get('files',''))+'\n'
open('$d/previous.txt','w').write(out)
PY
[ -d $d/wt ] || git -C /repo worktree add -q --detach $d/wt HEAD; done
git -C /repo worktree list | wc -l
