#!/venv/bin/python
"""
Robustness helper (not a registered check): runs every target's check on a sample of its cases while core.attempt returns
junk values (None, 0, b"", (), {}, ...) instead of the library's result with some probability, and lists the places where
the CHECK CODE itself raises. Such a place would turn a behaviour change of the library (a return value of an unexpected
shape) into a harness error instead of a reported failure.   tools/chaos_attempt.py [ID ...] [--n 60] [--p 0.35]
"""
import argparse, os, random, sys, traceback, collections
V = os.path.dirname(os.path.dirname(os.path.abspath(__file__)))
sys.path.insert(0, V)
from vf import core
core.install_repo_path()
from vf import main as M

ap = argparse.ArgumentParser(); ap.add_argument("ids", nargs="*"); ap.add_argument("--n", type=int, default=60); ap.add_argument("--p", type=float, default=0.35)
a = ap.parse_args()
ids = a.ids or [f"C{i:02d}" for i in range(1, 21)]
rng = random.Random(1)
JUNK = [None, 0, 1, -1, b"", b"\x00", "", "x", (), [], {}, (None, None), (1,), True, False, 1.5, [None], {"a": 1}, (b"", b""), 2**300]
real = core.attempt

def chaos(fn, *args, **kw):
    r = real(fn, *args, **kw)
    if rng.random() < a.p:
        j = rng.choice(JUNK + [core.Raised(ValueError("chaos"))])
        return j
    return r

def patch():
    for name, m in list(sys.modules.items()):
        if name.startswith("vf.") and getattr(m, "attempt", None) in (real, chaos):
            m.attempt = chaos
    core.attempt = chaos

sites = collections.Counter(); examples = {}
for pid in ids:
    mod = M.load_prop(pid)
    for tgt in mod.targets("quick"):
        if tgt.name.startswith("fuzz"):
            continue
        if tgt.setup:
            tgt.setup()
        cases = []
        if tgt.kind == "enum":
            allc = []
            for i, c in enumerate(tgt.enumerate_("quick")):
                allc.append(c)
                if i > 4000: break
            step = max(1, len(allc) // a.n)
            cases = allc[::step][: a.n]
        else:
            import hypothesis
            from hypothesis import given, settings, HealthCheck, Phase
            M._pin_hypothesis()
            @hypothesis.seed(1)
            @settings(max_examples=a.n, database=None, deadline=None, phases=[Phase.generate], suppress_health_check=list(HealthCheck))
            @given(tgt.strategy("quick"))
            def t(case): cases.append(case)
            t()
        patch()
        for case in cases:
            for rep in range(3):
                try:
                    M.checked(tgt, case)
                except M.Inconclusive:
                    pass
                except Exception as exc:
                    tb = traceback.extract_tb(exc.__traceback__)
                    fr = [f for f in tb if f.filename.startswith(V + "/vf")]
                    site = f"{os.path.relpath(fr[-1].filename, V)}:{fr[-1].lineno} {type(exc).__name__}" if fr else "?"
                    key = (pid, tgt.name, site)
                    sites[key] += 1
                    examples.setdefault(key, f"{exc!r} :: {fr[-1].line if fr else ''}")
        core.attempt = real
        for name, m in list(sys.modules.items()):
            if name.startswith("vf.") and getattr(m, "attempt", None) is chaos:
                m.attempt = real
    print(f"{pid}: done", flush=True)
print(f"\n{len(sites)} crash site(s) in check code")
for (pid, t, site), n in sorted(sites.items()):
    print(f"{pid} {t:24s} {site}  x{n}  {examples[(pid, t, site)][:160]}")
