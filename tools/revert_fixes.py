#!/usr/bin/env python3
"""For every 'fixed:' line of KNOWN_FINDINGS.txt: revert that /repo commit in a scratch worktree and run the property's quick
check against it; the check must report a VIOLATION again (a fixed entry suppresses nothing). Results: out/revert_fixes.txt"""
import os, re, shutil, subprocess, sys, tempfile
V = os.path.dirname(os.path.dirname(os.path.abspath(__file__)))
only = set(sys.argv[1:])
out = open(os.path.join(V, "out", "revert_fixes.txt"), "a")
for line in open(os.path.join(V, "KNOWN_FINDINGS.txt")):
    m = re.match(r"fixed: property=(C\d+) ([0-9a-f]{7,}) (.*)", line)
    if not m:
        continue
    pid, commit, what = m.groups()
    if only and pid not in only:
        continue
    tmp = tempfile.mkdtemp(prefix="bitsrev_", dir="/tmp")
    wt = tmp + "/wt"
    try:
        subprocess.check_call(["git", "-C", "/repo", "worktree", "add", "--detach", "-q", wt, "HEAD"])
        r = subprocess.run(["git", "-C", wt, "-c", "user.name=x", "-c", "user.email=x@x", "revert", "--no-commit", commit], capture_output=True, text=True)
        if r.returncode:
            res = f"{pid} {commit} REVERT-CONFLICT (later fix touches the same lines) :: {what[:80]}"
        else:
            c = subprocess.run([V + "/check", pid, "--tier", "quick"], env=dict(os.environ, BITS_REPO=wt), capture_output=True, text=True, cwd=V)
            sigs = [l.split("sig=")[1].split(" count")[0] for l in c.stdout.splitlines() if "failure" in l and "sig=" in l][:3]
            res = f"{pid} {commit} exit={c.returncode} {'REDETECTED' if c.returncode == 1 else 'NOT-DETECTED'} {sigs} :: {what[:80]}"
        print(res, flush=True)
        out.write(res + "\n"); out.flush()
    finally:
        subprocess.call(["git", "-C", "/repo", "worktree", "remove", "--force", wt])
        shutil.rmtree(tmp, ignore_errors=True)
