#!/usr/bin/env python3
"""Rebuilds sections 11-14 of DESIGN.md from tools/design_tail.md, seeded/*/meta.json and out/revert_fixes.txt."""
import glob, json, os, re
V = os.path.dirname(os.path.dirname(os.path.abspath(__file__)))
d = open(os.path.join(V, "DESIGN.md")).read()
cut = d.find("\n## 11. As built")
if cut >= 0:
    d = d[:cut]
tail = open(os.path.join(V, "tools", "design_tail.md")).read()
rows = ["| seed | change (as described by its author) | needs | detected by (first signature) | history |", "|------|------|-------|------|---------|"]
n = det = 0
for p in sorted(glob.glob(os.path.join(V, "seeded", "*", "meta.json"))):
    m = json.load(open(p))
    name = os.path.basename(os.path.dirname(p))
    res = m["check_results"][m["breaks_property"]]
    sigs = res["signatures"]
    s0 = sigs[0].split("sig=")[1].split(" count")[0] if sigs else "-"
    n += 1
    det += res["exit"] == 1
    hist = m.get("history", "detected on the first run")
    if m.get("obsolete"):
        hist = "OBSOLETE: " + m["obsolete"] + " " + (hist if hist != "detected on the first run" else "")
    esc = lambda t: str(t).replace("|", "\\|").replace("\n", " ")
    rows.append(f"| {name} | {esc(m.get('summary',''))[:260]} | {esc(m.get('needs',''))[:200]} | `{esc(s0)}` | {esc(hist)[:300]} |")
rows.append("")
rows.append(f"{det} of {n} seeded changes are detected by the quick tier of the property's check as committed "
            f"({sum(1 for p in glob.glob(os.path.join(V,'seeded','*','meta.json')) if 'MISSED' in json.load(open(p)).get('history',''))} of them only after the check was strengthened, as noted in the history column).")
# per-wave summary: how many of the fresh changes of each round the checks of that time missed
waves = {}
for p in sorted(glob.glob(os.path.join(V, "seeded", "*", "meta.json"))):
    m = json.load(open(p))
    w = os.path.basename(os.path.dirname(p)).split("-")[1]
    k = waves.setdefault(w, [0, 0])
    k[0] += 1
    k[1] += "initially MISSED" in m.get("history", "")
rows.append("")
rows.append("| round | " + " | ".join(sorted(waves)) + " |")
rows.append("|---|" + "---|" * len(waves))
rows.append("| changes kept | " + " | ".join(str(waves[w][0]) for w in sorted(waves)) + " |")
rows.append("| missed by the checks as they were then | " + " | ".join(str(waves[w][1]) for w in sorted(waves)) + " |")
rows.append("")
rows.append("Rounds a-k each asked for a kind of change the earlier rounds had not tried (the instructions of the last round are in "
            "tools/SEED_INSTRUCTIONS.md), which is why the miss count does not fall to zero: each round probes a new direction, and "
            "every miss became a generator class or relation. Round l asked for ordinary mistakes (a wrong operator, constant, index, "
            "order of steps) at the anchored code sites instead, as a measure of the baseline.")
tail = tail.replace("SEEDED_TABLE", "\n".join(rows))
rv = os.path.join(V, "out", "revert_fixes.txt")
keep = os.path.join(V, "tools", "revert_fixes_result.txt")
if os.path.exists(rv):
    open(keep, "w").write(open(rv).read())
if os.path.exists(keep):
    lines = [l.strip() for l in open(keep) if l.strip()]
    ok = sum("REDETECTED" in l for l in lines)
    summary = f"{ok} of {len(lines)} reverted fixes are reported again (full list: tools/revert_fixes_result.txt)."
    bad = [l for l in lines if "REDETECTED" not in l]
    if bad:
        summary += " Not re-detected / not revertible in isolation:\n\n" + "\n".join("* `" + l[:200] + "`" for l in bad)
else:
    summary = "(not run yet)"
tail = tail.replace("REVERT_SUMMARY", summary)
open(os.path.join(V, "DESIGN.md"), "w").write(d + tail)
print("DESIGN.md rebuilt:", n, "seeds,", det, "detected")
