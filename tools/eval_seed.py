#!/usr/bin/env python3
"""
Evaluate one seeded change:  tools/eval_seed.py <dir with patch.diff, demo.py, meta.json> <ID> [--keep-as NAME] [--also ID ...]
 1. scratch worktree of /repo HEAD, git apply patch.diff
 2. pinned suite there must still give 187 passed
 3. demo.py must exit non-zero on the patched tree and 0 on /repo
 4. ./check <ID> (quick) with BITS_REPO=<worktree>; report exit code and signatures
 5. with --keep-as, copy patch/demo/meta (+ what was run) to /verif/seeded/<NAME>/
"""
import argparse, json, os, shutil, subprocess, sys, tempfile, time

ap = argparse.ArgumentParser()
ap.add_argument("dir"); ap.add_argument("pid")
ap.add_argument("--keep-as"); ap.add_argument("--also", nargs="*", default=[])
ap.add_argument("--tier", default="quick"); ap.add_argument("--skip-pytest", action="store_true")
a = ap.parse_args()
V = "/verif"
tmp = tempfile.mkdtemp(prefix="bitsseed_", dir="/tmp")
wt = tmp + "/wt"
ran = []
def sh(cmd, **kw):
    r = subprocess.run(cmd, capture_output=True, text=True, **kw)
    return r
import json as _json
_mp = os.path.join(a.dir, "meta.json")
if os.path.exists(_mp) and _json.load(open(_mp)).get("obsolete"):
    print("OBSOLETE (kept for the record):", _json.load(open(_mp))["obsolete"][:200]); shutil.rmtree(tmp, ignore_errors=True); sys.exit(0)
try:
    subprocess.check_call(["git", "-C", "/repo", "worktree", "add", "--detach", "-q", wt, "HEAD"])
    r = sh(["git", "-C", wt, "apply", "--whitespace=nowarn", os.path.join(a.dir, "patch.diff")])
    if r.returncode:
        print("PATCH DOES NOT APPLY:", r.stderr[-500:]); sys.exit(3)
    head = sh(["git", "-C", "/repo", "rev-parse", "--short", "HEAD"]).stdout.strip()
    ok_tests = None
    if not a.skip_pytest:
        r = sh(["/venv/bin/python", "-m", "pytest", "-q", "-p", "no:cacheprovider", "--timeout=900"], cwd=wt, env=dict(os.environ, PYTHONPATH=wt + "/src"))
        last = r.stdout.strip().splitlines()[-1] if r.stdout.strip() else r.stderr[-200:]
        ok_tests = "187 passed" in last and "12 failed" in last
        ran.append(f"pytest on patched tree: {last}")
        print("pytest:", last, "OK" if ok_tests else "MISMATCH")
    d1 = sh(["/venv/bin/python", os.path.join(a.dir, "demo.py")], env=dict(os.environ, PYTHONPATH=wt + "/src"), cwd=tmp, timeout=900)
    d0 = sh(["/venv/bin/python", os.path.join(a.dir, "demo.py")], env=dict(os.environ, PYTHONPATH="/repo/src"), cwd=tmp, timeout=900)
    print(f"demo patched exit={d1.returncode}  clean exit={d0.returncode}")
    print("  patched:", (d1.stdout + d1.stderr).strip().splitlines()[-3:])
    ran.append(f"demo.py on patched tree: exit {d1.returncode}; on unchanged tree: exit {d0.returncode}")
    results = {}
    for pid in [a.pid] + a.also:
        t0 = time.time()
        r = sh([V + "/check", pid, "--tier", a.tier], env=dict(os.environ, BITS_REPO=wt), cwd=V)
        sigs = [l.strip() for l in r.stdout.splitlines() if l.strip().startswith("failure")]
        results[pid] = {"exit": r.returncode, "signatures": [s[:200] for s in sigs[:6]], "wall_s": round(time.time() - t0, 1)}
        print(f"check {pid}: exit {r.returncode} ({results[pid]['wall_s']}s)")
        for s in sigs[:6]:
            print("    ", s[:220])
        if r.returncode == 2:
            print(r.stdout[-1500:])
        ran.append(f"./check {pid} --tier {a.tier} with BITS_REPO=<patched worktree>: exit {r.returncode}")
    confirmed = (ok_tests is not False) and d1.returncode != 0 and d0.returncode == 0
    print("CONFIRMED" if confirmed else "NOT CONFIRMED", "| detected" if results[a.pid]["exit"] == 1 else "| MISSED")
    if a.keep_as and confirmed:
        dst = os.path.join(V, "seeded", a.keep_as)
        os.makedirs(dst, exist_ok=True)
        shutil.copy(os.path.join(a.dir, "patch.diff"), dst)
        shutil.copy(os.path.join(a.dir, "demo.py"), dst)
        meta = {}
        try:
            meta = json.load(open(os.path.join(a.dir, "meta.json")))
        except Exception:
            pass
        meta.update({"breaks_property": a.pid, "base_commit": head, "confirmed_by_me": ran, "check_results": results,
                     "detected": results[a.pid]["exit"] == 1})
        json.dump(meta, open(os.path.join(dst, "meta.json"), "w"), indent=1)
        print("kept as", dst)
finally:
    subprocess.call(["git", "-C", "/repo", "worktree", "remove", "--force", wt])
    shutil.rmtree(tmp, ignore_errors=True)
