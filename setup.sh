#!/bin/sh
# MANIFEST.setup_cmd: offline; makes sure the check interpreter can import what the harness needs.
set -e
HERE="$(cd "$(dirname "$0")" && pwd)"
PY=/venv/bin/python
WH=/opt/veriftools/wheels
$PY -c "import hypothesis" 2>/dev/null || /venv/bin/pip install --no-index --find-links $WH hypothesis
$PY -c "import cryptography" 2>/dev/null || /venv/bin/pip install --no-index --find-links $WH cryptography || echo "cryptography unavailable: OpenSSL sub-oracles will be reported as not exercised"
# atheris is an optional thorough-tier add-on
if ! PYTHONPATH="$HERE/.deps" $PY -c "import atheris" 2>/dev/null; then
  /venv/bin/pip install --no-index --find-links $WH --target "$HERE/.deps" atheris >/dev/null 2>&1 || echo "atheris unavailable: fuzz sub-targets are skipped"
fi
mkdir -p "$HERE/out" "$HERE/evidence"
$PY -B "$HERE/vf/main.py" --selftest
