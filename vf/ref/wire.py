"""
Independent reference for the Bitcoin P2P wire format, written from the protocol documentation
(en.bitcoin.it/wiki/Protocol_documentation, developer.bitcoin.org/reference/p2p_networking.html).
Never imports bits.

Message:  magic(4) | command(12, ASCII, NUL padded) | length(4, LE) | checksum(4) = SHA256(SHA256(payload))[:4] | payload
"""
import hashlib
import struct

MAGIC = {
    "mainnet": bytes.fromhex("f9beb4d9"),
    "testnet": bytes.fromhex("0b110907"),
    "regtest": bytes.fromhex("fabfb5da"),
}
HEADER_LEN = 24
COMMAND_LEN = 12

# the command table of the library under test (en.bitcoin.it/wiki/Network#Messages), hard-coded
COMMANDS = [
    "version", "verack", "addr", "inv", "getdata", "getblocks", "getheaders", "tx", "block", "headers",
    "getaddr", "submitorder", "checkorder", "reply", "alert", "ping", "pong",
]

# header field extents, relative to the start of a message
FIELDS = (("magic", 0, 4), ("command", 4, 16), ("length", 16, 20), ("checksum", 20, 24))


def hash256(b: bytes) -> bytes:
    return hashlib.sha256(hashlib.sha256(b).digest()).digest()


def checksum(payload: bytes) -> bytes:
    return hash256(payload)[:4]


def frame(magic: bytes, command: bytes, payload: bytes = b"") -> bytes:
    if isinstance(command, str):
        command = command.encode("ascii")
    assert len(magic) == 4 and 0 < len(command) <= COMMAND_LEN and len(payload) < 1 << 32
    return magic + command.ljust(COMMAND_LEN, b"\x00") + struct.pack("<I", len(payload)) + checksum(payload) + payload


def receive(stream: bytes, pos: int, expected_magic: bytes) -> dict:
    """Reference receiver: decide what a correct receiver does with stream[pos:] followed by EOF.

    Returns {"ok": True, "magic", "command", "payload", "end"} or {"ok": False, "why": [...]} where why contains
    "eof-at-start" / "eof-in-header" / "eof-in-payload" (connection closed before the message was complete) or
    any of "magic", "checksum" (complete message, field mismatch)."""
    avail = len(stream) - pos
    if avail <= 0:
        return {"ok": False, "why": ["eof-at-start"]}
    if avail < HEADER_LEN:
        return {"ok": False, "why": ["eof-in-header"]}
    head = stream[pos : pos + HEADER_LEN]
    magic = head[0:4]
    field = head[4:16]
    (length,) = struct.unpack("<I", head[16:20])
    cksum = head[20:24]
    if avail - HEADER_LEN < length:
        return {"ok": False, "why": ["eof-in-payload"], "declared": length}
    payload = stream[pos + HEADER_LEN : pos + HEADER_LEN + length]
    why = []
    if magic != expected_magic:
        why.append("magic")
    if cksum != checksum(payload):
        why.append("checksum")
    if why:
        return {"ok": False, "why": why, "declared": length}
    return {
        "ok": True,
        "magic": magic,
        "command": field.rstrip(b"\x00"),
        "payload": payload,
        "end": pos + HEADER_LEN + length,
    }


def field_at(offset_in_msg: int) -> str:
    for name, a, b in FIELDS:
        if a <= offset_in_msg < b:
            return name
    return "payload"


# ---------------------------------------------------------------- CompactSize


def compact_size(n: int) -> bytes:
    assert 0 <= n < 1 << 64
    if n <= 252:
        return bytes([n])
    if n <= 0xFFFF:
        return b"\xfd" + struct.pack("<H", n)
    if n <= 0xFFFFFFFF:
        return b"\xfe" + struct.pack("<I", n)
    return b"\xff" + struct.pack("<Q", n)


class Malformed(Exception):
    pass


class Reader:
    def __init__(self, data: bytes):
        self.d = data
        self.i = 0

    def take(self, n: int) -> bytes:
        if n < 0 or self.i + n > len(self.d):
            raise Malformed(f"need {n} bytes at {self.i}, have {len(self.d) - self.i}")
        out = self.d[self.i : self.i + n]
        self.i += n
        return out

    def u(self, n: int, order="little") -> int:
        return int.from_bytes(self.take(n), order)

    def compact(self) -> int:
        b = self.u(1)
        if b < 253:
            return b
        n = self.u({253: 2, 254: 4, 255: 8}[b])
        if n < {253: 253, 254: 0x10000, 255: 0x100000000}[b]:
            raise Malformed("non-canonical CompactSize")
        return n

    def left(self) -> int:
        return len(self.d) - self.i

    def end(self):
        if self.left():
            raise Malformed(f"{self.left()} trailing bytes")


# ---------------------------------------------------------------- payload layouts

INV_TYPES = {
    "MSG_TX": 1,
    "MSG_BLOCK": 2,
    "MSG_FILTERED_BLOCK": 3,
    "MSG_CMPCT_BLOCK": 4,
    "MSG_WITNESS_TX": 0x40000001,
    "MSG_WITNESS_BLOCK": 0x40000002,
}
INV_NAMES = {v: k for k, v in INV_TYPES.items()}


def build_version(f: dict) -> bytes:
    out = struct.pack("<IQQ", f["protocol_version"], f["services"], f["timestamp"])
    out += struct.pack("<Q", f["addr_recv_services"]) + f["addr_recv_ip"] + struct.pack(">H", f["addr_recv_port"])
    out += struct.pack("<Q", f["addr_trans_services"]) + f["addr_trans_ip"] + struct.pack(">H", f["addr_trans_port"])
    out += struct.pack("<Q", f["nonce"])
    out += compact_size(len(f["user_agent"])) + f["user_agent"]
    out += struct.pack("<I", f["start_height"])
    if f.get("relay") is not None:
        out += b"\x01" if f["relay"] else b"\x00"
    return out


def parse_version(payload: bytes) -> dict:
    r = Reader(payload)
    f = {
        "protocol_version": r.u(4),
        "services": r.u(8),
        "timestamp": r.u(8),
        "addr_recv_services": r.u(8),
        "addr_recv_ip": r.take(16),
        "addr_recv_port": r.u(2, "big"),
        "addr_trans_services": r.u(8),
        "addr_trans_ip": r.take(16),
        "addr_trans_port": r.u(2, "big"),
        "nonce": r.u(8),
    }
    f["user_agent_offset"] = r.i
    f["user_agent"] = r.take(r.compact())
    f["user_agent_end"] = r.i
    f["start_height"] = r.u(4)
    if r.left():
        b = r.u(1)
        if b > 1:
            raise Malformed("relay byte not 0/1")
        f["relay"] = bool(b)
    else:
        f["relay"] = None
    r.end()
    return f


def build_getheaders(protocol_version: int, hashes, stop_hash: bytes) -> bytes:
    assert all(len(h) == 32 for h in hashes) and len(stop_hash) == 32
    return struct.pack("<I", protocol_version) + compact_size(len(hashes)) + b"".join(hashes) + stop_hash


def parse_getheaders(payload: bytes) -> dict:
    r = Reader(payload)
    pv = r.u(4)
    n = r.compact()
    hashes = [r.take(32) for _ in range(n)]
    stop = r.take(32)
    r.end()
    return {"protocol_version": pv, "hashes": hashes, "stop_hash": stop}


def build_inv(items) -> bytes:
    """items: [(type_int, hash32)]"""
    assert all(len(h) == 32 for _, h in items)
    return compact_size(len(items)) + b"".join(struct.pack("<I", t) + h for t, h in items)


def parse_inv(payload: bytes):
    r = Reader(payload)
    n = r.compact()
    items = [(r.u(4), r.take(32)) for _ in range(n)]
    r.end()
    return items


def build_addr(entries) -> bytes:
    """entries: [(time_u32, services_8_bytes, ip_16_bytes, port_u16)]"""
    out = compact_size(len(entries))
    for t, services, ip, port in entries:
        assert len(services) == 8 and len(ip) == 16
        out += struct.pack("<I", t) + services + ip + struct.pack(">H", port)
    return out


def parse_addr(payload: bytes):
    r = Reader(payload)
    n = r.compact()
    out = [(r.u(4), r.take(8), r.take(16), r.u(2, "big")) for _ in range(n)]
    r.end()
    return out


def build_ping(nonce: int) -> bytes:
    return struct.pack("<Q", nonce)


def parse_ping(payload: bytes) -> int:
    r = Reader(payload)
    n = r.u(8)
    r.end()
    return n


# ---------------------------------------------------------------- self-check against public vectors

# en.bitcoin.it/wiki/Protocol_documentation: verack, version (60002) and addr example messages
_WIKI_VERACK = "f9beb4d976657261636b000000000000000000005df6e0e2"
_WIKI_VERSION = (
    "f9beb4d976657273696f6e0000000000640000003b648d5a"  # checksum of this payload (the wiki page prints a stale one)
    "62ea0000010000000000000011b2d05000000000"
    "010000000000000000000000000000000000ffff000000000000"
    "010000000000000000000000000000000000ffff000000000000"
    "3b2eb35d8ce61765"
    "0f2f5361746f7368693a302e372e322f"
    "c03e0300"
)
_WIKI_ADDR = (
    "f9beb4d96164647200000000000000001f000000ed52399b"
    "01e215104d010000000000000000000000000000000000ffff0a000001208d"
)
# developer.bitcoin.org reference: inv and getblocks/getheaders examples
_DEV_INV = (
    "02"
    "01000000de55ffd709ac1f5dc509a0925d0b1fc442ca034f224732e429081da1b621f55a"
    "0100000091d36d997037e08018262978766f24b8a055aaf1d872e94ae85e9817b2c68dc7"
)
_DEV_GETHEADERS = (
    "71110100" "02"
    "d39f608a7775b537729884d4e6633bb2105e55a16a14d31b0000000000000000"
    "5c3e6403d40837110a2e8afb602b1c01714bda7ce23bea0a0000000000000000"
    "0000000000000000000000000000000000000000000000000000000000000000"
)


def selfcheck():
    mm = MAGIC["mainnet"]
    # header layout and checksum
    assert frame(mm, b"verack").hex() == _WIKI_VERACK
    assert checksum(b"") == bytes.fromhex("5df6e0e2")
    ver = bytes.fromhex(_WIKI_VERSION)
    r = receive(ver, 0, mm)
    assert r["ok"] and r["command"] == b"version" and len(r["payload"]) == 100 and r["end"] == len(ver)
    assert frame(mm, b"version", r["payload"]) == ver
    f = parse_version(r["payload"])
    assert f["protocol_version"] == 60002 and f["services"] == 1 and f["timestamp"] == 0x50D0B211
    assert f["user_agent"] == b"/Satoshi:0.7.2/" and f["start_height"] == 212672 and f["relay"] is None
    assert f["addr_recv_ip"] == bytes(10) + b"\xff\xff" + bytes(4) and f["addr_recv_port"] == 0
    assert f["nonce"] == 0x6517E68C5DB32E3B
    assert build_version(f) == r["payload"]
    assert parse_version(r["payload"] + b"\x00")["relay"] is False
    addr = bytes.fromhex(_WIKI_ADDR)
    r = receive(addr, 0, mm)
    assert r["ok"] and r["command"] == b"addr", r
    ent = parse_addr(r["payload"])
    assert ent == [(0x4D1015E2, b"\x01" + bytes(7), bytes(10) + b"\xff\xff\x0a\x00\x00\x01", 8333)]
    assert build_addr(ent) == r["payload"]
    # reference receiver decisions
    two = ver + addr
    r1 = receive(two, 0, mm)
    r2 = receive(two, r1["end"], mm)
    assert r2["ok"] and r2["end"] == len(two)
    assert receive(two, len(two), mm) == {"ok": False, "why": ["eof-at-start"]}
    assert receive(ver[:10], 0, mm)["why"] == ["eof-in-header"]
    assert receive(ver[:24], 0, mm)["why"] == ["eof-in-payload"]
    assert receive(ver[:-1], 0, mm)["why"] == ["eof-in-payload"]
    assert receive(ver, 0, MAGIC["testnet"])["why"] == ["magic"]
    bad = bytearray(ver)
    bad[30] ^= 1
    assert receive(bytes(bad), 0, mm)["why"] == ["checksum"]
    bad = bytearray(ver)
    bad[5] ^= 1  # command field is not covered by the checksum
    rb = receive(bytes(bad), 0, mm)
    assert rb["ok"] and rb["command"] == b"vdrsion" and rb["payload"] == r1["payload"]
    # payload layouts
    inv = parse_inv(bytes.fromhex(_DEV_INV))
    assert [t for t, _ in inv] == [1, 1] and inv[0][1].hex().startswith("de55ffd7") and build_inv(inv).hex() == _DEV_INV
    gh = parse_getheaders(bytes.fromhex(_DEV_GETHEADERS))
    assert gh["protocol_version"] == 70001 and len(gh["hashes"]) == 2 and gh["stop_hash"] == bytes(32)
    assert gh["hashes"][0].hex().startswith("d39f608a") and gh["hashes"][1].hex().startswith("5c3e6403")
    assert build_getheaders(70001, gh["hashes"], gh["stop_hash"]).hex() == _DEV_GETHEADERS
    assert build_ping(0x4DAFE21121109400).hex() == "0094102111e2af4d" and parse_ping(bytes.fromhex("0094102111e2af4d")) == 0x4DAFE21121109400
    # CompactSize boundaries
    for n, enc in [(0, "00"), (252, "fc"), (253, "fdfd00"), (65535, "fdffff"), (65536, "fe00000100"), (1 << 32, "ff0000000001000000")]:
        assert compact_size(n).hex() == enc and Reader(bytes.fromhex(enc)).compact() == n
    try:
        Reader(bytes.fromhex("fd0100")).compact()
        raise AssertionError("non-canonical accepted")
    except Malformed:
        pass
    assert INV_TYPES["MSG_WITNESS_TX"] == (1 << 30) | 1 and len(COMMANDS) == 17
