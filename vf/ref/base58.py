"""Independent Base58 / Base58Check (byte-wise long division, after Bitcoin's base58.cpp). Never imports bits."""
import hashlib

ALPHABET = "123456789ABCDEFGHJKLMNPQRSTUVWXYZabcdefghijkmnopqrstuvwxyz"
INDEX = {ord(c): i for i, c in enumerate(ALPHABET)}


def encode(data: bytes) -> bytes:
    zeros = 0
    while zeros < len(data) and data[zeros] == 0:
        zeros += 1
    digits = []  # little-endian base58 digits
    for byte in data[zeros:]:
        carry = byte
        for i in range(len(digits)):
            carry += digits[i] << 8
            digits[i] = carry % 58
            carry //= 58
        while carry:
            digits.append(carry % 58)
            carry //= 58
    return ("1" * zeros + "".join(ALPHABET[d] for d in reversed(digits))).encode("ascii")


def decode(s: bytes):
    """Returns bytes, or None if a character is outside the alphabet."""
    ones = 0
    while ones < len(s) and s[ones] == 0x31:
        ones += 1
    out = []  # little-endian base256 digits
    for ch in s[ones:]:
        if ch not in INDEX:
            return None
        carry = INDEX[ch]
        for i in range(len(out)):
            carry += out[i] * 58
            out[i] = carry & 0xFF
            carry >>= 8
        while carry:
            out.append(carry & 0xFF)
            carry >>= 8
    return b"\x00" * ones + bytes(reversed(out))


def checksum(payload: bytes) -> bytes:
    return hashlib.sha256(hashlib.sha256(payload).digest()).digest()[:4]


def check_encode(payload: bytes) -> bytes:
    return encode(payload + checksum(payload))


def check_decode(s: bytes):
    """Returns payload, or None when s is not a checksum-valid Base58Check string."""
    d = decode(s)
    if d is None or len(d) < 4:
        return None
    if d[-4:] != checksum(d[:-4]):
        return None
    return d[:-4]


def selfcheck():
    assert encode(b"hello world") == b"StV1DL6CwTryKyV"
    assert decode(b"StV1DL6CwTryKyV") == b"hello world"
    assert check_encode(b"hello world") == b"3vQB7B6MrGQZaxCuFg4oh"
    # well-known address: hash160 of the genesis pubkey
    h = bytes.fromhex("0062e907b15cbf27d5425399ebf6f0fb50ebb88f18")
    assert check_encode(h) == b"1A1zP1eP5QGefi2DMPTfTL5SLmv7DivfNa"
    assert check_decode(b"1A1zP1eP5QGefi2DMPTfTL5SLmv7DivfNa") == h
    assert check_decode(b"1A1zP1eP5QGefi2DMPTfTL5SLmv7DivfNb") is None
    assert encode(b"") == b"" and decode(b"") == b""
    assert encode(b"\x00\x00\x01") == b"112" and decode(b"112") == b"\x00\x00\x01"
    assert decode(b"0") is None and decode(b"I") is None
