"""
Independent BIP39 (English) written from the BIP text. Never imports bits.

Different algorithms from the library on purpose:
  * entropy <-> words through explicit '0'/'1' bit strings (the library shifts one big integer);
  * PBKDF2-HMAC-SHA512 as an explicit RFC 2898 / RFC 2104 loop over hashlib.sha512
    (the library calls hashlib.pbkdf2_hmac).

The word list is an embedded copy (vf/ref/bip39_english.txt) of src/bits/bips/bip39/english.txt at the pinned
commit 499bf746; its SHA-256 is pinned below, as is the SHA-256 of the canonical form (one word per line, every line
newline-terminated), which is the digest of bitcoin/bips bip-0039/english.txt.
"""
import hashlib
import os
import unicodedata

HERE = os.path.dirname(os.path.abspath(__file__))
WORDLIST_PATH = os.path.join(HERE, "bip39_english.txt")

# bytes of english.txt at the pinned commit (2048 lines, no trailing newline)
EMBEDDED_FILE_SHA256 = "187db04a869dd9bc7be80d21a86497d692c0db6abd3aa8cb6be5d618ff757fae"
# "\n".join(words) + "\n"  ==  the official bitcoin/bips english.txt
CANONICAL_LIST_SHA256 = "2f5eed53a4727b4bf8880d8f3f199efc90e58503646d9ff8eff3a2ed3b24dbda"

VALID_ENTROPY_BYTES = (16, 20, 24, 28, 32)
VALID_WORD_COUNTS = (12, 15, 18, 21, 24)


def canonical_list_digest(words):
    return hashlib.sha256(("\n".join(words) + "\n").encode("utf-8")).hexdigest()


def _load():
    with open(WORDLIST_PATH, "rb") as f:
        raw = f.read()
    if hashlib.sha256(raw).hexdigest() != EMBEDDED_FILE_SHA256:
        raise RuntimeError("vf/ref/bip39_english.txt does not hash to the pinned value")
    words = raw.decode("ascii").split("\n")
    if canonical_list_digest(words) != CANONICAL_LIST_SHA256:
        raise RuntimeError("embedded BIP39 word list is not the official English list")
    if len(words) != 2048 or len(set(words)) != 2048 or words != sorted(words):
        raise RuntimeError("embedded BIP39 word list is not 2048 unique sorted words")
    return tuple(words)


WORDS = _load()
INDEX = {w: i for i, w in enumerate(WORDS)}


# ---------------------------------------------------------------- entropy <-> words (bit strings)


def _bits(data: bytes) -> str:
    return "".join(format(b, "08b") for b in data)


def checksum_bits(entropy: bytes) -> str:
    """First ENT/32 bits of SHA-256(entropy) as a '0'/'1' string."""
    return _bits(hashlib.sha256(entropy).digest())[: len(entropy) * 8 // 32]


def to_words(entropy: bytes):
    """List of words for an entropy of a valid length; None for any other length."""
    if len(entropy) not in VALID_ENTROPY_BYTES:
        return None
    full = _bits(entropy) + checksum_bits(entropy)
    assert len(full) % 11 == 0
    return [WORDS[int(full[i : i + 11], 2)] for i in range(0, len(full), 11)]


def to_mnemonic(entropy: bytes):
    w = to_words(entropy)
    return None if w is None else " ".join(w)


def decode_words(words):
    """
    Decision procedure for a word sequence (a list of tokens).
    Returns (entropy, None) when accepted, (None, reason) otherwise with reason in
    'bad-length' | 'non-list-word' | 'bad-checksum'.
    """
    if len(words) not in VALID_WORD_COUNTS:
        return None, "bad-length"
    for w in words:
        if w not in INDEX:
            return None, "non-list-word"
    full = "".join(format(INDEX[w], "011b") for w in words)
    cs = len(words) // 3  # 11*MS = ENT + ENT/32, MS = 3*ENT/32  =>  CS = MS/3
    ent_bits, cs_bits = full[:-cs], full[-cs:]
    assert len(ent_bits) % 32 == 0 and len(ent_bits) // 32 == cs
    entropy = bytes(int(ent_bits[i : i + 8], 2) for i in range(0, len(ent_bits), 8))
    if checksum_bits(entropy) != cs_bits:
        return None, "bad-checksum"
    return entropy, None


# ---------------------------------------------------------------- PBKDF2-HMAC-SHA512, explicit

_BLOCK = 128  # SHA-512 block size in bytes


def hmac_sha512_keyed(key: bytes):
    """RFC 2104 with SHA-512; returns mac(msg) for the fixed key."""
    if len(key) > _BLOCK:
        key = hashlib.sha512(key).digest()
    key = key + b"\x00" * (_BLOCK - len(key))
    inner = hashlib.sha512(bytes(b ^ 0x36 for b in key))
    outer = hashlib.sha512(bytes(b ^ 0x5C for b in key))

    def mac(msg: bytes) -> bytes:
        i = inner.copy()
        i.update(msg)
        o = outer.copy()
        o.update(i.digest())
        return o.digest()

    return mac


def pbkdf2_hmac_sha512(password: bytes, salt: bytes, iterations: int, dklen: int) -> bytes:
    """RFC 2898 section 5.2."""
    mac = hmac_sha512_keyed(password)
    out = b""
    block = 1
    while len(out) < dklen:
        u = mac(salt + block.to_bytes(4, "big"))
        t = int.from_bytes(u, "big")
        for _ in range(iterations - 1):
            u = mac(u)
            t ^= int.from_bytes(u, "big")
        out += t.to_bytes(64, "big")
        block += 1
    return out[:dklen]


def nfkd(s: str) -> str:
    return unicodedata.normalize("NFKD", s)


def seed(mnemonic: str, passphrase: str = "") -> bytes:
    """PBKDF2-HMAC-SHA512(NFKD(mnemonic), 'mnemonic' + NFKD(passphrase), 2048, 64)."""
    password = nfkd(mnemonic).encode("utf-8")
    salt = ("mnemonic" + nfkd(passphrase)).encode("utf-8")
    return pbkdf2_hmac_sha512(password, salt, 2048, 64)


# ---------------------------------------------------------------- self check

# https://github.com/trezor/python-mnemonic/blob/master/vectors.json (passphrase "TREZOR"): entropy, mnemonic, seed
_TREZOR = [
    (
        "00000000000000000000000000000000",
        "abandon abandon abandon abandon abandon abandon abandon abandon abandon abandon abandon about",
        "c55257c360c07c72029aebc1b53c05ed0362ada38ead3e3e9efa3708e53495531f09a6987599d18264c1e1c92f2cf141630c7a3c4ab7c81b2f001698e7463b04",
    ),
    (
        "7f7f7f7f7f7f7f7f7f7f7f7f7f7f7f7f",
        "legal winner thank year wave sausage worth useful legal winner thank yellow",
        "2e8905819b8723fe2c1d161860e5ee1830318dbf49a83bd451cfb8440c28bd6fa457fe1296106559a3c80937a1c1069be3a3a5bd381ee6260e8d9739fce1f607",
    ),
    (
        "ffffffffffffffffffffffffffffffff",
        "zoo zoo zoo zoo zoo zoo zoo zoo zoo zoo zoo wrong",
        "ac27495480225222079d7be181583751e86f571027b0497b5b5d11218e0a8a13332572917f0f8e5a589620c6f15b11c61dee327651a14c34e18231052e48c069",
    ),
    (
        "808080808080808080808080808080808080808080808080",
        "letter advice cage absurd amount doctor acoustic avoid letter advice cage absurd amount doctor acoustic avoid letter always",
        "107d7c02a5aa6f38c58083ff74f04c607c2d2c0ecc55501dadd72d025b751bc27fe913ffb796f841c49b1d33b610cf0e91d3aa239027f5e99fe4ce9e5088cd65",
    ),
    (
        "0000000000000000000000000000000000000000000000000000000000000000",
        "abandon abandon abandon abandon abandon abandon abandon abandon abandon abandon abandon abandon abandon abandon abandon abandon abandon abandon abandon abandon abandon abandon abandon art",
        "bda85446c68413707090a52022edd26a1c9462295029f2e60cd7c4f2bbd3097170af7a4d73245cafa9c3cca8d561a7c3de6f5d4a10be8ed2a5e608d68f92fcc8",
    ),
]


def selfcheck():
    assert len(WORDS) == 2048 and WORDS[0] == "abandon" and WORDS[3] == "about" and WORDS[2047] == "zoo"
    for ent_hex, mnemonic, seed_hex in _TREZOR:
        ent = bytes.fromhex(ent_hex)
        assert to_mnemonic(ent) == mnemonic, ("to_mnemonic", ent_hex)
        assert decode_words(mnemonic.split(" ")) == (ent, None), ("decode_words", ent_hex)
        assert seed(mnemonic, "TREZOR").hex() == seed_hex, ("seed", ent_hex)
    # decision procedure: the three ways to be rejected
    w = _TREZOR[0][1].split(" ")
    assert decode_words(w[:-1] + ["abandon"]) == (None, "bad-checksum")
    assert decode_words(w[:-1] + ["About"]) == (None, "non-list-word")
    assert decode_words(w[:-1]) == (None, "bad-length")
    assert decode_words([]) == (None, "bad-length")
    assert to_words(bytes(15)) is None and to_words(b"") is None and to_words(bytes(36)) is None
    # exactly one of the 2^CS sequences sharing the same entropy bits is accepted
    for n in VALID_ENTROPY_BYTES:
        base = to_words(bytes(range(n)))
        cs = n * 8 // 32
        top = INDEX[base[-1]] >> cs
        ok = [c for c in range(1 << cs) if decode_words(base[:-1] + [WORDS[(top << cs) | c]])[0] is not None]
        assert len(ok) == 1 and WORDS[(top << cs) | ok[0]] == base[-1]
    # HMAC-SHA512: RFC 4231 test case 2, and test case 6 (key longer than the block)
    assert hmac_sha512_keyed(b"Jefe")(b"what do ya want for nothing?").hex() == (
        "164b7a7bfcf819e2e395fbe73b56e0a387bd64222e831fd610270cd7ea250554"
        "9758bf75c05a994a6d034f65f8f0e6fdcaeab1a34d4a6b4b636e070a38bce737"
    )
    assert hmac_sha512_keyed(b"\xaa" * 131)(b"Test Using Larger Than Block-Size Key - Hash Key First").hex() == (
        "80b24263c7c1a3ebb71493c1dd7be8b49b46d1f41b4aeec1121b013783f8f352"
        "6b56d037e05f2598bd0fd2215d6a1e5295e64f73f63f0aec8b915a985d786598"
    )
    # PBKDF2-HMAC-SHA512 public vectors ("password"/"salt"), one and two iterations, and a two-block output
    assert pbkdf2_hmac_sha512(b"password", b"salt", 1, 64).hex() == (
        "867f70cf1ade02cff3752599a3a53dc4af34c7a669815ae5d513554e1c8cf252"
        "c02d470a285a0501bad999bfe943c08f050235d7d68b1da55e63f73b60a57fce"
    )
    assert pbkdf2_hmac_sha512(b"password", b"salt", 2, 64).hex() == (
        "e1d9c16aa681708a45f5c7c4e215ceb66e011a2e9f0040713f18aefdb866d53c"
        "f76cab2868a39b9f7840edce4fef5a82be67335c77a6068e04112754f27ccf4e"
    )
    # the explicit loop agrees with the C implementation on a long key, an empty key and non-ASCII salt
    for pw, salt, it, n in [
        (b"k" * 200, b"mnemonic\xe3\x8d\x8d", 7, 64),
        (b"", b"mnemonic", 3, 64),
        (b"pw", b"s", 5, 100),
    ]:
        assert pbkdf2_hmac_sha512(pw, salt, it, n) == hashlib.pbkdf2_hmac("sha512", pw, salt, it, n)
