"""
BIP340 Schnorr signatures over secp256k1, written from the BIP340 text ("Default Signing", "Verification").
Never imports bits.  Arithmetic comes from vf/ref/ec.py (Jacobian ladder, pow(x,-1,p) inverses).

verify() is strict about lengths, as the specification is: the public key is a 32-byte array and the signature
a 64-byte array; anything else is not a valid input and is rejected.

verdict(pk, msg, sig) returns (ok, reason): reason names the first clause of the verification algorithm that
fails ("ok" when all hold) and is what property checks use as the structural class of an input.
"""
import csv
import hashlib
import os

from vf.ref import ec

P = ec.P
N = ec.N
G = ec.G

VECTORS_CSV = os.path.join(os.path.dirname(os.path.abspath(__file__)), "bip340_vectors.csv")
VECTORS_SHA256 = "34c9d1d9c3a88d524bc80778540dc43f8306ec249a7485293063c376db851c2d"

_TAG_CACHE = {}


def tagged_hash(tag: str, msg: bytes) -> bytes:
    """SHA256(SHA256(tag) || SHA256(tag) || msg)"""
    th = _TAG_CACHE.get(tag)
    if th is None:
        th = hashlib.sha256(tag.encode("utf-8")).digest()
        _TAG_CACHE[tag] = th
    h = hashlib.sha256()
    h.update(th)
    h.update(th)
    h.update(msg)
    return h.digest()


def b32(x: int) -> bytes:
    return x.to_bytes(32, "big")


def lift_x(x: int):
    """The point with x-coordinate x and even y, or None (x >= p, or x^3 + 7 is not a square)."""
    if not 0 <= x < P:
        return None
    c = (x * x * x + 7) % P
    y = pow(c, (P + 1) // 4, P)
    if y * y % P != c:
        return None
    return (x, y if y % 2 == 0 else P - y)


def has_even_y(pt) -> bool:
    return pt[1] % 2 == 0


def pubkey_point(d: int):
    """d*G for the secret key d in [1, n-1]."""
    if not 1 <= d <= N - 1:
        raise ValueError("secret key out of range")
    return ec.mul(d, G)


def pubkey(d: int) -> bytes:
    return b32(pubkey_point(d)[0])


def challenge(r: int, px: int, msg: bytes) -> int:
    return int.from_bytes(tagged_hash("BIP0340/challenge", b32(r) + b32(px) + msg), "big") % N


def nonce(d_norm: int, px: int, msg: bytes, aux: bytes) -> int:
    """k' of the default signing algorithm; d_norm is the secret key already normalised to an even-y point."""
    t = b32(d_norm ^ int.from_bytes(tagged_hash("BIP0340/aux", aux), "big"))
    return int.from_bytes(tagged_hash("BIP0340/nonce", t + b32(px) + msg), "big") % N


def sign_with_nonce(d0: int, msg: bytes, k0: int, normalise_d=True, normalise_k=True) -> bytes:
    """
    Schnorr signature with an explicitly chosen nonce scalar k0 (not the default nonce derivation).
    With both normalise flags set the result satisfies the verification equation for every k0 in [1, n-1];
    clearing a flag builds the well-known invalid relatives (R with odd y, key not negated for an odd-y point).
    """
    if not 1 <= d0 <= N - 1 or not 1 <= k0 <= N - 1:
        raise ValueError("scalar out of range")
    Pp = ec.mul(d0, G)
    d = d0 if (has_even_y(Pp) or not normalise_d) else N - d0
    R = ec.mul(k0, G)
    k = k0 if (has_even_y(R) or not normalise_k) else N - k0
    e = challenge(R[0], Pp[0], msg)
    return b32(R[0]) + b32((k + e * d) % N)


def sign(d0: int, msg: bytes, aux: bytes) -> bytes:
    """BIP340 default signing.  d0: secret key integer; msg: any length; aux: exactly 32 bytes."""
    if not 1 <= d0 <= N - 1:
        raise ValueError("secret key must be in [1, n-1]")
    if len(aux) != 32:
        raise ValueError("aux_rand must be 32 bytes")
    Pp = ec.mul(d0, G)
    d = d0 if has_even_y(Pp) else N - d0
    k0 = nonce(d, Pp[0], msg, aux)
    if k0 == 0:
        raise RuntimeError("nonce is zero (negligible probability)")
    R = ec.mul(k0, G)
    k = k0 if has_even_y(R) else N - k0
    e = challenge(R[0], Pp[0], msg)
    sig = b32(R[0]) + b32((k + e * d) % N)
    if not verify(b32(Pp[0]), msg, sig):
        raise RuntimeError("reference signature does not verify")
    return sig


def sign_info(d0: int, msg: bytes, aux: bytes):
    """(signature, P has odd y, R has odd y) for class labels."""
    Pp = ec.mul(d0, G)
    d = d0 if has_even_y(Pp) else N - d0
    R = ec.mul(nonce(d, Pp[0], msg, aux), G)
    return sign(d0, msg, aux), not has_even_y(Pp), not has_even_y(R)


def verdict(pk: bytes, msg: bytes, sig: bytes):
    """(accepted, reason).  reason is the first failing clause of BIP340 verification, or 'ok'."""
    if len(pk) != 32:
        return False, "pk-length"
    if len(sig) != 64:
        return False, "sig-length"
    x = int.from_bytes(pk, "big")
    if x >= P:
        return False, "pk-ge-p"
    Pp = lift_x(x)
    if Pp is None:
        return False, "pk-not-on-curve"
    r = int.from_bytes(sig[0:32], "big")
    s = int.from_bytes(sig[32:64], "big")
    if r >= P:
        return False, "r-ge-p"
    if s >= N:
        return False, "s-ge-n"
    e = challenge(r, x, msg)
    R = ec.add(ec.mul(s, G), ec.mul(N - e, Pp))
    if R is None:
        return False, "R-infinite"
    if not has_even_y(R):
        return False, "R-odd-y"
    if R[0] != r:
        return False, "Rx-ne-r"
    return True, "ok"


def verify(pk: bytes, msg: bytes, sig: bytes) -> bool:
    return verdict(pk, msg, sig)[0]


# ---------------------------------------------------------------- official vectors


def vectors():
    """The official BIP340 test vectors (literal copy of bips/bip-0340/test-vectors.csv kept inside /verif)."""
    raw = open(VECTORS_CSV, "rb").read()
    if hashlib.sha256(raw).hexdigest() != VECTORS_SHA256:
        raise RuntimeError("bip340_vectors.csv was modified")
    out = []
    for row in csv.DictReader(raw.decode("ascii").splitlines()):
        out.append(
            {
                "index": int(row["index"]),
                "sk": row["secret key"].lower(),
                "pk": row["public key"].lower(),
                "aux": row["aux_rand"].lower(),
                "msg": row["message"].lower(),
                "sig": row["signature"].lower(),
                "result": row["verification result"] == "TRUE",
                "comment": row["comment"],
            }
        )
    return out


def selfcheck():
    vs = vectors()
    assert len(vs) == 19 and [v["index"] for v in vs] == list(range(19)), "expected the 19 official vectors"
    assert sum(v["result"] for v in vs) == 9 and sum(1 for v in vs if v["sk"]) == 8
    for v in vs:
        pk, msg, sig = bytes.fromhex(v["pk"]), bytes.fromhex(v["msg"]), bytes.fromhex(v["sig"])
        assert verify(pk, msg, sig) == v["result"], f"vector {v['index']}: verification"
        if v["sk"]:
            d = int(v["sk"], 16)
            assert pubkey(d) == pk, f"vector {v['index']}: pubkey"
            assert sign(d, msg, bytes.fromhex(v["aux"])) == sig, f"vector {v['index']}: signature"
    # reasons on the crafted negative vectors
    # (vectors 7, 8, 11 compute an unrelated R: either the parity or the x clause fails first)
    want = {5: "pk-not-on-curve", 6: "R-odd-y", 9: "R-infinite", 10: "R-infinite", 12: "r-ge-p", 13: "s-ge-n",
            14: "pk-ge-p"}
    for i, reason in want.items():
        v = vs[i]
        got = verdict(bytes.fromhex(v["pk"]), bytes.fromhex(v["msg"]), bytes.fromhex(v["sig"]))
        assert got == (False, reason), f"vector {i}: {got}"
    # length strictness and the constructed relatives
    v = vs[1]
    pk, msg, sig = bytes.fromhex(v["pk"]), bytes.fromhex(v["msg"]), bytes.fromhex(v["sig"])
    assert verdict(b"\x00" + pk, msg, sig) == (False, "pk-length")
    assert verdict(pk[:-1], msg, sig) == (False, "pk-length")
    assert verdict(pk, msg, sig[:32] + b"\x00" + sig[32:]) == (False, "sig-length")
    assert verdict(pk, msg, sig[:-1]) == (False, "sig-length") and verdict(pk, msg, b"") == (False, "sig-length")
    v4 = vs[4]  # r has leading zero bytes: dropping one must not verify
    assert not verify(bytes.fromhex(v4["pk"]), bytes.fromhex(v4["msg"]), bytes.fromhex(v4["sig"])[1:])
    d = int(vs[1]["sk"], 16)
    for k0 in (1, 2, 3, 0x1234567, N - 1):
        assert verify(pk, b"abc", sign_with_nonce(d, b"abc", k0))
    odd_k = next(k for k in range(1, 50) if not has_even_y(ec.mul(k, G)))
    assert verdict(pk, b"abc", sign_with_nonce(d, b"abc", odd_k, normalise_k=False)) == (False, "R-odd-y")
    odd_d = next(k for k in range(2, 50) if not has_even_y(ec.mul(k, G)))
    assert verdict(pubkey(odd_d), b"", sign_with_nonce(odd_d, b"", 5, normalise_d=False))[0] is False
    assert verify(pubkey(odd_d), b"", sign_with_nonce(odd_d, b"", 5))
    assert lift_x(P) is None and lift_x(0) is None and lift_x(ec.GX) == G
    for bad in (0, N, N + 1, 2**256 - 1):
        try:
            sign(bad, b"", bytes(32))
        except ValueError:
            continue
        raise AssertionError("reference signer accepted an out-of-range key")
