"""
Reference model of the block file store (C19).  Written from the property statement; never imports bits.

record(block)  = magic || len(block) as 4-byte little-endian || block
stream R       = concatenation of the records of all blocks ever written, in writing order
greedy split   = a record goes to the current file if size(current) + len(record) <= L, else to a new file numbered
                 one higher (blkNNNNN.dat, 5 digits), which becomes the current file.  With no file at all the current
                 file is blk00000.dat; after a restart the current file is the highest-numbered existing one.
"""
import re
import struct

NAME_RE = re.compile(r"^blk(\d{5})\.dat$")
OVERHEAD = 8


def record(magic, block):
    return bytes(magic) + struct.pack("<I", len(block)) + bytes(block)


def filename(n):
    return "blk%05d.dat" % n


def fileno_of(name):
    m = NAME_RE.match(name)
    return int(m.group(1)) if m else None


def parse_stream(stream, magic):
    """list of blocks if stream is a concatenation of whole records with this magic, else None"""
    out = []
    i = 0
    n = len(stream)
    while i < n:
        if stream[i : i + 4] != magic or i + 8 > n:
            return None
        (ln,) = struct.unpack("<I", stream[i + 4 : i + 8])
        if i + 8 + ln > n:
            return None
        out.append(bytes(stream[i + 8 : i + 8 + ln]))
        i += 8 + ln
    return out


class Model:
    """files: {number: bytes}.  blocks: every block whose record is in the files, in stream order."""

    def __init__(self, limit, magic, base=0):
        self.L = limit
        self.magic = bytes(magic)
        self.base = base
        self.files = {}
        self.blocks = []

    def copy(self):
        m = Model(self.L, self.magic, self.base)
        m.files = dict(self.files)
        m.blocks = list(self.blocks)
        return m

    @property
    def current(self):
        return max(self.files) if self.files else None

    def space_left(self):
        """bytes left in the file the next record would be tried on first"""
        if not self.files:
            return self.L
        return self.L - len(self.files[self.current])

    def stream(self):
        return b"".join(self.files[k] for k in sorted(self.files))

    def open_batch(self):
        """a batch always has a current file, even if it writes nothing: the first file of an empty store"""
        if not self.files:
            self.files[self.base] = b""

    def add(self, block):
        """append one block; returns (space_left_before, rolled_over)"""
        self.open_batch()
        rec = record(self.magic, block)
        cur = self.current
        left = self.L - len(self.files[cur])
        rolled = False
        if len(rec) <= left:
            self.files[cur] = self.files[cur] + rec
        else:
            self.files[cur + 1] = rec
            rolled = True
        self.blocks.append(bytes(block))
        return left, rolled

    def write_batch(self, blocks):
        self.open_batch()
        return [self.add(b) for b in blocks]


def selfcheck():
    magic = bytes.fromhex("f9beb4d9")
    # literal record: 3-byte block
    assert record(magic, b"abc") == bytes.fromhex("f9beb4d9" "03000000" "616263")
    assert record(magic, b"") == bytes.fromhex("f9beb4d9" "00000000")
    assert record(magic, b"\x00" * 258)[:8] == bytes.fromhex("f9beb4d9" "02010000")
    assert filename(0) == "blk00000.dat" and filename(12) == "blk00012.dat" and filename(99999) == "blk99999.dat"
    assert fileno_of("blk00012.dat") == 12 and fileno_of("blk12.dat") is None and fileno_of("blk000012.dat") is None
    # L = 32: two 8-byte blocks (16-byte records) fill file 0 exactly; a 9-byte block then starts file 1
    m = Model(32, magic)
    r = m.write_batch([b"A" * 8, b"B" * 8, b"C" * 9])
    assert r == [(32, False), (16, False), (0, True)], r
    f0 = bytes.fromhex("f9beb4d9" "08000000") + b"A" * 8 + bytes.fromhex("f9beb4d9" "08000000") + b"B" * 8
    f1 = bytes.fromhex("f9beb4d9" "09000000") + b"C" * 9
    assert m.files == {0: f0, 1: f1}, m.files
    assert len(f0) == 32
    # one byte too many for the space left (15 left, record 16) -> rollover; 1 byte to spare (record 14) -> stays
    m = Model(32, magic)
    m.write_batch([b"x" * 9])  # 17 bytes used, 15 left
    assert m.space_left() == 15
    m2 = m.copy()
    assert m2.add(b"y" * 8) == (15, True) and sorted(m2.files) == [0, 1]
    m3 = m.copy()
    assert m3.add(b"y" * 7) == (15, False) and sorted(m3.files) == [0] and len(m3.files[0]) == 32
    m4 = m.copy()
    assert m4.add(b"y" * 6) == (15, False) and len(m4.files[0]) == 31
    # the current file after a "restart" is the highest-numbered one; an empty batch on an empty store creates file 0
    m = Model(32, magic, base=0)
    m.write_batch([])
    assert m.files == {0: b""}
    m = Model(32, magic)
    m.files = {9: b"z" * 32, 10: b"z" * 30}
    assert m.add(b"") == (2, True) and sorted(m.files) == [9, 10, 11]
    # parser
    assert parse_stream(f0 + f1, magic) == [b"A" * 8, b"B" * 8, b"C" * 9]
    assert parse_stream(f0[:-1], magic) is None
    assert parse_stream(f0[4:], magic) is None
    assert parse_stream(b"", magic) == []
