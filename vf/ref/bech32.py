"""
Independent Bech32 / Bech32m and segwit address codec, ported from the BIP173 / BIP350 reference
implementation (sipa/bech32 ref/python/segwit_addr.py).  Never imports bits.

String API (as in the reference):   bech32_encode / bech32_decode / convertbits / encode / decode
Bytes API used by the checks:       encode_addr / decode_any / diagnose / raw_encode
"""

CHARSET = "qpzry9x8gf2tvdw0s3jn54khce6mua7l"
CHARSET_REV = {c: i for i, c in enumerate(CHARSET)}
BECH32 = 1
BECH32M = 0x2BC830A3
SPECS = (BECH32, BECH32M)
HRPS = ("bc", "tb", "bcrt")
NETWORK_HRP = {"mainnet": "bc", "testnet": "tb", "regtest": "bcrt"}
MAX_LEN = 90


# ------------------------------------------------------------------ BIP173 / BIP350 reference


def polymod(values):
    """Internal function that computes the Bech32 checksum."""
    generator = [0x3B6A57B2, 0x26508E6D, 0x1EA119FA, 0x3D4233DD, 0x2A1462B3]
    chk = 1
    for value in values:
        top = chk >> 25
        chk = (chk & 0x1FFFFFF) << 5 ^ value
        for i in range(5):
            chk ^= generator[i] if ((top >> i) & 1) else 0
    return chk


def hrp_expand(hrp):
    """Expand the HRP into values for checksum computation."""
    return [ord(x) >> 5 for x in hrp] + [0] + [ord(x) & 31 for x in hrp]


def verify_checksum(hrp, data):
    """Returns the encoding constant the checksum verifies under, or None."""
    const = polymod(hrp_expand(hrp) + list(data))
    if const == BECH32:
        return BECH32
    if const == BECH32M:
        return BECH32M
    return None


def create_checksum(hrp, data, spec):
    """Compute the checksum values given HRP and data (spec: the final xor constant)."""
    values = hrp_expand(hrp) + list(data)
    pm = polymod(values + [0, 0, 0, 0, 0, 0]) ^ spec
    return [(pm >> 5 * (5 - i)) & 31 for i in range(6)]


def bech32_encode(hrp, data, spec):
    """Compute a Bech32(m) string given HRP and 5-bit data values."""
    combined = list(data) + create_checksum(hrp, data, spec)
    return hrp + "1" + "".join(CHARSET[d] for d in combined)


def bech32_decode(bech):
    """Validate a Bech32/Bech32m string, and determine HRP, data and spec. (None, None, None) if invalid."""
    if any(ord(x) < 33 or ord(x) > 126 for x in bech) or (bech.lower() != bech and bech.upper() != bech):
        return (None, None, None)
    bech = bech.lower()
    pos = bech.rfind("1")
    if pos < 1 or pos + 7 > len(bech) or len(bech) > MAX_LEN:
        return (None, None, None)
    if not all(x in CHARSET_REV for x in bech[pos + 1 :]):
        return (None, None, None)
    hrp = bech[:pos]
    data = [CHARSET_REV[x] for x in bech[pos + 1 :]]
    spec = verify_checksum(hrp, data)
    if spec is None:
        return (None, None, None)
    return (hrp, data[:-6], spec)


def convertbits(data, frombits, tobits, pad=True):
    """General power-of-2 base conversion. None on failure."""
    acc = 0
    bits = 0
    ret = []
    maxv = (1 << tobits) - 1
    max_acc = (1 << (frombits + tobits - 1)) - 1
    for value in data:
        if value < 0 or (value >> frombits):
            return None
        acc = ((acc << frombits) | value) & max_acc
        bits += frombits
        while bits >= tobits:
            bits -= tobits
            ret.append((acc >> bits) & maxv)
    if pad:
        if bits:
            ret.append((acc << (tobits - bits)) & maxv)
    elif bits >= frombits or ((acc << (tobits - bits)) & maxv):
        return None
    return ret


def decode(hrp, addr, bip350=True):
    """Decode a segwit address: (witver, witprog list) or (None, None).
    bip350=False gives the original BIP173 rule (Bech32 constant for every version)."""
    hrpgot, data, spec = bech32_decode(addr)
    if hrpgot != hrp:
        return (None, None)
    decoded = convertbits(data[1:], 5, 8, False)
    if decoded is None or len(decoded) < 2 or len(decoded) > 40:
        return (None, None)
    if data[0] > 16:
        return (None, None)
    if data[0] == 0 and len(decoded) != 20 and len(decoded) != 32:
        return (None, None)
    if bip350:
        if (data[0] == 0 and spec != BECH32) or (data[0] != 0 and spec != BECH32M):
            return (None, None)
    elif spec != BECH32:
        return (None, None)
    return (data[0], decoded)


def encode(hrp, witver, witprog, bip350=True):
    """Encode a segwit address; None if the result does not decode (invalid version/program)."""
    spec = BECH32 if (witver == 0 or not bip350) else BECH32M
    ret = bech32_encode(hrp, [witver] + convertbits(witprog, 8, 5), spec)
    if decode(hrp, ret, bip350) == (None, None):
        return None
    return ret


# ------------------------------------------------------------------ bytes-level API for the checks


def allowed_program(witver, proglen):
    if not 0 <= witver <= 16:
        return False
    if witver == 0:
        return proglen in (20, 32)
    return 2 <= proglen <= 40


def encode_addr(hrp: str, witver: int, prog: bytes) -> bytes:
    """Address bytes for an allowed (version, program); raises if not allowed."""
    s = encode(hrp, witver, list(prog))
    if s is None:
        raise ValueError("not an allowed witness program")
    return s.encode("ascii")


def raw_encode(hrp: str, data5, spec: int) -> bytes:
    """Low-level: any 5-bit data values (version symbol first), any xor constant."""
    return bech32_encode(hrp, list(data5), spec).encode("latin-1")


def to5(prog: bytes):
    return convertbits(list(prog), 8, 5, True)


def decode_any(s: bytes, hrps=HRPS):
    """(hrp bytes, witver, program bytes) if s is a valid segwit address under one of hrps, else None."""
    text = s.decode("latin-1")  # bytes > 126 stay > 126 and are rejected by the range rule
    for hrp in hrps:
        witver, prog = decode(hrp, text)
        if witver is not None:
            return (hrp.encode("ascii"), witver, bytes(prog))
    return None


def diagnose(s: bytes, hrps=HRPS) -> str:
    """Name of the first BIP173/BIP350 rule that s breaks, or 'valid'.  Written as a separate step-by-step
    procedure; selfcheck and the checks require it to agree with decode_any on validity."""
    if any(c < 33 or c > 126 for c in s):
        return "char-out-of-range"
    has_lower = any(0x61 <= c <= 0x7A for c in s)
    has_upper = any(0x41 <= c <= 0x5A for c in s)
    if has_lower and has_upper:
        return "mixed-case"
    if len(s) > MAX_LEN:
        return "too-long"
    t = bytes(c + 32 if 0x41 <= c <= 0x5A else c for c in s).decode("ascii")
    pos = t.rfind("1")
    if pos < 0:
        return "no-separator"
    if pos == 0:
        return "empty-hrp"
    dp = t[pos + 1 :]
    if len(dp) < 6:
        return "data-part-shorter-than-checksum"
    for i, ch in enumerate(dp):
        if ch not in CHARSET_REV:
            return "non-charset-version-char" if i == 0 else "non-charset-data-char"
    vals = [CHARSET_REV[ch] for ch in dp]
    hrp = t[:pos]
    const = polymod(hrp_expand(hrp) + vals)
    if const not in SPECS:
        return "bad-checksum"
    if hrp not in hrps:
        return "unknown-hrp"
    body = vals[:-6]
    if not body:
        return "empty-data"
    prog5 = body[1:]
    nbits = 5 * len(prog5)
    pad = nbits % 8
    if pad >= 5:
        return "padding-5-or-more-bits"
    if pad and (prog5[-1] & ((1 << pad) - 1)):
        return "nonzero-padding"
    proglen = nbits // 8
    if proglen == 0:
        return "empty-program"
    if proglen < 2:
        return "program-too-short"
    if proglen > 40:
        return "program-too-long"
    if body[0] > 16:
        return "version-above-16"
    if body[0] == 0 and proglen not in (20, 32):
        return "v0-bad-program-length"
    if (body[0] == 0) != (const == BECH32):
        return "wrong-checksum-constant"
    return "valid"


# ------------------------------------------------------------------ embedded public vectors

VALID_BECH32 = [
    "A12UEL5L",
    "a12uel5l",
    "an83characterlonghumanreadablepartthatcontainsthenumber1andtheexcludedcharactersbio1tt5tgs",
    "abcdef1qpzry9x8gf2tvdw0s3jn54khce6mua7lmqqqxw",
    "11qqqqqqqqqqqqqqqqqqqqqqqqqqqqqqqqqqqqqqqqqqqqqqqqqqqqqqqqqqqqqqqqqqqqqqqqqqqqqqqqqqc8247j",
    "split1checkupstagehandshakeupstreamerranterredcaperred2y9e3w",
    "?1ezyfcl",
]
VALID_BECH32M = [
    "A1LQFN3A",
    "a1lqfn3a",
    "an83characterlonghumanreadablepartthatcontainsthetheexcludedcharactersbioandnumber11sg7hg6",
    "abcdef1l7aum6echk45nj3s0wdvt2fg8x9yrzpqzd3ryx",
    "11llllllllllllllllllllllllllllllllllllllllllllllllllllllllllllllllllllllllllllllllllludsr8",
    "split1checkupstagehandshakeupstreamerranterredcaperredlc445v",
    "?1v759aa",
]
INVALID_BECH32 = [
    " 1nwldj5",
    "\x7f1axkwrx",
    "\x801eym55h",
    "an84characterslonghumanreadablepartthatcontainsthenumber1andtheexcludedcharactersbio1569pvx",
    "pzry9x0s0muk",
    "1pzry9x0s0muk",
    "x1b4n0q5v",
    "li1dgmt3",
    "de1lg7wt\xff",
    "A1G7SGD8",
    "10a06t8",
    "1qzzfhee",
]
INVALID_BECH32M = [
    " 1xj0phk",
    "\x7f1g6xzxy",
    "\x801vctc34",
    "an84characterslonghumanreadablepartthatcontainsthetheexcludedcharactersbioandnumber11d6pts4",
    "qyrz8wqd2c9m",
    "1qyrz8wqd2c9m",
    "y1b0jsk6g",
    "lt1igcx5c0",
    "in1muywd",
    "mm1crxm3i",
    "au1s5cgom",
    "M1VUXWEZ",
    "16plkw9",
    "1p2gdwpf",
]
# (address, scriptPubKey hex)
BIP173_VALID_ADDRESS = [
    ("BC1QW508D6QEJXTDG4Y5R3ZARVARY0C5XW7KV8F3T4", "0014751e76e8199196d454941c45d1b3a323f1433bd6"),
    (
        "tb1qrp33g0q5c5txsp9arysrx4k6zdkfs4nce4xj0gdcccefvpysxf3q0sl5k7",
        "00201863143c14c5166804bd19203356da136c985678cd4d27a1b8c6329604903262",
    ),
    (
        "bc1pw508d6qejxtdg4y5r3zarvary0c5xw7kw508d6qejxtdg4y5r3zarvary0c5xw7k7grplx",
        "5128751e76e8199196d454941c45d1b3a323f1433bd6751e76e8199196d454941c45d1b3a323f1433bd6",
    ),
    ("BC1SW50QA3JX3S", "6002751e"),
    ("bc1zw508d6qejxtdg4y5r3zarvaryvg6kdaj", "5210751e76e8199196d454941c45d1b3a323"),
    (
        "tb1qqqqqp399et2xygdj5xreqhjjvcmzhxw4aywxecjdzew6hylgvsesrxh6hy",
        "0020000000c4a5cad46221b2a187905e5266362b99d5e91c6ce24d165dab93e86433",
    ),
]
BIP173_INVALID_ADDRESS = [
    "tc1qw508d6qejxtdg4y5r3zarvary0c5xw7kg3g4ty",
    "bc1qw508d6qejxtdg4y5r3zarvary0c5xw7kv8f3t5",
    "BC13W508D6QEJXTDG4Y5R3ZARVARY0C5XW7KN40WF2",
    "bc1rw5uspcuh",
    "bc10w508d6qejxtdg4y5r3zarvary0c5xw7kw508d6qejxtdg4y5r3zarvary0c5xw7kw5rljs90",
    "BC1QR508D6QEJXTDG4Y5R3ZARVARYV98GJ9P",
    "tb1qrp33g0q5c5txsp9arysrx4k6zdkfs4nce4xj0gdcccefvpysxf3q0sL5k7",
    "bc1zw508d6qejxtdg4y5r3zarvaryvqyzf3du",
    "tb1qrp33g0q5c5txsp9arysrx4k6zdkfs4nce4xj0gdcccefvpysxf3pjxtptv",
    "bc1gmk9yu",
]
BIP350_VALID_ADDRESS = [
    ("BC1QW508D6QEJXTDG4Y5R3ZARVARY0C5XW7KV8F3T4", "0014751e76e8199196d454941c45d1b3a323f1433bd6"),
    (
        "tb1qrp33g0q5c5txsp9arysrx4k6zdkfs4nce4xj0gdcccefvpysxf3q0sl5k7",
        "00201863143c14c5166804bd19203356da136c985678cd4d27a1b8c6329604903262",
    ),
    (
        "bc1pw508d6qejxtdg4y5r3zarvary0c5xw7kw508d6qejxtdg4y5r3zarvary0c5xw7kt5nd6y",
        "5128751e76e8199196d454941c45d1b3a323f1433bd6751e76e8199196d454941c45d1b3a323f1433bd6",
    ),
    ("BC1SW50QGDZ25J", "6002751e"),
    ("bc1zw508d6qejxtdg4y5r3zarvaryvaxxpcs", "5210751e76e8199196d454941c45d1b3a323"),
    (
        "tb1qqqqqp399et2xygdj5xreqhjjvcmzhxw4aywxecjdzew6hylgvsesrxh6hy",
        "0020000000c4a5cad46221b2a187905e5266362b99d5e91c6ce24d165dab93e86433",
    ),
    (
        "tb1pqqqqp399et2xygdj5xreqhjjvcmzhxw4aywxecjdzew6hylgvsesf3hn0c",
        "5120000000c4a5cad46221b2a187905e5266362b99d5e91c6ce24d165dab93e86433",
    ),
    (
        "bc1p0xlxvlhemja6c4dqv22uapctqupfhlxm9h8z3k2e72q4k9hcz7vqzk5jj0",
        "512079be667ef9dcbbac55a06295ce870b07029bfcdb2dce28d959f2815b16f81798",
    ),
]
# (address, name of the rule diagnose() must report)
BIP350_INVALID_ADDRESS = [
    ("tc1qw508d6qejxtdg4y5r3zarvary0c5xw7kg3g4ty", "unknown-hrp"),
    ("tc1p0xlxvlhemja6c4dqv22uapctqupfhlxm9h8z3k2e72q4k9hcz7vq5zuyut", "unknown-hrp"),
    ("bc1p0xlxvlhemja6c4dqv22uapctqupfhlxm9h8z3k2e72q4k9hcz7vqh2y7hd", "wrong-checksum-constant"),
    ("tb1z0xlxvlhemja6c4dqv22uapctqupfhlxm9h8z3k2e72q4k9hcz7vqglt7rf", "wrong-checksum-constant"),
    ("BC1S0XLXVLHEMJA6C4DQV22UAPCTQUPFHLXM9H8Z3K2E72Q4K9HCZ7VQ54WELL", "wrong-checksum-constant"),
    ("bc1qw508d6qejxtdg4y5r3zarvary0c5xw7kemeawh", "wrong-checksum-constant"),
    ("tb1q0xlxvlhemja6c4dqv22uapctqupfhlxm9h8z3k2e72q4k9hcz7vq24jc47", "wrong-checksum-constant"),
    ("bc1p38j9r5y49hruaue7wxjce0updqjuyyx0kh56v8s25huc6995vvpql3jow4", "non-charset-data-char"),
    ("BC130XLXVLHEMJA6C4DQV22UAPCTQUPFHLXM9H8Z3K2E72Q4K9HCZ7VQ7ZWS8R", "version-above-16"),
    ("bc1pw5dgrnzv", "program-too-short"),
    ("bc1p0xlxvlhemja6c4dqv22uapctqupfhlxm9h8z3k2e72q4k9hcz7v8n0nx0muaewav253zgeav", "program-too-long"),
    ("BC1QR508D6QEJXTDG4Y5R3ZARVARYV98GJ9P", "v0-bad-program-length"),
    ("tb1p0xlxvlhemja6c4dqv22uapctqupfhlxm9h8z3k2e72q4k9hcz7vq47Zagq", "mixed-case"),
    ("bc1p0xlxvlhemja6c4dqv22uapctqupfhlxm9h8z3k2e72q4k9hcz7v07qwwzcrf", "padding-5-or-more-bits"),
    ("tb1p0xlxvlhemja6c4dqv22uapctqupfhlxm9h8z3k2e72q4k9hcz7vpggkg4j", "nonzero-padding"),
    ("bc1gmk9yu", "empty-data"),
]


def _spk(witver, prog):
    return bytes([witver + 0x50 if witver else 0, len(prog)] + list(prog)).hex()


def selfcheck():
    for spec, valid, invalid in ((BECH32, VALID_BECH32, INVALID_BECH32), (BECH32M, VALID_BECH32M, INVALID_BECH32M)):
        other = BECH32M if spec == BECH32 else BECH32
        for t in valid:
            hrp, data, got = bech32_decode(t)
            assert hrp is not None and got == spec, ("valid string rejected", t)
            assert bech32_encode(hrp, data, spec) == t.lower(), ("re-encode", t)
            assert bech32_encode(hrp, data, other) != t.lower()
            pos = t.rfind("1")
            flipped = t[: pos + 1] + chr(ord(t[pos + 1]) ^ 1) + t[pos + 2 :]
            assert bech32_decode(flipped) == (None, None, None), ("corrupted accepted", t)
        for t in invalid:
            assert bech32_decode(t) == (None, None, None), ("invalid string accepted", t)
    # BIP173 list under the BIP173 rule, BIP350 list under the BIP350 rule
    for vectors, bip350 in ((BIP173_VALID_ADDRESS, False), (BIP350_VALID_ADDRESS, True)):
        for addr, spk in vectors:
            hrp = "bc"
            witver, prog = decode(hrp, addr, bip350)
            if witver is None:
                hrp = "tb"
                witver, prog = decode(hrp, addr, bip350)
            assert witver is not None, ("valid address rejected", addr)
            assert _spk(witver, prog) == spk, ("scriptPubKey", addr)
            assert encode(hrp, witver, prog, bip350) == addr.lower(), ("re-encode", addr)
            if bip350:
                got = decode_any(addr.encode())
                assert got == (hrp.encode(), witver, bytes(prog)), addr
                assert diagnose(addr.encode()) == "valid", addr
                assert encode_addr(hrp, witver, bytes(prog)) == addr.lower().encode()
    for addr in BIP173_INVALID_ADDRESS:
        for hrp in ("bc", "tb"):
            assert decode(hrp, addr, False) == (None, None), ("invalid accepted (BIP173)", addr)
    for addr, why in BIP350_INVALID_ADDRESS:
        for hrp in ("bc", "tb"):
            assert decode(hrp, addr, True) == (None, None), ("invalid accepted (BIP350)", addr)
        assert decode_any(addr.encode("latin-1")) is None, addr
        assert diagnose(addr.encode("latin-1")) == why, (addr, diagnose(addr.encode("latin-1")), why)
    # BIP173-valid v1+ addresses (Bech32 constant) are invalid under BIP350
    for addr, _ in BIP173_VALID_ADDRESS:
        low = addr.lower()
        if low[low.rfind("1") + 1] != "q":
            assert decode_any(addr.encode()) is None and diagnose(addr.encode()) == "wrong-checksum-constant", addr
    # diagnose agrees with the decoder on every embedded string
    every = VALID_BECH32 + VALID_BECH32M + INVALID_BECH32 + INVALID_BECH32M + BIP173_INVALID_ADDRESS
    every += [a for a, _ in BIP173_VALID_ADDRESS + BIP350_VALID_ADDRESS + BIP350_INVALID_ADDRESS]
    for t in every:
        b = t.encode("latin-1")
        assert (diagnose(b) == "valid") == (decode_any(b) is not None), t
    # regtest and structural facts used by the generators
    a = encode_addr("bcrt", 1, bytes(32))
    assert decode_any(a) == (b"bcrt", 1, bytes(32)) and decode_any(a.upper()) == (b"bcrt", 1, bytes(32))
    assert convertbits([0xFF], 8, 5) == [31, 28] and convertbits([31, 28], 5, 8, False) == [0xFF]
    assert convertbits([31, 29], 5, 8, False) is None and convertbits([31, 28, 0], 5, 8, False) is None
    assert diagnose(raw_encode("bc", [1], BECH32M)) == "empty-program"
    assert diagnose(raw_encode("bc", [17] + to5(bytes(20)), BECH32M)) == "version-above-16"
    assert len(encode_addr("bcrt", 16, bytes(40))) <= MAX_LEN
