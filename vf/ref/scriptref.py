"""
Independent Script tokenizer / minimal-push assembler / mini interpreter (the opcodes standard templates use),
after script.h / interpreter.cpp.  The opcode table is hard-coded here so a changed library constant is noticed.
Never imports bits.
"""
import hashlib

OPCODES = {
    "OP_0": 0x00, "OP_FALSE": 0x00, "OP_PUSHDATA1": 0x4C, "OP_PUSHDATA2": 0x4D, "OP_PUSHDATA4": 0x4E,
    "OP_1NEGATE": 0x4F, "OP_RESERVED": 0x50, "OP_1": 0x51, "OP_TRUE": 0x51,
    **{f"OP_{i}": 0x50 + i for i in range(2, 17)},
    "OP_NOP": 0x61, "OP_VER": 0x62, "OP_IF": 0x63, "OP_NOTIF": 0x64, "OP_VERIF": 0x65, "OP_VERNOTIF": 0x66,
    "OP_ELSE": 0x67, "OP_ENDIF": 0x68, "OP_VERIFY": 0x69, "OP_RETURN": 0x6A,
    "OP_TOALTSTACK": 0x6B, "OP_FROMALTSTACK": 0x6C, "OP_2DROP": 0x6D, "OP_2DUP": 0x6E, "OP_3DUP": 0x6F,
    "OP_2OVER": 0x70, "OP_2ROT": 0x71, "OP_2SWAP": 0x72, "OP_IFDUP": 0x73, "OP_DEPTH": 0x74, "OP_DROP": 0x75,
    "OP_DUP": 0x76, "OP_NIP": 0x77, "OP_OVER": 0x78, "OP_PICK": 0x79, "OP_ROLL": 0x7A, "OP_ROT": 0x7B,
    "OP_SWAP": 0x7C, "OP_TUCK": 0x7D, "OP_CAT": 0x7E, "OP_SUBSTR": 0x7F, "OP_LEFT": 0x80, "OP_RIGHT": 0x81,
    "OP_SIZE": 0x82, "OP_INVERT": 0x83, "OP_AND": 0x84, "OP_OR": 0x85, "OP_XOR": 0x86, "OP_EQUAL": 0x87,
    "OP_EQUALVERIFY": 0x88, "OP_RESERVED1": 0x89, "OP_RESERVED2": 0x8A, "OP_1ADD": 0x8B, "OP_1SUB": 0x8C,
    "OP_2MUL": 0x8D, "OP_2DIV": 0x8E, "OP_NEGATE": 0x8F, "OP_ABS": 0x90, "OP_NOT": 0x91, "OP_0NOTEQUAL": 0x92,
    "OP_ADD": 0x93, "OP_SUB": 0x94, "OP_MUL": 0x95, "OP_DIV": 0x96, "OP_MOD": 0x97, "OP_LSHIFT": 0x98,
    "OP_RSHIFT": 0x99, "OP_BOOLAND": 0x9A, "OP_BOOLOR": 0x9B, "OP_NUMEQUAL": 0x9C, "OP_NUMEQUALVERIFY": 0x9D,
    "OP_NUMNOTEQUAL": 0x9E, "OP_LESSTHAN": 0x9F, "OP_GREATERTHAN": 0xA0, "OP_LESSTHANOREQUAL": 0xA1,
    "OP_GREATERTHANOREQUAL": 0xA2, "OP_MIN": 0xA3, "OP_MAX": 0xA4, "OP_WITHIN": 0xA5, "OP_RIPEMD160": 0xA6,
    "OP_SHA1": 0xA7, "OP_SHA256": 0xA8, "OP_HASH160": 0xA9, "OP_HASH256": 0xAA, "OP_CODESEPARATOR": 0xAB,
    "OP_CHECKSIG": 0xAC, "OP_CHECKSIGVERIFY": 0xAD, "OP_CHECKMULTISIG": 0xAE, "OP_CHECKMULTISIGVERIFY": 0xAF,
    "OP_NOP1": 0xB0, "OP_CHECKLOCKTIMEVERIFY": 0xB1, "OP_NOP2": 0xB1, "OP_CHECKSEQUENCEVERIFY": 0xB2,
    "OP_NOP3": 0xB2, "OP_NOP4": 0xB3, "OP_NOP5": 0xB4, "OP_NOP6": 0xB5, "OP_NOP7": 0xB6, "OP_NOP8": 0xB7,
    "OP_NOP9": 0xB8, "OP_NOP10": 0xB9, "OP_CHECKSIGADD": 0xBA, "OP_INVALIDOPCODE": 0xFF,
}
PUSH_OPS = {0x4C, 0x4D, 0x4E}
DEFINED_NONPUSH_BYTES = sorted(set(OPCODES.values()) - PUSH_OPS)


def push(data: bytes) -> bytes:
    """Shortest push operation for non-empty data (length rule only, as the property states it)."""
    n = len(data)
    if n == 0:
        raise ValueError("empty data item")
    if n <= 75:
        return bytes([n]) + data
    if n <= 0xFF:
        return b"\x4c" + bytes([n]) + data
    if n <= 0xFFFF:
        return b"\x4d" + n.to_bytes(2, "little") + data
    return b"\x4e" + n.to_bytes(4, "little") + data


def assemble(items) -> bytes:
    """items: list of ('op', byte) | ('data', bytes)"""
    out = b""
    for kind, v in items:
        out += bytes([v]) if kind == "op" else push(v)
    return out


def tokenize(script: bytes):
    """GetOp: returns list of ('op', byte) | ('push', opcode, data); raises ValueError on truncated pushes."""
    out = []
    i = 0
    n = len(script)
    while i < n:
        op = script[i]
        i += 1
        if 1 <= op <= 75:
            ln = op
        elif op == 0x4C:
            if i + 1 > n:
                raise ValueError("truncated")
            ln = script[i]
            i += 1
        elif op == 0x4D:
            if i + 2 > n:
                raise ValueError("truncated")
            ln = int.from_bytes(script[i : i + 2], "little")
            i += 2
        elif op == 0x4E:
            if i + 4 > n:
                raise ValueError("truncated")
            ln = int.from_bytes(script[i : i + 4], "little")
            i += 4
        else:
            out.append(("op", op))
            continue
        if i + ln > n:
            raise ValueError("truncated")
        out.append(("push", op, script[i : i + ln]))
        i += ln
    return out


def is_minimal_push(opcode: int, data: bytes) -> bool:
    n = len(data)
    if n <= 75:
        return opcode == n
    if n <= 255:
        return opcode == 0x4C
    if n <= 65535:
        return opcode == 0x4D
    return opcode == 0x4E


def compact_size(n):
    if n < 253:
        return bytes([n])
    if n <= 0xFFFF:
        return b"\xfd" + n.to_bytes(2, "little")
    if n <= 0xFFFFFFFF:
        return b"\xfe" + n.to_bytes(4, "little")
    return b"\xff" + n.to_bytes(8, "little")


def witness_stack(items) -> bytes:
    return compact_size(len(items)) + b"".join(compact_size(len(x)) + x for x in items)


# ---------------------------------------------------------------- mini interpreter


def _h160(b):
    return hashlib.new("ripemd160", hashlib.sha256(b).digest()).digest()


def _truthy(b: bytes) -> bool:
    for i, c in enumerate(b):
        if c != 0:
            return not (i == len(b) - 1 and c == 0x80)
    return False


class ScriptError(Exception):
    pass


def _num(b: bytes) -> int:
    if not b:
        return 0
    v = int.from_bytes(b, "little")
    if b[-1] & 0x80:
        v &= (1 << (8 * len(b) - 1)) - 1
        return -v
    return v


def run(script: bytes, stack, checksig):
    """Execute script on stack (list of bytes). checksig(sig_with_hashtype, pubkey, script) -> bool.
    Supports pushes, OP_0..16, DUP, HASH160, SHA256, EQUAL(VERIFY), CHECKSIG, CHECKMULTISIG, VERIFY, DROP.
    Anything else raises ScriptError('unsupported'), which callers must treat as inconclusive."""
    for tok in tokenize(script):
        if tok[0] == "push":
            stack.append(tok[2])
            continue
        op = tok[1]
        if op == 0x00:
            stack.append(b"")
        elif 0x51 <= op <= 0x60:
            stack.append(bytes([op - 0x50]))
        elif op == 0x76:
            if not stack:
                raise ScriptError("stack")
            stack.append(stack[-1])
        elif op == 0xA9:
            stack.append(_h160(stack.pop()))
        elif op == 0xA8:
            stack.append(hashlib.sha256(stack.pop()).digest())
        elif op in (0x87, 0x88):
            if len(stack) < 2:
                raise ScriptError("stack")
            a, b = stack.pop(), stack.pop()
            eq = a == b
            if op == 0x88:
                if not eq:
                    raise ScriptError("EQUALVERIFY")
            else:
                stack.append(b"\x01" if eq else b"")
        elif op == 0x69:
            if not stack or not _truthy(stack.pop()):
                raise ScriptError("VERIFY")
        elif op == 0x75:
            stack.pop()
        elif op == 0xAC:
            if len(stack) < 2:
                raise ScriptError("stack")
            pk, sig = stack.pop(), stack.pop()
            stack.append(b"\x01" if checksig(sig, pk, script) else b"")
        elif op == 0xAE:
            if not stack:
                raise ScriptError("stack")
            n = _num(stack.pop())
            if n < 0 or n > 20 or len(stack) < n:
                raise ScriptError("multisig n")
            keys = [stack.pop() for _ in range(n)][::-1]
            if not stack:
                raise ScriptError("stack")
            m = _num(stack.pop())
            if m < 0 or m > n or len(stack) < m:
                raise ScriptError("multisig m")
            sigs = [stack.pop() for _ in range(m)][::-1]
            if not stack:
                raise ScriptError("multisig dummy")
            dummy = stack.pop()
            if dummy != b"":
                raise ScriptError("NULLDUMMY")
            ok = True
            ki = 0
            for sg in sigs:
                while ki < len(keys) and not checksig(sg, keys[ki], script):
                    ki += 1
                if ki == len(keys):
                    ok = False
                    break
                ki += 1
            stack.append(b"\x01" if ok else b"")
        else:
            raise ScriptError("unsupported opcode 0x%02x" % op)
    return stack


def selfcheck():
    assert push(b"a" * 75)[0] == 75 and push(b"a" * 76)[:2] == b"\x4c\x4c" and push(b"a" * 256)[:3] == b"\x4d\x00\x01"
    assert push(b"a" * 65536)[:5] == b"\x4e\x00\x00\x01\x00"
    s = assemble([("op", 0x76), ("op", 0xA9), ("data", b"\x11" * 20), ("op", 0x88), ("op", 0xAC)])
    assert s.hex() == "76a914" + "11" * 20 + "88ac"
    t = tokenize(s)
    assert t[2] == ("push", 20, b"\x11" * 20) and len(t) == 5
    assert witness_stack([b"", b"x" * 253])[:5] == b"\x02\x00\xfd\xfd\x00"
    # p2pkh evaluation with a fake checksig
    pk = b"\x02" + b"\x01" * 32
    spk = assemble([("op", 0x76), ("op", 0xA9), ("data", _h160(pk)), ("op", 0x88), ("op", 0xAC)])
    st = run(assemble([("data", b"sig"), ("data", pk)]), [], None)
    st = run(spk, st, lambda sig, k, sc: sig == b"sig" and k == pk)
    assert _truthy(st[-1])
    ms = assemble([("op", 0x52), ("data", b"k1"), ("data", b"k2"), ("data", b"k3"), ("op", 0x53), ("op", 0xAE)])
    st = run(ms, [b"", b"s1", b"s3"], lambda sig, k, sc: sig[1:] == k[1:])
    assert _truthy(st[-1])
    st = run(ms, [b"", b"s3", b"s1"], lambda sig, k, sc: sig[1:] == k[1:])
    assert not _truthy(st[-1])
