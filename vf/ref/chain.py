"""Independent block-level reference: merkle root, subsidy, BIP34 height push, witness commitment, block parsing.
After validation.cpp / merkle.cpp / script.h (CScript::operator<<(int64_t)).  Never imports bits."""
import hashlib

from . import txref


def hash256(b):
    return hashlib.sha256(hashlib.sha256(b).digest()).digest()


def merkle_root(hashes):
    if not hashes:
        raise ValueError("empty")
    level = list(hashes)
    while len(level) > 1:
        if len(level) & 1:
            level.append(level[-1])
        level = [hash256(level[i] + level[i + 1]) for i in range(0, len(level), 2)]
    return level[0]


def subsidy(height: int, interval: int = 210000) -> int:
    halvings = height // interval
    if halvings >= 64:
        return 0
    return (50 * 100000000) >> halvings


def scriptnum(n: int) -> bytes:
    """CScriptNum::serialize"""
    if n == 0:
        return b""
    neg = n < 0
    a = abs(n)
    out = bytearray()
    while a:
        out.append(a & 0xFF)
        a >>= 8
    if out[-1] & 0x80:
        out.append(0x80 if neg else 0x00)
    elif neg:
        out[-1] |= 0x80
    return bytes(out)


def push_int(n: int) -> bytes:
    """CScript() << n"""
    if n == -1 or 1 <= n <= 16:
        return bytes([n + 0x50])
    if n == 0:
        return b"\x00"
    b = scriptnum(n)
    return bytes([len(b)]) + b


COMMITMENT_HEADER = bytes.fromhex("6a24aa21a9ed")


def witness_commitment(wtxids_with_zero_coinbase, reserved=b"\x00" * 32) -> bytes:
    return hash256(merkle_root(wtxids_with_zero_coinbase) + reserved)


def parse_header(b: bytes):
    assert len(b) == 80
    return {
        "version": int.from_bytes(b[0:4], "little"),
        "prev": b[4:36],
        "merkle": b[36:68],
        "time": int.from_bytes(b[68:72], "little"),
        "bits": b[72:76],
        "nonce": int.from_bytes(b[76:80], "little"),
    }


def parse_block(b: bytes):
    hdr = parse_header(b[:80])
    n, o = txref.read_compact_size(b, 80)
    txs = []
    for _ in range(n):
        start = o
        tx, o = txref.parse(b, o)
        txs.append((tx, b[start:o]))
    if o != len(b):
        raise ValueError("trailing bytes after block")
    return hdr, txs


def selfcheck():
    a, b_, c = hash256(b"a"), hash256(b"b"), hash256(b"c")
    assert merkle_root([a]) == a
    assert merkle_root([a, b_]) == hash256(a + b_)
    assert merkle_root([a, b_, c]) == hash256(hash256(a + b_) + hash256(c + c))
    five = [hash256(bytes([i])) for i in range(5)]
    l1 = [hash256(five[0] + five[1]), hash256(five[2] + five[3]), hash256(five[4] + five[4])]
    assert merkle_root(five) == hash256(hash256(l1[0] + l1[1]) + hash256(l1[2] + l1[2]))
    # block 170 (first block with a payment): two txids -> known merkle root
    t1 = bytes.fromhex("b1fea52486ce0c62bb442b530a3f0132b826c74e473d1f2c220bfa78111c5082")[::-1]
    t2 = bytes.fromhex("f4184fc596403b9d638783cf57adfe4c75c605f6356fbc91338530e9831e9e16")[::-1]
    assert merkle_root([t1, t2])[::-1].hex() == "7dac2c5666815c17a3b36427de37bb9d2e2c5ccec3f8633eb91a4205cb4c10ff"
    assert subsidy(0) == 5000000000 and subsidy(209999) == 5000000000 and subsidy(210000) == 2500000000
    assert subsidy(150, 150) == 2500000000 and subsidy(149, 150) == 5000000000 and subsidy(64 * 210000) == 0
    assert subsidy(6929999) == 1 and subsidy(6930000) == 0
    assert push_int(0) == b"\x00" and push_int(1) == b"\x51" and push_int(16) == b"\x60" and push_int(17) == b"\x01\x11"
    assert push_int(127) == b"\x01\x7f" and push_int(128) == b"\x02\x80\x00" and push_int(255) == b"\x02\xff\x00" and push_int(256) == b"\x02\x00\x01"
    assert push_int(32767) == b"\x02\xff\x7f" and push_int(32768) == b"\x03\x00\x80\x00" and push_int(8388607) == b"\x03\xff\xff\x7f"
    assert push_int(8388608) == b"\x04\x00\x00\x80\x00" and push_int(2**31 - 1) == b"\x04\xff\xff\xff\x7f"
    # mainnet block 227836 coinbase starts with 03fc7903 (BIP34 activation era example: height 227,836 = 0x0379fc)
    assert push_int(227836) == bytes.fromhex("03fc7903")
