"""
Independent BIP32 (hierarchical deterministic keys), written from the BIP text.  Never imports bits.

  master(seed)                 -> (k, c) or None
  ckd_priv(k, c, i)            -> (k_i, c_i) or None (the "invalid, proceed with next i" cases)
  ckd_pub(K, c, i)             -> (K_i, c_i), None for the invalid cases; raises Hardened for i >= 2^31
  XKey                         -> extended key with metadata; derive(i), neuter(), payload(), string()
  validate(payload)            -> (XKey, None) or (None, reason): decision procedure for BIP32's invalid-key rules
  parse(string)                -> same, starting from the Base58Check string

Curve arithmetic: vf/ref/ec.py (Jacobian ladder).  Base58Check: vf/ref/base58.py (byte-wise long division).
"""
import hashlib
import hmac

from vf.ref import base58, ec

HARD = 1 << 31

VER = {
    ("main", "prv"): bytes.fromhex("0488ade4"),
    ("main", "pub"): bytes.fromhex("0488b21e"),
    ("test", "prv"): bytes.fromhex("04358394"),
    ("test", "pub"): bytes.fromhex("043587cf"),
}
VER_INV = {v: k for k, v in VER.items()}


class Hardened(Exception):
    """public parent -> hardened child is not possible"""


def _hmac512(key, msg):
    return hmac.new(key, msg, hashlib.sha512).digest()


def ser32(i):
    if not 0 <= i < 1 << 32:
        raise ValueError("index out of range")
    return bytes([(i >> 24) & 0xFF, (i >> 16) & 0xFF, (i >> 8) & 0xFF, i & 0xFF])


def ser256(k):
    return k.to_bytes(32, "big")


def ser_p(K):
    return ec.sec1_encode(K, True)


def master(seed: bytes):
    I = _hmac512(b"Bitcoin seed", seed)
    k = int.from_bytes(I[:32], "big")
    if k == 0 or k >= ec.N:
        return None
    return k, I[32:]


def ckd_priv(k, c, i):
    if i >= HARD:
        data = b"\x00" + ser256(k) + ser32(i)
    else:
        data = ser_p(ec.mul(k, ec.G)) + ser32(i)
    I = _hmac512(c, data)
    il = int.from_bytes(I[:32], "big")
    if il >= ec.N:
        return None
    ki = (il + k) % ec.N
    if ki == 0:
        return None
    return ki, I[32:]


def ckd_pub(K, c, i):
    if i >= HARD:
        raise Hardened(i)
    I = _hmac512(c, ser_p(K) + ser32(i))
    il = int.from_bytes(I[:32], "big")
    if il >= ec.N:
        return None
    Ki = ec.add(ec.mul(il, ec.G), K)
    if Ki is None:
        return None
    return Ki, I[32:]


def fingerprint(K):
    return ec.hash160(ser_p(K))[:4]


class XKey:
    """An extended key with its serialisation metadata.  key is an int (private) or an affine point (public)."""

    __slots__ = ("net", "kind", "depth", "fp", "child", "cc", "key")

    def __init__(self, net, kind, depth, fp, child, cc, key):
        self.net, self.kind, self.depth, self.fp, self.child, self.cc, self.key = net, kind, depth, fp, child, cc, key

    @classmethod
    def from_seed(cls, seed, net="main"):
        m = master(seed)
        if m is None:
            return None
        return cls(net, "prv", 0, b"\x00" * 4, 0, m[1], m[0])

    def point(self):
        return ec.mul(self.key, ec.G) if self.kind == "prv" else self.key

    def neuter(self):
        return XKey(self.net, "pub", self.depth, self.fp, self.child, self.cc, self.point())

    def derive(self, i):
        """One step; None when BIP32 declares the child invalid; Hardened when public and i >= 2^31."""
        if self.kind == "prv":
            r = ckd_priv(self.key, self.cc, i)
        else:
            r = ckd_pub(self.key, self.cc, i)
        if r is None:
            return None
        return XKey(self.net, self.kind, self.depth + 1, fingerprint(self.point()), i, r[1], r[0])

    def derive_path(self, idxs):
        x = self
        for i in idxs:
            x = x.derive(i)
            if x is None:
                return None
        return x

    def key_bytes(self):
        return b"\x00" + ser256(self.key) if self.kind == "prv" else ser_p(self.key)

    def payload(self):
        return serialise(VER[(self.net, self.kind)], self.depth, self.fp, self.child, self.cc, self.key_bytes())

    def string(self):
        return base58.check_encode(self.payload())

    def fields(self):
        return (VER[(self.net, self.kind)], self.depth, self.fp, self.child, self.cc, self.key)

    def __eq__(self, o):
        return isinstance(o, XKey) and self.fields() == o.fields()

    def __repr__(self):
        return f"XKey({self.string().decode()})"


def serialise(version, depth, fp, child, cc, key33):
    assert len(version) == 4 and 0 <= depth <= 255 and len(fp) == 4 and len(cc) == 32 and len(key33) == 33
    out = version + bytes([depth]) + fp + ser32(child) + cc + key33
    assert len(out) == 78
    return out


def validate(payload: bytes):
    """BIP32's invalid-key rules on a decoded payload.  Returns (XKey, None) or (None, reason)."""
    if len(payload) != 78:
        return None, "length"
    version = payload[0:4]
    depth = payload[4]
    fp = payload[5:9]
    child = int.from_bytes(payload[9:13], "big")
    cc = payload[13:45]
    kb = payload[45:78]
    if version not in VER_INV:
        return None, "version"
    net, kind = VER_INV[version]
    if depth == 0 and fp != b"\x00\x00\x00\x00":
        return None, "depth0-fingerprint"
    if depth == 0 and child != 0:
        return None, "depth0-index"
    prefix = kb[0]
    if kind == "pub":
        if prefix == 0:
            return None, "pubversion-prvkey"
        if prefix not in (2, 3):
            return None, "pubkey-prefix"
        if int.from_bytes(kb[1:], "big") >= ec.P:
            return None, "pubkey-x-range"
        pt = ec.sec1_decode(kb)
        if pt is None:
            return None, "pubkey-not-on-curve"
        key = pt
    else:
        if prefix in (2, 3):
            return None, "prvversion-pubkey"
        if prefix != 0:
            return None, "prvkey-prefix"
        k = int.from_bytes(kb[1:], "big")
        if k == 0 or k >= ec.N:
            return None, "prvkey-range"
        key = k
    return XKey(net, kind, depth, fp, child, cc, key), None


def parse(s: bytes):
    """From the Base58Check string.  (XKey, None) or (None, reason)."""
    payload = base58.check_decode(s)
    if payload is None:
        return None, "base58check"
    return validate(payload)


def parse_path(path: str):
    """'m/0'/1' -> ('m', [2^31, 1]); hardened marker is the apostrophe."""
    parts = path.split("/")
    head = parts[0]
    idxs = []
    for t in parts[1:]:
        if t.endswith("'"):
            idxs.append(int(t[:-1]) + HARD)
        else:
            idxs.append(int(t))
    return head, idxs


def fmt_path(head, idxs):
    return "/".join([head] + [f"{i - HARD}'" if i >= HARD else str(i) for i in idxs])


# ---------------------------------------------------------------- public test vectors (BIP32 text)

VECTORS = [
    (
        "000102030405060708090a0b0c0d0e0f",
        [
            ("m", "xpub661MyMwAqRbcFtXgS5sYJABqqG9YLmC4Q1Rdap9gSE8NqtwybGhePY2gZ29ESFjqJoCu1Rupje8YtGqsefD265TMg7usUDFdp6W1EGMcet8", "xprv9s21ZrQH143K3QTDL4LXw2F7HEK3wJUD2nW2nRk4stbPy6cq3jPPqjiChkVvvNKmPGJxWUtg6LnF5kejMRNNU3TGtRBeJgk33yuGBxrMPHi"),
            ("m/0'", "xpub68Gmy5EdvgibQVfPdqkBBCHxA5htiqg55crXYuXoQRKfDBFA1WEjWgP6LHhwBZeNK1VTsfTFUHCdrfp1bgwQ9xv5ski8PX9rL2dZXvgGDnw", "xprv9uHRZZhk6KAJC1avXpDAp4MDc3sQKNxDiPvvkX8Br5ngLNv1TxvUxt4cV1rGL5hj6KCesnDYUhd7oWgT11eZG7XnxHrnYeSvkzY7d2bhkJ7"),
            ("m/0'/1", "xpub6ASuArnXKPbfEwhqN6e3mwBcDTgzisQN1wXN9BJcM47sSikHjJf3UFHKkNAWbWMiGj7Wf5uMash7SyYq527Hqck2AxYysAA7xmALppuCkwQ", "xprv9wTYmMFdV23N2TdNG573QoEsfRrWKQgWeibmLntzniatZvR9BmLnvSxqu53Kw1UmYPxLgboyZQaXwTCg8MSY3H2EU4pWcQDnRnrVA1xe8fs"),
            ("m/0'/1/2'", "xpub6D4BDPcP2GT577Vvch3R8wDkScZWzQzMMUm3PWbmWvVJrZwQY4VUNgqFJPMM3No2dFDFGTsxxpG5uJh7n7epu4trkrX7x7DogT5Uv6fcLW5", "xprv9z4pot5VBttmtdRTWfWQmoH1taj2axGVzFqSb8C9xaxKymcFzXBDptWmT7FwuEzG3ryjH4ktypQSAewRiNMjANTtpgP4mLTj34bhnZX7UiM"),
            ("m/0'/1/2'/2", "xpub6FHa3pjLCk84BayeJxFW2SP4XRrFd1JYnxeLeU8EqN3vDfZmbqBqaGJAyiLjTAwm6ZLRQUMv1ZACTj37sR62cfN7fe5JnJ7dh8zL4fiyLHV", "xprvA2JDeKCSNNZky6uBCviVfJSKyQ1mDYahRjijr5idH2WwLsEd4Hsb2Tyh8RfQMuPh7f7RtyzTtdrbdqqsunu5Mm3wDvUAKRHSC34sJ7in334"),
            ("m/0'/1/2'/2/1000000000", "xpub6H1LXWLaKsWFhvm6RVpEL9P4KfRZSW7abD2ttkWP3SSQvnyA8FSVqNTEcYFgJS2UaFcxupHiYkro49S8yGasTvXEYBVPamhGW6cFJodrTHy", "xprvA41z7zogVVwxVSgdKUHDy1SKmdb533PjDz7J6N6mV6uS3ze1ai8FHa8kmHScGpWmj4WggLyQjgPie1rFSruoUihUZREPSL39UNdE3BBDu76"),
        ],
    ),
    (
        "fffcf9f6f3f0edeae7e4e1dedbd8d5d2cfccc9c6c3c0bdbab7b4b1aeaba8a5a29f9c999693908d8a8784817e7b7875726f6c696663605d5a5754514e4b484542",
        [
            ("m", "xpub661MyMwAqRbcFW31YEwpkMuc5THy2PSt5bDMsktWQcFF8syAmRUapSCGu8ED9W6oDMSgv6Zz8idoc4a6mr8BDzTJY47LJhkJ8UB7WEGuduB", "xprv9s21ZrQH143K31xYSDQpPDxsXRTUcvj2iNHm5NUtrGiGG5e2DtALGdso3pGz6ssrdK4PFmM8NSpSBHNqPqm55Qn3LqFtT2emdEXVYsCzC2U"),
            ("m/0", "xpub69H7F5d8KSRgmmdJg2KhpAK8SR3DjMwAdkxj3ZuxV27CprR9LgpeyGmXUbC6wb7ERfvrnKZjXoUmmDznezpbZb7ap6r1D3tgFxHmwMkQTPH", "xprv9vHkqa6EV4sPZHYqZznhT2NPtPCjKuDKGY38FBWLvgaDx45zo9WQRUT3dKYnjwih2yJD9mkrocEZXo1ex8G81dwSM1fwqWpWkeS3v86pgKt"),
            ("m/0/2147483647'", "xpub6ASAVgeehLbnwdqV6UKMHVzgqAG8Gr6riv3Fxxpj8ksbH9ebxaEyBLZ85ySDhKiLDBrQSARLq1uNRts8RuJiHjaDMBU4Zn9h8LZNnBC5y4a", "xprv9wSp6B7kry3Vj9m1zSnLvN3xH8RdsPP1Mh7fAaR7aRLcQMKTR2vidYEeEg2mUCTAwCd6vnxVrcjfy2kRgVsFawNzmjuHc2YmYRmagcEPdU9"),
            ("m/0/2147483647'/1", "xpub6DF8uhdarytz3FWdA8TvFSvvAh8dP3283MY7p2V4SeE2wyWmG5mg5EwVvmdMVCQcoNJxGoWaU9DCWh89LojfZ537wTfunKau47EL2dhHKon", "xprv9zFnWC6h2cLgpmSA46vutJzBcfJ8yaJGg8cX1e5StJh45BBciYTRXSd25UEPVuesF9yog62tGAQtHjXajPPdbRCHuWS6T8XA2ECKADdw4Ef"),
            ("m/0/2147483647'/1/2147483646'", "xpub6ERApfZwUNrhLCkDtcHTcxd75RbzS1ed54G1LkBUHQVHQKqhMkhgbmJbZRkrgZw4koxb5JaHWkY4ALHY2grBGRjaDMzQLcgJvLJuZZvRcEL", "xprvA1RpRA33e1JQ7ifknakTFpgNXPmW2YvmhqLQYMmrj4xJXXWYpDPS3xz7iAxn8L39njGVyuoseXzU6rcxFLJ8HFsTjSyQbLYnMpCqE2VbFWc"),
            ("m/0/2147483647'/1/2147483646'/2", "xpub6FnCn6nSzZAw5Tw7cgR9bi15UV96gLZhjDstkXXxvCLsUXBGXPdSnLFbdpq8p9HmGsApME5hQTZ3emM2rnY5agb9rXpVGyy3bdW6EEgAtqt", "xprvA2nrNbFZABcdryreWet9Ea4LvTJcGsqrMzxHx98MMrotbir7yrKCEXw7nadnHM8Dq38EGfSh6dqA9QWTyefMLEcBYJUuekgW4BYPJcr9E7j"),
        ],
    ),
    (
        "4b381541583be4423346c643850da4b320e46a87ae3d2a4e6da11eba819cd4acba45d239319ac14f863b8d5ab5a0d0c64d2e8a1e7d1457df2e5a3c51c73235be",
        [
            ("m", "xpub661MyMwAqRbcEZVB4dScxMAdx6d4nFc9nvyvH3v4gJL378CSRZiYmhRoP7mBy6gSPSCYk6SzXPTf3ND1cZAceL7SfJ1Z3GC8vBgp2epUt13", "xprv9s21ZrQH143K25QhxbucbDDuQ4naNntJRi4KUfWT7xo4EKsHt2QJDu7KXp1A3u7Bi1j8ph3EGsZ9Xvz9dGuVrtHHs7pXeTzjuxBrCmmhgC6"),
            ("m/0'", "xpub68NZiKmJWnxxS6aaHmn81bvJeTESw724CRDs6HbuccFQN9Ku14VQrADWgqbhhTHBaohPX4CjNLf9fq9MYo6oDaPPLPxSb7gwQN3ih19Zm4Y", "xprv9uPDJpEQgRQfDcW7BkF7eTya6RPxXeJCqCJGHuCJ4GiRVLzkTXBAJMu2qaMWPrS7AANYqdq6vcBcBUdJCVVFceUvJFjaPdGZ2y9WACViL4L"),
        ],
    ),
    (
        "3ddd5602285899a946114506157c7997e5444528f3003f6134712147db19b678",
        [
            ("m", "xpub661MyMwAqRbcGczjuMoRm6dXaLDEhW1u34gKenbeYqAix21mdUKJyuyu5F1rzYGVxyL6tmgBUAEPrEz92mBXjByMRiJdba9wpnN37RLLAXa", "xprv9s21ZrQH143K48vGoLGRPxgo2JNkJ3J3fqkirQC2zVdk5Dgd5w14S7fRDyHH4dWNHUgkvsvNDCkvAwcSHNAQwhwgNMgZhLtQC63zxwhQmRv"),
            ("m/0'", "xpub69AUMk3qDBi3uW1sXgjCmVjJ2G6WQoYSnNHyzkmdCHEhSZ4tBok37xfFEqHd2AddP56Tqp4o56AePAgCjYdvpW2PU2jbUPFKsav5ut6Ch1m", "xprv9vB7xEWwNp9kh1wQRfCCQMnZUEG21LpbR9NPCNN1dwhiZkjjeGRnaALmPXCX7SgjFTiCTT6bXes17boXtjq3xLpcDjzEuGLQBM5ohqkao9G"),
            ("m/0'/1'", "xpub6BJA1jSqiukeaesWfxe6sNK9CCGaujFFSJLomWHprUL9DePQ4JDkM5d88n49sMGJxrhpjazuXYWdMf17C9T5XnxkopaeS7jGk1GyyVziaMt", "xprv9xJocDuwtYCMNAo3Zw76WENQeAS6WGXQ55RCy7tDJ8oALr4FWkuVoHJeHVAcAqiZLE7Je3vZJHxspZdFHfnBEjHqU5hG1Jaj32dVoS6XLT1"),
        ],
    ),
]

# BIP32 test vector 5: (string, reason our validator must give)
INVALID = [
    ("xpub661MyMwAqRbcEYS8w7XLSVeEsBXy79zSzH1J8vCdxAZningWLdN3zgtU6LBpB85b3D2yc8sfvZU521AAwdZafEz7mnzBBsz4wKY5fTtTQBm", "pubversion-prvkey"),
    ("xprv9s21ZrQH143K24Mfq5zL5MhWK9hUhhGbd45hLXo2Pq2oqzMMo63oStZzFGTQQD3dC4H2D5GBj7vWvSQaaBv5cxi9gafk7NF3pnBju6dwKvH", "prvversion-pubkey"),
    ("xpub661MyMwAqRbcEYS8w7XLSVeEsBXy79zSzH1J8vCdxAZningWLdN3zgtU6Txnt3siSujt9RCVYsx4qHZGc62TG4McvMGcAUjeuwZdduYEvFn", "pubkey-prefix"),
    ("xprv9s21ZrQH143K24Mfq5zL5MhWK9hUhhGbd45hLXo2Pq2oqzMMo63oStZzFGpWnsj83BHtEy5Zt8CcDr1UiRXuWCmTQLxEK9vbz5gPstX92JQ", "prvkey-prefix"),
    ("xpub661MyMwAqRbcEYS8w7XLSVeEsBXy79zSzH1J8vCdxAZningWLdN3zgtU6N8ZMMXctdiCjxTNq964yKkwrkBJJwpzZS4HS2fxvyYUA4q2Xe4", "pubkey-prefix"),
    ("xprv9s21ZrQH143K24Mfq5zL5MhWK9hUhhGbd45hLXo2Pq2oqzMMo63oStZzFAzHGBP2UuGCqWLTAPLcMtD9y5gkZ6Eq3Rjuahrv17fEQ3Qen6J", "prvkey-prefix"),
    ("xprv9s2SPatNQ9Vc6GTbVMFPFo7jsaZySyzk7L8n2uqKXJen3KUmvQNTuLh3fhZMBoG3G4ZW1N2kZuHEPY53qmbZzCHshoQnNf4GvELZfqTUrcv", "depth0-fingerprint"),
    ("xpub661no6RGEX3uJkY4bNnPcw4URcQTrSibUZ4NqJEw5eBkv7ovTwgiT91XX27VbEXGENhYRCf7hyEbWrR3FewATdCEebj6znwMfQkhRYHRLpJ", "depth0-fingerprint"),
    ("xprv9s21ZrQH4r4TsiLvyLXqM9P7k1K3EYhA1kkD6xuquB5i39AU8KF42acDyL3qsDbU9NmZn6MsGSUYZEsuoePmjzsB3eFKSUEh3Gu1N3cqVUN", "depth0-index"),
    ("xpub661MyMwAuDcm6CRQ5N4qiHKrJ39Xe1R1NyfouMKTTWcguwVcfrZJaNvhpebzGerh7gucBvzEQWRugZDuDXjNDRmXzSZe4c7mnTK97pTvGS8", "depth0-index"),
    ("DMwo58pR1QLEFihHiXPVykYB6fJmsTeHvyTp7hRThAtCX8CvYzgPcn8XnmdfHGMQzT7ayAmfo4z3gY5KfbrZWZ6St24UVf2Qgo6oujFktLHdHY4", "version"),
    ("DMwo58pR1QLEFihHiXPVykYB6fJmsTeHvyTp7hRThAtCX8CvYzgPcn8XnmdfHPmHJiEDXkTiJTVV9rHEBUem2mwVbbNfvT2MTcAqj3nesx8uBf9", "version"),
    ("xprv9s21ZrQH143K24Mfq5zL5MhWK9hUhhGbd45hLXo2Pq2oqzMMo63oStZzF93Y5wvzdUayhgkkFoicQZcP3y52uPPxFnfoLZB21Teqt1VvEHx", "prvkey-range"),
    ("xprv9s21ZrQH143K24Mfq5zL5MhWK9hUhhGbd45hLXo2Pq2oqzMMo63oStZzFAzHGBP2UuGCqWLTAPLcMtD5SDKr24z3aiUvKr9bJpdrcLg1y3G", "prvkey-range"),
    ("xpub661MyMwAqRbcEYS8w7XLSVeEsBXy79zSzH1J8vCdxAZningWLdN3zgtU6Q5JXayek4PRsn35jii4veMimro1xefsM58PgBMrvdYre8QyULY", "pubkey-not-on-curve"),
    ("xprv9s21ZrQH143K3QTDL4LXw2F7HEK3wJUD2nW2nRk4stbPy6cq3jPPqjiChkVvvNKmPGJxWUtg6LnF5kejMRNNU3TGtRBeJgk33yuGBxrMPHL", "base58check"),
]


def selfcheck():
    for seed_hex, rows in VECTORS:
        root = XKey.from_seed(bytes.fromhex(seed_hex))
        assert root is not None
        for path, xpub, xprv in rows:
            head, idxs = parse_path(path)
            assert fmt_path(head, idxs) == path
            x = root.derive_path(idxs)
            assert x.string().decode() == xprv, ("xprv", path)
            assert x.neuter().string().decode() == xpub, ("xpub", path)
            # parse is the inverse of string
            for s, want in ((xprv, x), (xpub, x.neuter())):
                got, why = parse(s.encode())
                assert why is None and got == want and got.string().decode() == s, ("parse", path)
            # public derivation of every non-hardened step agrees with the private one
            for j in range(len(idxs)):
                if idxs[j] < HARD:
                    parent = root.derive_path(idxs[:j])
                    viapub = parent.neuter().derive(idxs[j])
                    assert viapub == parent.derive(idxs[j]).neuter(), ("commute", path, j)
                else:
                    try:
                        root.derive_path(idxs[:j]).neuter().derive(idxs[j])
                    except Hardened:
                        pass
                    else:
                        raise AssertionError("hardened public derivation not refused")
    for s, reason in INVALID:
        got, why = parse(s.encode())
        assert got is None and why == reason, (s[:20], why, reason)
    # testnet versions: tprv / tpub prefixes
    t = XKey.from_seed(bytes.fromhex(VECTORS[0][0]), net="test")
    assert t.string().startswith(b"tprv8ZgxMBicQKsPe") and t.neuter().string().startswith(b"tpubD6NzVbkrYhZ4X")
    assert parse(t.string())[0] == t
