"""
Independent transaction serialisation / parsing / sighash, written from the developer reference and BIP141/143/144.
A transaction is a dict:
  {"version": int, "locktime": int, "segwit": bool,
   "ins":  [{"txid": bytes32 (internal order), "vout": int, "script": bytes, "sequence": int, "witness": [bytes,...]}],
   "outs": [{"value": int, "script": bytes}]}
Never imports bits.
"""
import hashlib
import struct


def hash256(b):
    return hashlib.sha256(hashlib.sha256(b).digest()).digest()


def compact_size(n: int) -> bytes:
    if n < 0 or n > 0xFFFFFFFFFFFFFFFF:
        raise ValueError("out of range")
    if n < 253:
        return bytes([n])
    if n <= 0xFFFF:
        return b"\xfd" + struct.pack("<H", n)
    if n <= 0xFFFFFFFF:
        return b"\xfe" + struct.pack("<I", n)
    return b"\xff" + struct.pack("<Q", n)


def read_compact_size(b: bytes, o: int):
    f = b[o]
    if f < 253:
        return f, o + 1
    if f == 253:
        return struct.unpack_from("<H", b, o + 1)[0], o + 3
    if f == 254:
        return struct.unpack_from("<I", b, o + 1)[0], o + 5
    return struct.unpack_from("<Q", b, o + 1)[0], o + 9


def ser_in(i) -> bytes:
    return i["txid"] + struct.pack("<I", i["vout"]) + compact_size(len(i["script"])) + i["script"] + struct.pack("<I", i["sequence"])


def ser_out(o) -> bytes:
    return struct.pack("<Q", o["value"]) + compact_size(len(o["script"])) + o["script"]


def ser_witness(items) -> bytes:
    return compact_size(len(items)) + b"".join(compact_size(len(x)) + x for x in items)


def serialize(tx, with_witness=True) -> bytes:
    segwit = with_witness and tx.get("segwit")
    out = struct.pack("<I", tx["version"])
    if segwit:
        out += b"\x00\x01"
    out += compact_size(len(tx["ins"])) + b"".join(ser_in(i) for i in tx["ins"])
    out += compact_size(len(tx["outs"])) + b"".join(ser_out(o) for o in tx["outs"])
    if segwit:
        out += b"".join(ser_witness(i.get("witness", [])) for i in tx["ins"])
    out += struct.pack("<I", tx["locktime"])
    return out


def txid(tx) -> bytes:
    return hash256(serialize(tx, with_witness=False))


def wtxid(tx) -> bytes:
    return hash256(serialize(tx, with_witness=True))


def parse(b: bytes, o: int = 0):
    """Parse one transaction starting at offset o; returns (tx, end offset). Raises on truncation."""
    start = o
    (version,) = struct.unpack_from("<I", b, o)
    o += 4
    segwit = False
    if b[o] == 0 and b[o + 1] == 1:
        segwit = True
        o += 2
    n_in, o = read_compact_size(b, o)
    ins = []
    for _ in range(n_in):
        txid_ = b[o : o + 32]
        (vout,) = struct.unpack_from("<I", b, o + 32)
        o += 36
        ln, o = read_compact_size(b, o)
        script = b[o : o + ln]
        o += ln
        (seq,) = struct.unpack_from("<I", b, o)
        o += 4
        ins.append({"txid": txid_, "vout": vout, "script": script, "sequence": seq, "witness": []})
    n_out, o = read_compact_size(b, o)
    outs = []
    for _ in range(n_out):
        (value,) = struct.unpack_from("<Q", b, o)
        o += 8
        ln, o = read_compact_size(b, o)
        outs.append({"value": value, "script": b[o : o + ln]})
        o += ln
    if segwit:
        for i in ins:
            cnt, o = read_compact_size(b, o)
            items = []
            for _ in range(cnt):
                ln, o = read_compact_size(b, o)
                items.append(b[o : o + ln])
                o += ln
            i["witness"] = items
    (locktime,) = struct.unpack_from("<I", b, o)
    o += 4
    if o > len(b):
        raise ValueError("truncated")
    return {"version": version, "locktime": locktime, "segwit": segwit, "ins": ins, "outs": outs}, o


# ---------------------------------------------------------------- signature hashes

SIGHASH_ALL, SIGHASH_NONE, SIGHASH_SINGLE, SIGHASH_ANYONECANPAY = 1, 2, 3, 0x80


def bip143_preimage(tx, index, script_code_ser: bytes, amount: int, hashtype: int) -> bytes:
    """script_code_ser is the already length-prefixed scriptCode, as BIP143 item 5 is serialised."""
    base = hashtype & 0x1F
    acp = hashtype & SIGHASH_ANYONECANPAY
    zero = b"\x00" * 32
    hp = zero if acp else hash256(b"".join(i["txid"] + struct.pack("<I", i["vout"]) for i in tx["ins"]))
    if acp or base in (SIGHASH_NONE, SIGHASH_SINGLE):
        hs = zero
    else:
        hs = hash256(b"".join(struct.pack("<I", i["sequence"]) for i in tx["ins"]))
    if base not in (SIGHASH_NONE, SIGHASH_SINGLE):
        ho = hash256(b"".join(ser_out(o) for o in tx["outs"]))
    elif base == SIGHASH_SINGLE and index < len(tx["outs"]):
        ho = hash256(ser_out(tx["outs"][index]))
    else:
        ho = zero
    i = tx["ins"][index]
    return (
        struct.pack("<I", tx["version"])
        + hp
        + hs
        + i["txid"]
        + struct.pack("<I", i["vout"])
        + script_code_ser
        + struct.pack("<Q", amount)
        + struct.pack("<I", i["sequence"])
        + ho
        + struct.pack("<I", tx["locktime"])
        + struct.pack("<I", hashtype)
    )


def bip143_sighash(tx, index, script_code: bytes, amount: int, hashtype: int) -> bytes:
    return hash256(bip143_preimage(tx, index, compact_size(len(script_code)) + script_code, amount, hashtype))


def legacy_sighash(tx, index, script_code: bytes, hashtype: int) -> bytes:
    """Original SignatureHash (no OP_CODESEPARATOR handling; FindAndDelete is the caller's business)."""
    base = hashtype & 0x1F
    if index >= len(tx["ins"]):
        return (1).to_bytes(32, "little")
    if base == SIGHASH_SINGLE and index >= len(tx["outs"]):
        return (1).to_bytes(32, "little")
    ins = []
    for j, i in enumerate(tx["ins"]):
        seq = i["sequence"]
        if j != index and base in (SIGHASH_NONE, SIGHASH_SINGLE):
            seq = 0
        ins.append({"txid": i["txid"], "vout": i["vout"], "script": script_code if j == index else b"", "sequence": seq})
    if hashtype & SIGHASH_ANYONECANPAY:
        ins = [ins[index]]
    if base == SIGHASH_NONE:
        outs = []
    elif base == SIGHASH_SINGLE:
        outs = [{"value": 0xFFFFFFFFFFFFFFFF, "script": b""} for _ in range(index)] + [tx["outs"][index]]
    else:
        outs = tx["outs"]
    body = serialize({"version": tx["version"], "locktime": tx["locktime"], "segwit": False, "ins": ins, "outs": outs}, False)
    return hash256(body + struct.pack("<I", hashtype))


def selfcheck():
    assert compact_size(252) == b"\xfc" and compact_size(253) == b"\xfd\xfd\x00" and compact_size(0x10000) == b"\xfe\x00\x00\x01\x00"
    assert read_compact_size(b"\xff" + (2**64 - 1).to_bytes(8, "little") + b"x", 0) == (2**64 - 1, 9)
    # genesis coinbase
    raw = bytes.fromhex(
        "01000000010000000000000000000000000000000000000000000000000000000000000000ffffffff4d04ffff001d0104455468652054696d65732030332f4a616e2f32303039204368616e63656c6c6f72206f6e206272696e6b206f66207365636f6e64206261696c6f757420666f722062616e6b73ffffffff0100f2052a01000000434104678afdb0fe5548271967f1a67130b7105cd6a828e03909a67962e0ea1f61deb649f6bc3f4cef38c4f35504e51ec112de5c384df7ba0b8d578a4c702b6bf11d5fac00000000"
    )
    tx, end = parse(raw)
    assert end == len(raw) and serialize(tx) == raw
    assert txid(tx)[::-1].hex() == "4a5e1e4baab89f3a32518a88c31bc87f618f76673e2cc77ab2127b7afdeda33b"
    # BIP143 native P2WPKH example
    unsigned = bytes.fromhex(
        "0100000002fff7f7881a8099afa6940d42d1e7f6362bec38171ea3edf433541db4e4ad969f0000000000eeffffffef51e1b804cc89d182d279655c3aa89e815b1b309fe287d9b2b55d57b90ec68a0100000000ffffffff02202cb206000000001976a9148280b37df378db99f66f85c95a783a76ac7a6d5988ac9093510d000000001976a9143bde42dbee7e4dbe6a21b2d50ce2f0167faa815988ac11000000"
    )
    tx, _ = parse(unsigned)
    sc = bytes.fromhex("76a9141d0f172a0ecb48aee1be1f2687d2963ae33f71a188ac")
    assert bip143_sighash(tx, 1, sc, 600000000, 1).hex() == "c37af31116d1b27caf68aae9e3ac82f1477929014d5b917657d0eb49478cb670"
    # segwit round trip of the signed form
    signed = bytes.fromhex(
        "01000000000102fff7f7881a8099afa6940d42d1e7f6362bec38171ea3edf433541db4e4ad969f00000000494830450221008b9d1dc26ba6a9cb62127b02742fa9d754cd3bebf337f7a55d114c8e5cdd30be022040529b194ba3f9281a99f2b1c0a19c0489bc22ede944ccf4ecbab4cc618ef3ed01eeffffffef51e1b804cc89d182d279655c3aa89e815b1b309fe287d9b2b55d57b90ec68a0100000000ffffffff02202cb206000000001976a9148280b37df378db99f66f85c95a783a76ac7a6d5988ac9093510d000000001976a9143bde42dbee7e4dbe6a21b2d50ce2f0167faa815988ac000247304402203609e17b84f6a7d30c80bfa610b5b4542f32a8a0d5447a12fb1366d7f01cc44a0220573a954c4518331561406f90300e8f3358f51928d43c212a8caed02de67eebee0121025476c2e83188368da1ff3e292e7acafcdb3566bb0ad253f62fc70f07aeee635711000000"
    )
    tx, end = parse(signed)
    assert end == len(signed) and tx["segwit"] and serialize(tx) == signed and tx["ins"][0]["witness"] == [] and len(tx["ins"][1]["witness"]) == 2
    assert txid(tx) != wtxid(tx)
    # legacy sighash: the P2PK input of the same example signs with SIGHASH_ALL over scriptPubKey
    from . import ec, der

    spk = bytes.fromhex("2103c9f4836b9a4f77fc0d81f7bcb01b7f1b35916864b9476c241ce9fc198bd25432ac")
    z = int.from_bytes(legacy_sighash(tx, 0, spk, 1), "big")
    r, s = der.decode_strict(tx["ins"][0]["script"][1:-1])
    assert ec.ecdsa_verify(ec.sec1_decode(spk[1:34]), z, r, s)
