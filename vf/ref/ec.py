"""
Independent short-Weierstrass arithmetic for y^2 = x^3 + 7 over F_p (secp256k1 and the small test curves),
ECDSA sign/verify and SEC1 codecs.  Written from SEC1/SEC2; never imports bits.
Affine formulas use pow(x, -1, p); scalar multiplication is a Jacobian double-and-add (different algorithm from
the library's affine Fermat-inverse ladder).
"""
import hashlib

P = 0xFFFFFFFFFFFFFFFFFFFFFFFFFFFFFFFFFFFFFFFFFFFFFFFFFFFFFFFEFFFFFC2F
N = 0xFFFFFFFFFFFFFFFFFFFFFFFFFFFFFFFEBAAEDCE6AF48A03BBFD25E8CD0364141
GX = 0x79BE667EF9DCBBAC55A06295CE870B07029BFCDB2DCE28D959F2815B16F81798
GY = 0x483ADA7726A3C4655DA4FBFC0E1108A8FD17B448A68554199C47D08FFB10D4B8
G = (GX, GY)
B = 7


def on_curve(pt, p=P, b=B):
    if pt is None:
        return True
    if not (isinstance(pt, (tuple, list)) and len(pt) == 2):
        return False
    x, y = pt
    if not (isinstance(x, int) and isinstance(y, int)):
        return False
    return 0 <= x < p and 0 <= y < p and (y * y - x * x * x - b) % p == 0


def neg(pt, p=P):
    if pt is None:
        return None
    return (pt[0], (-pt[1]) % p)


def add(a, c, p=P):
    """Affine addition; None is the identity."""
    if a is None:
        return c
    if c is None:
        return a
    x1, y1 = a
    x2, y2 = c
    if x1 == x2:
        if (y1 + y2) % p == 0:
            return None
        lam = 3 * x1 * x1 * pow(2 * y1, -1, p) % p
    else:
        lam = (y2 - y1) * pow(x2 - x1, -1, p) % p
    x3 = (lam * lam - x1 - x2) % p
    return (x3, (lam * (x1 - x3) - y1) % p)


def _jdouble(X, Y, Z, p):
    if Y == 0 or Z == 0:
        return (0, 1, 0)
    S = 4 * X * Y * Y % p
    M = 3 * X * X % p
    X3 = (M * M - 2 * S) % p
    Y3 = (M * (S - X3) - 8 * Y * Y * Y * Y) % p
    Z3 = 2 * Y * Z % p
    return (X3, Y3, Z3)


def _jadd_affine(X1, Y1, Z1, x2, y2, p):
    if Z1 == 0:
        return (x2, y2, 1)
    Z1Z1 = Z1 * Z1 % p
    U2 = x2 * Z1Z1 % p
    S2 = y2 * Z1 * Z1Z1 % p
    H = (U2 - X1) % p
    R = (S2 - Y1) % p
    if H == 0:
        if R == 0:
            return _jdouble(X1, Y1, Z1, p)
        return (0, 1, 0)
    HH = H * H % p
    HHH = H * HH % p
    V = X1 * HH % p
    X3 = (R * R - HHH - 2 * V) % p
    Y3 = (R * (V - X3) - Y1 * HHH) % p
    Z3 = Z1 * H % p
    return (X3, Y3, Z3)


def mul(k, pt, p=P):
    """k * pt for any integer k >= 0 (not reduced: the caller decides)."""
    if pt is None or k == 0:
        return None
    if k < 0:
        return mul(-k, neg(pt, p), p)
    x2, y2 = pt
    X, Y, Z = 0, 1, 0
    for i in reversed(range(k.bit_length())):
        X, Y, Z = _jdouble(X, Y, Z, p)
        if (k >> i) & 1:
            X, Y, Z = _jadd_affine(X, Y, Z, x2, y2, p)
    if Z == 0:
        return None
    zi = pow(Z, -1, p)
    zi2 = zi * zi % p
    return (X * zi2 % p, Y * zi2 * zi % p)


def pub(d):
    return mul(d, G)


# ---------------------------------------------------------------- ECDSA


def ecdsa_verify(pt, z, r, s, n=N, g=G, p=P):
    """Textbook verification; z is an integer digest of any size (reduced mod n)."""
    if pt is None or not on_curve(pt, p):
        return False
    if not (1 <= r < n and 1 <= s < n):
        return False
    w = pow(s, -1, n)
    u1 = z % n * w % n
    u2 = r * w % n
    R = add(mul(u1, g, p), mul(u2, pt, p), p)
    if R is None:
        return False
    return R[0] % n == r


def ecdsa_sign(d, z, k, n=N, g=G, p=P, low_s=True):
    """Deterministic given k; returns None if r or s is zero."""
    R = mul(k % n, g, p)
    if R is None:
        return None
    r = R[0] % n
    if r == 0:
        return None
    s = pow(k, -1, n) * (z % n + r * d) % n
    if s == 0:
        return None
    if low_s and s > n // 2:
        s = n - s
    return r, s


# ---------------------------------------------------------------- SEC1


def sec1_encode(pt, compressed):
    x, y = pt
    if compressed:
        return bytes([2 + (y & 1)]) + x.to_bytes(32, "big")
    return b"\x04" + x.to_bytes(32, "big") + y.to_bytes(32, "big")


def sqrt_mod(a, p=P):
    """p = 3 mod 4"""
    r = pow(a, (p + 1) // 4, p)
    return r if r * r % p == a % p else None


def sec1_decode(b: bytes):
    """Strict SEC1 decoding (no hybrid form): returns the point or None."""
    if len(b) == 33 and b[0] in (2, 3):
        x = int.from_bytes(b[1:], "big")
        if x >= P:
            return None
        y = sqrt_mod((x * x * x + B) % P)
        if y is None:
            return None
        if (y & 1) != (b[0] & 1):
            y = P - y
        return (x, y)
    if len(b) == 65 and b[0] == 4:
        x = int.from_bytes(b[1:33], "big")
        y = int.from_bytes(b[33:], "big")
        if x >= P or y >= P:
            return None
        return (x, y) if on_curve((x, y)) else None
    return None


def hash160(b):
    return hashlib.new("ripemd160", hashlib.sha256(b).digest()).digest()


def hash256(b):
    return hashlib.sha256(hashlib.sha256(b).digest()).digest()


# ---------------------------------------------------------------- small curves (prime order, p = 3 mod 4)


_SC = {}


def small_curves(limit=6):
    if limit not in _SC:
        _SC[limit] = _small_curves(limit)
    return _SC[limit]


def _small_curves(limit=6):
    """Find curves y^2 = x^3 + 7 over F_p with p = 3 (mod 4) and prime group order, with a generator."""
    out = []
    p = 11
    while len(out) < limit and p < 2000:
        if p % 4 == 3 and all(p % q for q in range(2, int(p**0.5) + 1)):
            pts = [(x, y) for x in range(p) for y in range(p) if (y * y - x * x * x - 7) % p == 0]
            n = len(pts) + 1
            if n > 20 and all(n % q for q in range(2, int(n**0.5) + 1)) and n != p:
                g = min(pts)
                out.append({"p": p, "n": n, "g": g, "points": pts})
        p += 1
    return out


def selfcheck():
    assert on_curve(G)
    assert mul(N, G) is None
    assert mul(N - 1, G) == neg(G)
    assert mul(2, G) == add(G, G)
    two_g = (
        0xC6047F9441ED7D6D3045406E95C07CD85C778E4B8CEF3CA7ABAC09B95C709EE5,
        0x1AE168FEA63DC339A3C58419466CEAEEF7F632653266D0E1236431A950CFE52A,
    )
    assert mul(2, G) == two_g
    three_g_x = 0xF9308A019258C31049344F85F89D5229B531C845836F99B08601F113BCE036F9
    assert mul(3, G)[0] == three_g_x and add(two_g, G)[0] == three_g_x
    assert mul(N + 5, G) == mul(5, G)
    d, z, k = 0x1234567890ABCDEF, 0xDEADBEEF << 200, 0x777777777
    r, s = ecdsa_sign(d, z, k)
    assert ecdsa_verify(pub(d), z, r, s) and ecdsa_verify(pub(d), z, r, N - s)
    assert not ecdsa_verify(pub(d), z + 1, r, s) and not ecdsa_verify(pub(d + 1), z, r, s)
    assert sec1_decode(sec1_encode(two_g, True)) == two_g and sec1_decode(sec1_encode(two_g, False)) == two_g
    assert sec1_decode(b"\x02" + (5).to_bytes(32, "big")) is None  # x=5: x^3+7=132 is a non-residue
    # cross-check against OpenSSL when available (both directions)
    try:
        from cryptography.hazmat.primitives import hashes
        from cryptography.hazmat.primitives.asymmetric import ec, utils

        priv = ec.derive_private_key(d, ec.SECP256K1())
        nums = priv.public_key().public_numbers()
        assert (nums.x, nums.y) == pub(d)
        dg = hashlib.sha256(b"selfcheck").digest()
        der = priv.sign(dg, ec.ECDSA(utils.Prehashed(hashes.SHA256())))
        rr, ss = utils.decode_dss_signature(der)
        assert ecdsa_verify(pub(d), int.from_bytes(dg, "big"), rr, ss)
        r2, s2 = ecdsa_sign(d, int.from_bytes(dg, "big"), k)
        priv.public_key().verify(utils.encode_dss_signature(r2, s2), dg, ec.ECDSA(utils.Prehashed(hashes.SHA256())))
    except ImportError:
        pass
    cs = small_curves(2)
    assert cs and all(mul(c["n"], c["g"], c["p"]) is None for c in cs)
