"""Independent Bitcoin P2P wire format: message envelope and the few payloads C18 needs. Never imports bits.

Written from the protocol documentation (en.bitcoin.it/wiki/Protocol_documentation):
  message  = magic(4) | command(12, NUL padded) | length(4, LE) | checksum(4) | payload
  checksum = first four bytes of SHA256(SHA256(payload))
  ping/pong payload = nonce(8, LE);   verack payload = empty
  inv payload       = compact-size count | count * ( type(4, LE) | hash(32) )
  addr payload      = compact-size count | count * ( time(4, LE) | services(8, LE) | ip(16) | port(2, BE) )
  version payload   = version(4) services(8) timestamp(8) addr_recv(26) addr_from(26) nonce(8) user_agent(var_str)
                      start_height(4) [relay(1)]
"""
import hashlib

MAINNET = bytes.fromhex("f9beb4d9")
TESTNET = bytes.fromhex("0b110907")
REGTEST = bytes.fromhex("fabfb5da")


class WireError(ValueError):
    pass


def sha256d(b: bytes) -> bytes:
    return hashlib.sha256(hashlib.sha256(b).digest()).digest()


def compact_size(n: int) -> bytes:
    if n < 0xFD:
        return bytes([n])
    if n <= 0xFFFF:
        return b"\xfd" + n.to_bytes(2, "little")
    if n <= 0xFFFFFFFF:
        return b"\xfe" + n.to_bytes(4, "little")
    return b"\xff" + n.to_bytes(8, "little")


def message(magic: bytes, command: bytes, payload: bytes = b"") -> bytes:
    if not (0 < len(command) <= 12) or len(magic) != 4:
        raise WireError("bad command / magic")
    return magic + command.ljust(12, b"\x00") + len(payload).to_bytes(4, "little") + sha256d(payload)[:4] + payload


def split_stream(data: bytes, magic: bytes):
    """Split a byte stream into [(command, payload)]; raises WireError unless it is a whole number of well-formed
    messages with the given magic and correct checksums."""
    out = []
    pos = 0
    while pos < len(data):
        if len(data) - pos < 24:
            raise WireError("truncated header")
        head = data[pos : pos + 24]
        if head[:4] != magic:
            raise WireError("magic mismatch")
        cmd = head[4:16]
        name = cmd.rstrip(b"\x00")
        if not name or b"\x00" in name:
            raise WireError("bad command padding")
        n = int.from_bytes(head[16:20], "little")
        payload = data[pos + 24 : pos + 24 + n]
        if len(payload) != n:
            raise WireError("truncated payload")
        if sha256d(payload)[:4] != head[20:24]:
            raise WireError("checksum mismatch")
        out.append((name, payload))
        pos += 24 + n
    return out


def ping_payload(nonce: int) -> bytes:
    return nonce.to_bytes(8, "little")


def inv_payload(items) -> bytes:
    """items: [(type_id int, hash32 bytes)]"""
    out = compact_size(len(items))
    for type_id, h in items:
        assert len(h) == 32
        out += type_id.to_bytes(4, "little") + h
    return out


def net_addr(services: int, ip16: bytes, port: int) -> bytes:
    assert len(ip16) == 16
    return services.to_bytes(8, "little") + ip16 + port.to_bytes(2, "big")


def addr_payload(entries) -> bytes:
    """entries: [(time int, services int, ip16 bytes, port int)]"""
    out = compact_size(len(entries))
    for t, services, ip16, port in entries:
        out += t.to_bytes(4, "little") + net_addr(services, ip16, port)
    return out


def version_payload(
    version: int,
    services: int,
    timestamp: int,
    recv: tuple,
    frm: tuple,
    nonce: int,
    user_agent: bytes,
    start_height: int,
    relay=None,
) -> bytes:
    """recv / frm: (services, ip16, port); relay None omits the trailing byte (pre BIP37 form)."""
    out = (
        version.to_bytes(4, "little")
        + services.to_bytes(8, "little")
        + timestamp.to_bytes(8, "little")
        + net_addr(*recv)
        + net_addr(*frm)
        + nonce.to_bytes(8, "little")
        + compact_size(len(user_agent))
        + user_agent
        + start_height.to_bytes(4, "little")
    )
    if relay is not None:
        out += b"\x01" if relay else b"\x00"
    return out


def selfcheck():
    # the two example messages of the protocol documentation (mainnet verack; version 60002 of /Satoshi:0.7.2/)
    verack = bytes.fromhex("f9beb4d9" "76657261636b000000000000" "00000000" "5df6e0e2")
    assert message(MAINNET, b"verack") == verack, "verack vector"
    ip = bytes.fromhex("00000000000000000000ffff00000000")
    vp = version_payload(60002, 1, 0x50D0B211, (1, ip, 0), (0, ip, 0), 0x6517E68C5DB32E3B, b"/Satoshi:0.7.2/", 212672)
    want = bytes.fromhex(
        "f9beb4d976657273696f6e000000000064000000358d4932"
        "62ea0000010000000000000011b2d05000000000"
        "010000000000000000000000000000000000ffff000000000000"
        "000000000000000000000000000000000000ffff000000000000"
        "3b2eb35d8ce617650f2f5361746f7368693a302e372e322fc03e0300"
    )
    assert len(vp) == 100 and message(MAINNET, b"version", vp) == want, "version vector"
    assert split_stream(verack + want, MAINNET) == [(b"verack", b""), (b"version", vp)]
    assert sha256d(b"")[:4].hex() == "5df6e0e2"
    assert sha256d(b"hello").hex() == "9595c9df90075148eb06860365df33584b75bff782a510c6cd4883a419833d50"
    assert compact_size(252) == b"\xfc" and compact_size(253) == b"\xfd\xfd\x00" and compact_size(0x10000) == b"\xfe\x00\x00\x01\x00"
    for bad in (verack[:-1], verack[:20] + b"\x00\x00\x00\x00", TESTNET + verack[4:]):
        try:
            split_stream(bad, MAINNET)
        except WireError:
            continue
        raise AssertionError("split_stream accepted a malformed stream")
    # ping/pong and inv layout (sizes fixed by the documentation)
    assert ping_payload(1) == b"\x01" + b"\x00" * 7
    assert len(inv_payload([(1, b"\x11" * 32), (2, b"\x22" * 32)])) == 1 + 2 * 36
    assert len(addr_payload([(0, 1, ip, 8333)])) == 1 + 30
