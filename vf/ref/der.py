"""BIP66 strict DER signature checker/decoder/encoder, written from the BIP66 text. Never imports bits."""


def is_strict_der(sig: bytes) -> bool:
    """sig WITHOUT the sighash byte; port of IsValidSignatureEncoding minus the trailing hashtype byte."""
    if not isinstance(sig, (bytes, bytearray)):
        return False
    if len(sig) < 8 or len(sig) > 72:
        return False
    if sig[0] != 0x30:
        return False
    if sig[1] != len(sig) - 2:
        return False
    len_r = sig[3]
    if 5 + len_r >= len(sig):
        return False
    len_s = sig[5 + len_r]
    if len_r + len_s + 6 != len(sig):
        return False
    if sig[2] != 0x02:
        return False
    if len_r == 0:
        return False
    if sig[4] & 0x80:
        return False
    if len_r > 1 and sig[4] == 0 and not (sig[5] & 0x80):
        return False
    if sig[len_r + 4] != 0x02:
        return False
    if len_s == 0:
        return False
    if sig[len_r + 6] & 0x80:
        return False
    if len_s > 1 and sig[len_r + 6] == 0 and not (sig[len_r + 7] & 0x80):
        return False
    return True


def decode_strict(sig: bytes):
    if not is_strict_der(sig):
        return None
    len_r = sig[3]
    r = int.from_bytes(sig[4 : 4 + len_r], "big")
    len_s = sig[5 + len_r]
    s = int.from_bytes(sig[6 + len_r : 6 + len_r + len_s], "big")
    return r, s


def _int(v: int) -> bytes:
    b = v.to_bytes(max(1, (v.bit_length() + 7) // 8), "big")
    if b[0] & 0x80:
        b = b"\x00" + b
    return b"\x02" + bytes([len(b)]) + b


def encode(r: int, s: int) -> bytes:
    body = _int(r) + _int(s)
    return b"\x30" + bytes([len(body)]) + body


def decode_lenient(sig: bytes):
    """One-byte-length TLV reader: SEQUENCE { INTEGER, INTEGER } ignoring minimality; None if not even that."""
    if not isinstance(sig, (bytes, bytearray)):
        return None
    try:
        if sig[0] != 0x30:
            return None
        ln = sig[1]
        body = sig[2 : 2 + ln]
        if body[0] != 0x02:
            return None
        lr = body[1]
        r = body[2 : 2 + lr]
        rest = body[2 + lr :]
        if rest[0] != 0x02:
            return None
        ls = rest[1]
        s = rest[2 : 2 + ls]
        return int.from_bytes(r, "big"), int.from_bytes(s, "big")
    except IndexError:
        return None


def selfcheck():
    good = bytes.fromhex(
        "3045022100807ebfaf104a08061044a11109873af5c16cfb2e4e4ec69b47bd4dfcf3b630d402207bc3387cc3c5fd83d672eee20c40161099f8df44e135ca96a9b8650dbcbfe1bc"
    )
    assert is_strict_der(good) and encode(*decode_strict(good)) == good
    assert encode(1, 1) == bytes.fromhex("3006020101020101")
    assert encode(0x80, 0x7F) == bytes.fromhex("300702020080" + "02017f")
    assert not is_strict_der(bytes.fromhex("30070202008002" + "0100")[:-1] + b"")  # truncated
    assert not is_strict_der(bytes.fromhex("3008020200010202007f"))  # unnecessary padding
    assert not is_strict_der(bytes.fromhex("30060201800201" + "01"))  # negative r
