"""
Reference for the raw / hexadecimal / binary-string representations of a byte string (C20), and for the
configuration-layer decision rule.  Written from the README and the `bits -h` text; never imports bits.

  raw : the bytes themselves
  hex : two hexadecimal digits per byte, most significant nibble first; text may be surrounded by newlines;
        an odd number of digits is left-padded with one zero digit
  bin : eight binary digits per byte, most significant bit first; surrounded by newlines allowed;
        a digit count that is not a multiple of 8 is left-padded with zero digits
"""

FORMATS = ("raw", "hex", "bin")
_HEXVAL = {}
for _i, _c in enumerate("0123456789abcdef"):
    _HEXVAL[_c] = _i
    _HEXVAL[_c.upper()] = _i


def render(data: bytes, fmt: str) -> bytes:
    """Canonical text (as bytes) of data in fmt; hex/bin are followed by one newline."""
    if fmt == "raw":
        return bytes(data)
    if fmt == "hex":
        digits = "0123456789abcdef"
        return ("".join(digits[b >> 4] + digits[b & 15] for b in data) + "\n").encode()
    if fmt == "bin":
        return ("".join("1" if (b >> (7 - k)) & 1 else "0" for b in data for k in range(8)) + "\n").encode()
    raise ValueError(fmt)


def read(stream: bytes, fmt: str):
    """Decode what a reader of format fmt must obtain from the byte stream; None when it is not a valid text."""
    if not isinstance(stream, (bytes, bytearray)):
        return None
    if fmt == "raw":
        return bytes(stream)
    try:
        text = stream.decode("utf-8")
    except UnicodeDecodeError:
        return None
    text = text.strip()
    if fmt == "hex":
        if any(c not in _HEXVAL for c in text):
            return None
        if len(text) % 2:
            text = "0" + text
        return bytes(_HEXVAL[text[i]] * 16 + _HEXVAL[text[i + 1]] for i in range(0, len(text), 2))
    if fmt == "bin":
        if any(c not in "01" for c in text):
            return None
        while len(text) % 8:
            text = "0" + text
        out = bytearray()
        for i in range(0, len(text), 8):
            v = 0
            for c in text[i : i + 8]:
                v = v * 2 + (c == "1")
            out.append(v)
        return bytes(out)
    raise ValueError(fmt)


def effective(default, cli, toml, json_, toml_supported=True):
    """
    Configuration-layer rule.  cli: value or None (not given).  toml / json_: None (no file),
    ("no-key",) (file exists, key absent) or ("v", value).
    Returns (value, layer) with layer in cli / toml / json / default.
    explicit flag > config file (config.toml if it exists and TOML is supported, used *instead of* config.json)
    > built-in default.
    """
    if cli is not None:
        return cli, "cli"
    if toml_supported and toml is not None:
        return (toml[1], "toml") if toml[0] == "v" else (default, "default")
    if json_ is not None:
        return (json_[1], "json") if json_[0] == "v" else (default, "default")
    return default, "default"


def selfcheck():
    # `echo 1001 | bits -1b -0b` style examples from the tool's help, plus hand-computed vectors
    assert read(b"1001\n", "bin") == b"\x09"
    assert render(b"\x09", "bin") == b"00001001\n"
    assert read(b"\nfff\r\n", "hex") == b"\x0f\xff"
    assert read(b"ABcd", "hex") == b"\xab\xcd"
    assert read(b"0110", "raw") == b"0110" and read(b"0110", "hex") == b"\x01\x10" and read(b"0110", "bin") == b"\x06"
    assert read(b"100000001", "bin") == b"\x01\x01"
    assert read(b"\n", "hex") == b"" and read(b"", "bin") == b"" and render(b"", "hex") == b"\n"
    assert read(b"0g", "hex") is None and read(b"012", "bin") is None and read(b"\xff", "hex") is None
    assert render(b"\x00\xff\x10", "hex") == b"00ff10\n"
    assert render(b"\x00\x81", "bin") == b"0000000010000001\n"
    for fmt in FORMATS:
        for data in (b"", b"\x00", b"\x00\x00\x01", b"\xff" * 64, bytes(range(64))):
            assert read(render(data, fmt), fmt) == data, (fmt, data)
    # layer rule
    assert effective("d", "c", ("v", "t"), ("v", "j")) == ("c", "cli")
    assert effective("d", None, ("v", "t"), ("v", "j")) == ("t", "toml")
    assert effective("d", None, ("no-key",), ("v", "j")) == ("d", "default")
    assert effective("d", None, None, ("v", "j")) == ("j", "json")
    assert effective("d", None, None, ("no-key",)) == ("d", "default")
    assert effective("d", None, None, None) == ("d", "default")
    assert effective("d", None, ("v", "t"), ("v", "j"), toml_supported=False) == ("j", "json")
