"""Shared Hypothesis strategies. Every random choice goes through Hypothesis so cases shrink and replay."""
from hypothesis import strategies as st

N = 0xFFFFFFFFFFFFFFFFFFFFFFFFFFFFFFFEBAAEDCE6AF48A03BBFD25E8CD0364141
P = 0xFFFFFFFFFFFFFFFFFFFFFFFFFFFFFFFFFFFFFFFFFFFFFFFFFFFFFFFEFFFFFC2F


def hexbytes(min_size=0, max_size=64):
    return st.binary(min_size=min_size, max_size=max_size).map(bytes.hex)


@st.composite
def edit_mutation(draw, base: bytes, inset: bytes, nearset: bytes = b"", max_edits=2):
    """Apply 1..max_edits of substitute/insert/delete/transpose/truncate/extend to base.
    Returns (mutated bytes, list of edit kinds)."""
    s = bytearray(base)
    kinds = []
    nedits = draw(st.integers(1, max_edits))
    for _ in range(nedits):
        kind = draw(st.sampled_from(["sub", "ins", "del", "swap", "trunc", "ext", "bit", "alias"]))
        pool = draw(st.sampled_from(["in", "near", "any"]))
        if pool == "in" or (pool == "near" and not nearset):
            ch = draw(st.sampled_from(list(inset)))
        elif pool == "near":
            ch = draw(st.sampled_from(list(nearset)))
        else:
            ch = draw(st.integers(0, 255))
        if kind == "alias" and s:
            # a character replaced by the raw byte whose VALUE is that character's digit value (or digit value + 128):
            # the same number to a table-driven decoder that forgets to reject bytes outside its table
            i = draw(st.integers(0, len(s) - 1))
            if s[i] in inset:
                v = inset.index(s[i]) + (128 if draw(st.integers(0, 4)) == 0 else 0)
                if v != s[i]:
                    s[i] = v
                else:
                    continue
            else:
                continue
        elif kind == "sub" and s:
            i = draw(st.integers(0, len(s) - 1))
            s[i] = ch
        elif kind == "ins":
            i = draw(st.integers(0, len(s)))
            s.insert(i, ch)
        elif kind == "del" and s:
            i = draw(st.integers(0, len(s) - 1))
            del s[i]
        elif kind == "swap" and len(s) >= 2:
            i = draw(st.integers(0, len(s) - 2))
            s[i], s[i + 1] = s[i + 1], s[i]
        elif kind == "trunc" and s:
            k = draw(st.integers(1, min(8, len(s))))
            del s[-k:]
        elif kind == "ext":
            s.append(ch)
        elif kind == "bit" and s:
            i = draw(st.integers(0, len(s) - 1))
            s[i] ^= 1 << draw(st.integers(0, 7))
        else:
            continue
        kinds.append(kind + ":" + pool)
    return bytes(s), kinds


# lambda with lambda*(x, y) = (beta*x, y): scalars around it make double-and-add meet two different points with equal y
LAMBDA = 0x5363AD4CC05C30E0A5261C028812645A122E22EA20816678DF02967C1B23BD72
LAMBDA2 = LAMBDA * LAMBDA % N  # = n - 1 - lambda
ENDO = sorted({(b * m + c) % N for b in (LAMBDA, LAMBDA2) for m in (1, 2, 4) for c in (-1, 0, 1, 2, 3)} - {0})
# scalars whose leading bits are those of a value congruent to a small number mod n (an accumulator that equals +-P, 2P)
WRAP = [N + 2, N + 3, 2 * N + 1, 2 * N + 2, 2 * N + 3, (N + 1) // 2, (N - 1) // 2, (N + 1) // 2 + 1]


def scalars_any():
    """Integers biased to the secp256k1 boundaries, 0 <= k < 2^256 (+ a few above)."""
    special = [0, 1, 2, 3, N - 2, N - 1, N, N + 1, 2 * N - 1, 2**256 - 1, N // 2, N // 2 + 1, P, P - 1]
    special += [1 << k for k in (8, 64, 128, 255)] + [(1 << k) - 1 for k in (8, 64, 128, 255, 256)]
    special += ENDO + [w for w in WRAP if w < 2**256]
    return st.one_of(
        st.sampled_from([0, 1, N - 1, N, N + 1, 2**256 - 1]),
        st.sampled_from(special),
        # a special value followed by a few more bits (what a left-to-right ladder sees as a prefix)
        st.tuples(st.sampled_from(ENDO + WRAP + [N - 1, N, N + 1]), st.integers(1, 6)).flatmap(
            lambda t: st.integers(0, (1 << t[1]) - 1).map(lambda r: ((t[0] << t[1]) | r) % 2**256)
        ),
        st.integers(1, 31).flatmap(lambda z: st.integers(1, (1 << (8 * (32 - z))) - 1)),
        st.integers(0, 2**256 - 1),
    )


# keys k whose public point kG has a coordinate below 2^248 (a leading zero byte in its fixed-width encoding: 1 key in
# 128 has one); x(kG) is short for the first half, y(kG) for the second half; n - k keeps the short x
SHORT_X_KEYS = [153, 246, 886, 1158, 1417, 1436, 1661, 1690, 1700, 2176, 2302, 2408]
SHORT_Y_KEYS = [122, 130, 533, 544, 649, 726, 809, 832, 834, 864, 933, 1025]
SHORT_COORD_KEYS = SHORT_X_KEYS + SHORT_Y_KEYS + [N - k for k in SHORT_X_KEYS[:4]]


def scalars_valid():
    """Private-key-like scalars in [1, n-1], biased to boundaries and leading zero bytes."""
    special = [1, 2, 3, N - 2, N - 1, N // 2, N // 2 + 1, 1 << 255, (1 << 255) - 1, 0xFF, 0x100]
    special += ENDO + [w for w in WRAP if w < N]
    return st.one_of(
        st.sampled_from([1, 2, N - 2, N - 1]),  # the ends of the valid range keep their own weight
        st.sampled_from(special),
        st.sampled_from(special),
        st.sampled_from(SHORT_COORD_KEYS),
        st.integers(1, 31).flatmap(lambda z: st.integers(1, (1 << (8 * (32 - z))) - 1)),
        st.integers(1, N - 1),
    )


def sized_binary(max_size, min_size=0):
    """Byte strings of min_size..max_size bytes in which every LENGTH is as likely as any other half of the time
    (Hypothesis' own st.binary leans heavily towards short strings: lengths near max_size are then hardly ever drawn)."""
    return st.one_of(
        st.binary(min_size=min_size, max_size=max_size),
        st.integers(min_size, max_size).flatmap(lambda n: st.binary(min_size=n, max_size=n)),
    )


_P = 2**256 - 2**32 - 977
_N = 0xFFFFFFFFFFFFFFFFFFFFFFFFFFFFFFFEBAAEDCE6AF48A03BBFD25E8CD0364141
EDGE_BYTES = b"\t\n\x0b\x0c\r \x00"
_HIGH = None


def high_coord_points():
    """Curve points with a coordinate in [n, p): valid keys that a range check against the group order (instead of the
    field prime) refuses.  x near p-1 downwards, x = n upwards, y near p-1 downwards (cube roots: p = 7 mod 9)."""
    global _HIGH
    if _HIGH is None:
        pts = []

        def lift(x):
            a = (pow(x, 3, _P) + 7) % _P
            y = pow(a, (_P + 1) // 4, _P)
            return (x, y) if y * y % _P == a else None

        for start, step in ((_P - 1, -1), (_N, 1)):
            x, found = start, 0
            while found < 3:
                pt = lift(x)
                if pt:
                    pts.append(("x", pt))
                    pts.append(("x", (pt[0], _P - pt[1])))
                    found += 1
                x += step
        y, found = _P - 1, 0
        while found < 3:
            a = (y * y - 7) % _P
            if pow(a, (_P - 1) // 3, _P) == 1:
                r = pow(a, (_P + 2) // 9, _P)
                if pow(r, 3, _P) == a:
                    pts.append(("y", (r, y)))
                    found += 1
            y -= 1
        _HIGH = pts
    return _HIGH


def edge_scalar(k, mul, G, encode, n=_N, tries=3000):
    """Next scalar >= k whose public key, in either SEC1 form, starts (after the prefix) or ends with an ASCII whitespace
    byte or NUL: binary data that text-oriented clean-up (strip, rstrip) damages.  About one key in 19."""
    k = k % (n - 1) + 1
    for _ in range(tries):
        pt = mul(k, G)
        encs = [encode(pt, True), encode(pt, False)]
        if any(e[-1] in EDGE_BYTES or e[1] in EDGE_BYTES for e in encs):
            return k
        k = k % (n - 1) + 1
    return k


LOOKALIKES = [
    b"ab", b"00ff00ff", b"DEADBEEF", b"0x1234", b"0", b"1", b"\n", b" ", b"\r\n", b"\t", b" abc\n", b"\x00abc\x00", b"abc\x00", b"\x00",
    b"2cf24dba5fb0a30e26e83b2ac5b9e29e1b161e5c1fa7425e73043362938b9824",  # the text of a SHA-256 digest (64 hex characters)
    b"0279be667ef9dcbbac55a06295ce870b07029bfcdb2dce28d959f2815b16f81798",  # the text of a public key
    b"True", b"None", b"[]", b"{}", b"bc1qw508d6qejxtdg4y5r3zarvary0c5xw7kv8f3t4", b"1A1zP1eP5QGefi2DMPTfTL5SLmv7DivfNa",
    b"\xef\xbb\xbfabc", b"abc\xff", b"\x80", b"=", b"-----BEGIN",
]


def lookalike_bytes():
    """Opaque byte strings that look like text a convenience layer might want to interpret: hex digits, whitespace and
    NUL at the ends, literals, addresses, a UTF-8 byte order mark."""
    return st.sampled_from(LOOKALIKES)


LOOKALIKE_KEYS32 = [
    b"0123456789abcdef0123456789abcdef", b"1" * 32, b" " * 32, b"DEADBEEFdeadbeefDEADBEEFdeadbeef", b"cafe babe cafe babe cafe babe\n\t\n",
    b"0x" + b"1f" * 15, b"\n" + b"a1" * 15 + b"\n", b"correct horse battery staple 32b", b"\x00" * 31 + b"\n", b" " + b"\x01" * 30 + b" ",
    b"0" * 32, b"KwDiBf89QgGbjEhKnhXJuH7LrciVrZi3", b"00" * 16,
]
assert all(len(k) == 32 and 0 < int.from_bytes(k, "big") < _N for k in LOOKALIKE_KEYS32)


def lookalike_keys32():
    """Valid 32-byte private keys / seeds whose bytes read as text: hex digits, whitespace, a WIF fragment."""
    return st.sampled_from(LOOKALIKE_KEYS32)
