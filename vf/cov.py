"""Optional line coverage of the library under test while a check runs (VF_LINECOV=<dir>): which lines of /repo/src the
generated cases actually executed.  Uses sys.monitoring (Python 3.12+): every line event is disabled after its first hit,
so the cost is negligible.  Diagnostic only: nothing in a verdict depends on it (tools/linecov.py reads the files)."""
import json
import os
import sys

_hits = set()
_on = False


def start(prefix):
    global _on
    if _on or not hasattr(sys, "monitoring"):
        return
    mon = sys.monitoring
    tool = mon.COVERAGE_ID
    try:
        mon.use_tool_id(tool, "vf-linecov")
    except ValueError:
        return

    def on_line(code, line):
        fn = code.co_filename
        if fn.startswith(prefix):
            _hits.add((fn[len(prefix):], line))
        return mon.DISABLE

    mon.register_callback(tool, mon.events.LINE, on_line)
    mon.set_events(tool, mon.events.LINE)
    _on = True


def dump(directory, tag):
    if not _on:
        return
    os.makedirs(directory, exist_ok=True)
    path = os.path.join(directory, f"{tag}-{os.getpid()}.json")
    old = []
    if os.path.exists(path):
        old = json.load(open(path))
    merged = sorted(set(map(tuple, old)) | _hits)
    with open(path, "w") as f:
        json.dump(merged, f)
