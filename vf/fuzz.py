"""Runner-side glue for the atheris add-on: a fuzz campaign is an enumerated case whose check launches fuzz_worker.py."""
import json
import os
import shutil
import subprocess
import sys

from vf import core
from vf.core import Fails, Target

HERE = os.path.dirname(os.path.abspath(__file__))


def atheris_available():
    try:
        sys.path.append(os.path.join(core.VERIF_DIR, ".deps"))
        import atheris  # noqa: F401

        return True
    except Exception:  # noqa: BLE001
        return False


def campaign_target(pid, base_target, campaigns=16, runs=20000, max_len=4096, max_time=240):
    """Target 'fuzz:<base>' for the thorough tier. Each enumerated case is one libFuzzer campaign (own seed, fresh corpus)."""

    def enum(tier):
        seed = int(os.environ.get("VERIF_SEED", "1") or "1")
        for i in range(campaigns):
            yield {"campaign": i, "target": base_target, "runs": runs, "seed": seed * 1000 + i + 1}

    def check(case):
        f = Fails()
        if not atheris_available():
            return ["fuzz-skipped-atheris-missing"], f
        out = os.path.join(core.VERIF_DIR, "out", "fuzz", pid, base_target, str(case["campaign"]))
        shutil.rmtree(out, ignore_errors=True)
        os.makedirs(out, exist_ok=True)
        cmd = [sys.executable, "-B", os.path.join(HERE, "fuzz_worker.py"), pid, base_target, out, str(case["runs"]), str(case["seed"]), str(max_len), str(max_time)]
        env = dict(os.environ, PYTHONDONTWRITEBYTECODE="1", PYTHONHASHSEED="0")
        try:
            subprocess.run(cmd, env=env, stdout=subprocess.DEVNULL, stderr=open(os.path.join(out, "stderr.txt"), "w"), timeout=max_time + 200)
        except subprocess.TimeoutExpired:
            pass  # a time budget hit is never a violation; whatever was flushed counts
        try:
            st = json.load(open(os.path.join(out, "stats.json")))
        except Exception:  # noqa: BLE001
            raise RuntimeError("fuzz campaign produced no stats: " + open(os.path.join(out, "stderr.txt")).read()[-600:])
        cls = [f"@evals={st['cases']}", f"@nt={st['nt']}", "nt:fuzz-campaign", f"@execs={st['execs']}"]
        for sig, slot in st["failures"].items():
            # store the decoded case as a replay file of the underlying generated target (the reproducible unit)
            d = os.path.join(core.VERIF_DIR, "out", "replay")
            os.makedirs(d, exist_ok=True)
            safe = "".join(ch if ch.isalnum() or ch in "-_." else "_" for ch in f"{pid}-{base_target}-fuzz-{sig}")[:150]
            path = os.path.join(d, safe + ".json")
            json.dump({"property": pid, "target": base_target, "sig": sig, "detail": slot["detail"], "case": slot["case"]}, open(path, "w"), indent=1)
            f.add(sig, f"[found by fuzz campaign {case['campaign']}; underlying case saved as {path}] {slot['detail']}")
        shutil.rmtree(os.path.join(out, "corpus"), ignore_errors=True)
        return cls, f

    t = Target(f"fuzz:{base_target}", check, enumerate_=enum, shards=campaigns)
    t.watchdog_s = max_time + 300  # a campaign is bounded by -runs and -max_total_time (a time budget hit is never a verdict)
    return t
