"""
Coverage-guided campaign for one generated target (thorough-tier add-on), run as a subprocess:
    python -B vf/fuzz_worker.py <PID> <target> <outdir> <runs> <seed> [max_len]
libFuzzer (atheris) mutates a byte string; Hypothesis' fuzz_one_input decodes it into a case of the target's own
strategy, so the fuzzer explores structured cases with coverage feedback from the instrumented `bits` package, and the
semantic oracle (the target's check) runs inside the fuzz target. Failures are recorded, not raised, so the campaign
continues behind the first finding. atexit does not run under libFuzzer: results are flushed incrementally.
"""
import json
import os
import sys

HERE = os.path.dirname(os.path.abspath(__file__))
VERIF = os.path.dirname(HERE)
sys.path.insert(0, VERIF)
sys.path.append(os.path.join(VERIF, ".deps"))

pid, tname, outdir, runs, seed = sys.argv[1], sys.argv[2], sys.argv[3], int(sys.argv[4]), int(sys.argv[5])
max_len = int(sys.argv[6]) if len(sys.argv) > 6 else 4096
max_time = int(sys.argv[7]) if len(sys.argv) > 7 else 240

import atheris  # noqa: E402

from vf import core  # noqa: E402

core.install_repo_path()
with atheris.instrument_imports(include=["bits"]):
    import bits  # noqa: F401
    import importlib

    mod = importlib.import_module(f"vf.props.{pid}")

from hypothesis import HealthCheck, given, settings  # noqa: E402

from vf.main import _pin_hypothesis, checked  # noqa: E402

_pin_hypothesis()
tgt = {t.name: t for t in mod.targets("thorough")}[tname]
if tgt.setup:
    tgt.setup()

stats = {"execs": 0, "cases": 0, "classes": {}, "nt": 0, "failures": {}}
seen = set()
statfile = os.path.join(outdir, "stats.json")


def flush():
    tmp = statfile + ".tmp"
    with open(tmp, "w") as f:
        json.dump(stats, f)
    os.replace(tmp, statfile)


@settings(database=None, deadline=None, suppress_health_check=list(HealthCheck))
@given(tgt.strategy("thorough"))
def one(case):
    stats["cases"] += 1
    classes, failures = checked(tgt, case)
    d = core.digest(case)
    new = d not in seen
    if new:
        seen.add(d)
        if any(c.startswith("nt:") for c in classes):
            stats["nt"] += 1
    for c in classes:
        stats["classes"][c] = stats["classes"].get(c, 0) + 1
    for sig, detail in failures:
        slot = stats["failures"].get(sig)
        size = len(core.canon(case))
        if slot is None or size < slot["size"]:
            stats["failures"][sig] = {"count": (slot or {"count": 0})["count"] + 1, "detail": detail, "case": case, "size": size}
            flush()
        else:
            slot["count"] += 1


def test_one_input(data):
    stats["execs"] += 1
    try:
        one.hypothesis.fuzz_one_input(data)
    finally:
        if stats["execs"] % 500 == 0 or stats["execs"] >= runs:
            flush()


os.makedirs(os.path.join(outdir, "corpus"), exist_ok=True)
flush()
atheris.Setup([sys.argv[0], f"-runs={runs}", f"-seed={seed or 1}", f"-max_len={max_len}", f"-max_total_time={max_time}", "-verbosity=0", "-print_final_stats=0", os.path.join(outdir, "corpus")], test_one_input)
atheris.Fuzz()
