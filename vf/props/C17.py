"""C17 — P2P wire: framing survives fragmentation, detects corruption, EOF terminates with an error; codecs invert."""
import hashlib
import ipaddress
import itertools
import struct

from hypothesis import strategies as st

from vf.core import Fails, Target, attempt, bx, hx, raised, attempt_owned, attempt_twice
from vf.env import sock as sockenv
from vf.env.sock import NonTermination, ScriptedSocket, cut_positions
from vf.ref import wire as ref

PROPERTY = "C17"
LEVEL = "fault_enumeration"
RULE = (
    "Framing: streams of 1..3 back-to-back messages (all 17 commands, payload sizes {0,1,23,24,25,1000} | 0..300, thorough up "
    "to 70000, three networks) delivered to recv_msg through a scripted socket whose recv(n) returns at most min(n, bytes left in "
    "the current arrival segment). Schedules: exhaustive (a bytes, b bytes, rest) transitions of the header loop (first and second "
    "message) and of payload loops up to 32 bytes; all compositions with <=3 cuts of a 30-byte stream and a 51-byte 2-message stream and <=2 cuts of a "
    "75-byte 3-message stream; Hypothesis-drawn schedules (all-1-byte, fixed size, random sizes, cuts placed around field and "
    "message boundaries). Faults: every single-bit flip of three short messages in three rotations (two delivery schedules), every "
    "combination of configured network x stream magic, truncation at every byte offset followed by EOF. Expected outcome of every "
    "faulted stream is decided by an independent reference receiver (vf/ref/wire.py); termination is decided by a recv-call counter "
    "(4*len+64), never a clock. Codecs: parse_X(build_X(values)) for version (scripted bits.p2p.time; also with the user-agent "
    "segment emptied), getheaders (counts 0..300 crossing 252/253, and 65536), inv (six types, counts crossing 252/253), addr "
    "(1..30 explicit entries with full-range fields, totals 252/253/1000), ping (nonce boundaries), plus built bytes == reference "
    "layout. Non-trivial: a schedule with a cut inside a header or payload or a segment spanning a message boundary; any flip, "
    "wrong magic or truncation; a codec case with count >= 253 or a boundary-valued field. Distinct = distinct canonical cases."
)
ASSUMPTIONS = [
    "vf/ref/wire.py (header layout, reference receiver, payload layouts; validated against the wiki verack/version/addr messages "
    "and the developer-reference inv/getheaders examples) and hashlib.sha256 are correct",
    "a socket's recv(n) may return any 1..n available bytes and returns b'' exactly when the peer has closed; recv_msg is "
    "stateless, so it must consume exactly one message from the socket",
    "rejection means any exception; a receive call that makes more than 4*len(stream)+64 recv calls is not terminating",
    "codec domains: hash_count/count equal to the list length, 32-byte hashes, 8-byte services, 16-byte ip, start_height < 2^31, "
    "scripted time an integer or integer+0.25; parsed hashes may be hex strings or bytes, parsed ip may be the 16 raw bytes, their "
    "ASCII decoding, or a textual IPv6 address equal to them",
]
SELFCHECKS = [ref.selfcheck, sockenv.selfcheck]

NETS = ["mainnet", "testnet", "regtest"]
EOF_SIG = "recv/eof/did-not-terminate"
EOF_RETURNED_SIG = "recv/eof/returned-message"


def _lib():
    import bits.p2p as p2p

    return p2p


# ---------------------------------------------------------------- helpers


def payload_of(m) -> bytes:
    size = m["size"]
    if size == 0:
        return b""
    fill = bx(m.get("fill", "")) or b"\x00"
    return (fill * (size // len(fill) + 1))[:size]


def msg_len(m) -> int:
    return ref.HEADER_LEN + m["size"]


class _Net:
    """Set MAGIC_START_BYTES through the library's setter for one case, restore afterwards."""

    def __init__(self, p2p, net, f):
        self.p2p, self.net, self.f = p2p, net, f

    def __enter__(self):
        self.saved = self.p2p.MAGIC_START_BYTES
        r = attempt(self.p2p.set_magic_start_bytes, self.net)
        ok = not raised(r)
        self.f.expect(ok, "magic/set_magic_start_bytes-raised", f"{self.net}: {r!r}")
        return ok

    def __exit__(self, *a):
        self.p2p.MAGIC_START_BYTES = self.saved
        return False


NONTERM = object()


def recv_once(p2p, sock):
    try:
        return attempt(p2p.recv_msg, sock)
    except NonTermination:  # BaseException: raised by the scripted socket's call counter
        return NONTERM


def as_msg(r):
    if isinstance(r, (tuple, list)) and len(r) == 3 and all(isinstance(x, (bytes, bytearray)) for x in r):
        return tuple(bytes(x) for x in r)
    return None


def short(b, n=24):
    if isinstance(b, (bytes, bytearray)):
        return b.hex() if len(b) <= n else f"{bytes(b[:n]).hex()}..({len(b)}B)"
    return repr(b)[:80]


def drive(p2p, stream, magic, nmsgs, chunks, tail, f, prefix_for):
    """One recv_msg call per message; every outcome is compared with the reference receiver's decision.
    prefix_for(i, ok) names the clause for message i (ok: the reference receives it / the reference rejects it)."""
    sock = ScriptedSocket(stream, chunks, tail)
    pos = 0
    for i in range(nmsgs):
        want = ref.receive(stream, pos, magic)
        got = recv_once(p2p, sock)
        prefix = prefix_for(i, want["ok"])
        if want["ok"]:
            if got is NONTERM:
                f.add(prefix + "/valid-message-did-not-terminate", f"message {i}: {sock.calls} recv calls, pos {sock.pos}/{len(stream)}")
                return
            if raised(got):
                f.add(prefix + "/valid-message-rejected", f"message {i} ({want['command']!r}, {len(want['payload'])}B): {got!r}")
                return
            m = as_msg(got)
            if m is None:
                f.add(prefix + "/bad-return-value", f"message {i}: {got!r}"[:200])
                return
            for idx, name in enumerate(("magic", "command", "payload")):
                if m[idx] != want[name]:
                    f.add(prefix + f"/{name}-ne-sent", f"message {i}: got {short(m[idx])} want {short(want[name])}")
            if sock.pos < want["end"]:
                f.add(prefix + "/bleed", f"message {i}: returned although the socket was only consumed up to {sock.pos}, message ends at {want['end']}")
                return
            # Reading past the end of the message is not in itself a fault (a receiver may read ahead and keep the surplus
            # for its next call on that socket): what the statement asks is that the following messages still arrive as
            # sent, which the next iterations check on the same socket.
            pos = want["end"]
        else:
            eof = want["why"][0].startswith("eof")
            if got is NONTERM:
                f.add(
                    EOF_SIG if eof else prefix + "/did-not-terminate",
                    f"message {i}: reference says {want['why']}; {sock.calls} recv calls ({sock.eof_calls} returned b'' at EOF) "
                    f"on a {len(stream)}-byte stream, no return",
                )
            elif not raised(got):
                f.add(
                    EOF_RETURNED_SIG if eof else prefix + "/accepted",
                    f"message {i}: reference says {want['why']}; returned {tuple(short(x) for x in got) if as_msg(got) else got!r}"[:300],
                )
            return


def boundaries(msgs):
    out, acc = [], 0
    for m in msgs:
        acc += msg_len(m)
        out.append(acc)
    return out


def schedule_classes(msgs, chunks, tail):
    ends = boundaries(msgs)
    total = ends[-1]
    cuts = cut_positions(total, chunks, tail)
    cls = set()
    starts = [0] + ends[:-1]
    inner = set(ends[:-1])
    # O(len(cuts) + len(msgs)) classification
    mi = 0
    for c in cuts:
        while c >= ends[mi]:
            mi += 1
            if mi >= len(ends):
                break
        if mi >= len(ends):
            break
        s = starts[mi]
        if c == s:
            cls.add("cut-at-message-boundary")
        elif c < s + ref.HEADER_LEN:
            cls.add("nt:cut-in-header")
        elif c == s + ref.HEADER_LEN:
            cls.add("cut-at-header-end")
        else:
            cls.add("nt:cut-in-payload")
    if inner:
        cs = set(cuts)
        if any(b not in cs for b in inner):
            cls.add("nt:chunk-spans-boundary")
    if not cuts:
        cls.add("no-cut")
    if tail == 1 and not any(c > 0 for c in chunks):
        cls.add("all-1-byte")
    return sorted(cls)


# ---------------------------------------------------------------- target: fragmentation


def check_frag(case):
    p2p = _lib()
    f = Fails()
    msgs = case["msgs"]
    net = case["net"]
    magic = ref.MAGIC[net]
    cls = schedule_classes(msgs, case.get("chunks", []), case.get("tail", 0))
    cls.append(f"nt:back-to-back-{len(msgs)}" if len(msgs) > 1 else "single-message")
    for m in msgs:
        s = m["size"]
        cls.append("payload-empty" if s == 0 else "payload<=32" if s <= 32 else "payload<=300" if s <= 300 else "payload<=1000" if s <= 1000 else "payload>1000")
    cls = sorted(set(cls))
    with _Net(p2p, net, f) as ok:
        if not ok:
            return cls, f
        frames = []
        for i, m in enumerate(msgs):
            payload = payload_of(m)
            want = ref.frame(magic, m["cmd"].encode("ascii"), payload)
            if m.get("foreign"):
                # a peer's message whose command is not in the library's table (msg_ser refuses to build those):
                # the receive side still has to hand it over unchanged; names of 12 characters fill the field
                frames.append(want)
                cls.append("nt:foreign-command-12-chars" if len(m["cmd"]) == 12 else "nt:foreign-command")
                continue
            cmd_arg = m["cmd"] if m.get("str") else m["cmd"].encode("ascii")
            # history: the same message has just been serialised for another network (another start-bytes argument)
            other = ref.MAGIC[[n_ for n_ in sorted(ref.MAGIC) if n_ != net][(i + len(payload)) % (len(ref.MAGIC) - 1)]]
            attempt(p2p.msg_ser, other, cmd_arg, payload)
            cls.append("nt:after-same-message-under-other-magic")
            got = attempt(p2p.msg_ser, magic, cmd_arg, payload)
            good = isinstance(got, (bytes, bytearray)) and bytes(got) == want
            f.expect(good, "ser/ne-reference-layout", f"message {i} {m['cmd']} {len(payload)}B: got {short(got, 40)} want {short(want, 40)}")
            # the statement is about a message serialised by the library: stream its own bytes when it produced any
            frames.append(bytes(got) if isinstance(got, (bytes, bytearray)) and len(got) == len(want) else want)
        stream = b"".join(frames)
        # expectations come from the inputs: the reference receiver on the stream must reproduce them, else the
        # serialiser (already reported above) made the stream invalid and the receive clause is not judged on it
        pos, valid = 0, True
        for m in msgs:
            r = ref.receive(stream, pos, magic)
            if not (r["ok"] and r["command"] == m["cmd"].encode("ascii") and r["payload"] == payload_of(m)):
                valid = False
                break
            pos = r["end"]
        if valid:
            drive(p2p, stream, magic, len(msgs), case.get("chunks", []), case.get("tail", 0), f, lambda i, ok: "frag")
    return cls, f


_PING8 = {"cmd": "ping", "fill": "0102030405060708", "size": 8}
_PONG8 = {"cmd": "pong", "fill": "f1f2f3f4f5f6f7f8", "size": 8}
_VERACK = {"cmd": "verack", "fill": "", "size": 0}


def enum_transitions(tier):
    # header loop, first message: a bytes, then b bytes, then the rest
    for a in range(24):
        for b in range(1, 24 - a + 1):
            yield {"kind": "header-transition", "net": "mainnet", "msgs": [_PING8, _VERACK], "chunks": [a, b], "tail": 0}
    # header loop of the second message; the first segment also carries the whole first message
    for a in range(24):
        for b in range(1, 24 - a + 1):
            yield {"kind": "header-transition-2nd", "net": "regtest", "msgs": [_PING8, _PONG8, _VERACK], "chunks": [32 + a, b], "tail": 0}
    top = 32 if tier == "quick" else 64
    for L in range(1, top + 1):
        m = {"cmd": "tx", "fill": hx(bytes((7 * i + 1) & 0xFF for i in range(L))), "size": L}
        for a in range(L):
            for b in range(1, L - a + 1):
                yield {"kind": "payload-transition", "net": "testnet", "msgs": [m, _VERACK], "chunks": [24, a, b], "tail": 0}


def enum_large_frames(tier):
    """Every command of the table with payloads at the top of the stated range (and the 30003 bytes of an addr message
    with the maximum 1000 entries), alone and followed by a second message; few, large chunks."""
    sizes = [30001, 30002, 30003, 65535, 65536, 70000]
    for i, cmd in enumerate(ref.COMMANDS):
        for n in sizes if tier != "quick" else [sizes[(i + j) % len(sizes)] for j in (0, 2, 5)] + ([30003] if cmd == "addr" else []):
            m = {"cmd": cmd, "fill": hx(bytes((11 * k + i) & 0xFF for k in range(29))), "size": n}
            yield {"kind": "large-frame", "net": NETS[i % len(NETS)], "msgs": [m], "chunks": [24, 4096, 1, 60000], "tail": 0}
            yield {"kind": "large-frame", "net": NETS[(i + 1) % len(NETS)], "msgs": [m, _PING8], "chunks": [100000], "tail": 0}


def _compositions(net, msgs, maxcuts, kind):
    total = sum(msg_len(m) for m in msgs)
    for k in range(maxcuts + 1):
        for cuts in itertools.combinations(range(1, total), k):
            chunks, prev = [], 0
            for c in cuts:
                chunks.append(c - prev)
                prev = c
            yield {"kind": kind, "net": net, "msgs": msgs, "chunks": chunks, "tail": 0}


def enum_compositions(tier):
    m6 = {"cmd": "getaddr", "fill": "a1a2a3a4a5a6", "size": 6}
    m1 = {"cmd": "inv", "fill": "00", "size": 1}
    m3 = {"cmd": "headers", "fill": "0b0c0d", "size": 3}
    m2 = {"cmd": "addr", "fill": "0001", "size": 2}
    q = tier == "quick"
    yield from _compositions("mainnet", [m6], 3 if q else 4, "compositions-1msg")
    yield from _compositions("testnet", [m3, _VERACK], 3, "compositions-2msg")
    yield from _compositions("regtest", [_VERACK, m1, m2], 2 if q else 3, "compositions-3msg")


U16 = st.one_of(st.sampled_from([0, 1, 255, 256, 8333, 18333, 18444, 65535]), st.integers(0, 65535))
U32 = st.one_of(
    st.sampled_from([0, 1, 0xFF, 0x100, 0xFFFF, 0x10000, 2**31 - 1, 2**31, 2**32 - 1, 70015, 70001, 60002, 209]),
    st.integers(0, 2**32 - 1),
)
I31 = st.one_of(st.sampled_from([0, 1, 0xFF, 0x100, 0xFFFF, 0x10000, 2**31 - 1, 800000]), st.integers(0, 2**31 - 1))
U64 = st.one_of(
    st.sampled_from([0, 1, 0x0409, 2**32 - 1, 2**32, 2**63 - 1, 2**63, 2**64 - 1]),
    st.integers(0, 2**64 - 1),
)


@st.composite
def msg_specs(draw, tier):
    cmd = draw(st.sampled_from(ref.COMMANDS))
    sizes = [st.sampled_from([0, 1, 23, 24, 25, 1000]), st.integers(0, 300)]
    if tier != "quick":
        sizes.append(st.sampled_from([1001, 4096, 65535, 65536, 70000]))
        sizes.append(st.integers(301, 70000))
    size = draw(st.one_of(*sizes))
    fill = draw(st.binary(min_size=1, max_size=min(size, 32))) if size else b""
    m = {"cmd": cmd, "fill": hx(fill), "size": size}
    if draw(st.integers(0, 7)) == 0:
        m["cmd"] = draw(st.sampled_from(["getcfheaders", "getcfcheckpt", "zzzzzzzzzzzz", "sendaddrv2", "wtxidrelay", "feefilter", "a"]))
        m["foreign"] = 1
    elif draw(st.booleans()):
        m["str"] = 1
    return m


@st.composite
def frag_cases(draw, tier):
    n = draw(st.sampled_from([1, 2, 2, 3, 3]))
    msgs = [draw(msg_specs(tier)) for _ in range(n)]
    net = draw(st.sampled_from(NETS))
    total = sum(msg_len(m) for m in msgs)
    big = total > 6000
    kinds = ["fixed", "random", "near-bounds", "near-bounds", "random-tail", "whole"]
    if not big:
        kinds += ["ones", "ones"]
    kind = draw(st.sampled_from(kinds))
    chunks, tail = [], 0
    if kind == "ones":
        tail = 1
    elif kind == "fixed":
        tail = draw(st.sampled_from([536, 1460, 4096, 65536])) if big else draw(st.integers(1, 40))
    elif kind in ("random", "random-tail"):
        hi = 20000 if big else 60
        chunks = draw(st.lists(st.integers(1, hi), min_size=1, max_size=40))
        if kind == "random-tail":
            tail = draw(st.sampled_from([1460, 4096])) if big else draw(st.sampled_from([1, 2, 7, 23, 24, 25]))
    elif kind == "near-bounds":
        cand = set()
        s = 0
        for m in msgs:
            e = s + msg_len(m)
            for d in (-1, 0, 1, 3, 4, 5, 15, 16, 17, 19, 20, 21, 23, 24, 25):
                cand.add(s + d)
            cand.update((e - 2, e - 1, e + 1, (s + 24 + e) // 2))
            s = e
        cand = sorted(c for c in cand if 0 < c < total)
        picks = sorted(set(draw(st.lists(st.sampled_from(cand), min_size=1, max_size=8)))) if cand else []
        prev = 0
        for c in picks:
            chunks.append(c - prev)
            prev = c
    return {"kind": kind, "net": net, "msgs": msgs, "chunks": chunks, "tail": tail}


# ---------------------------------------------------------------- targets: corruption, eof


def build_stream(case):
    net_magic = ref.MAGIC[case["net"]]
    frames = []
    for m in case["msgs"]:
        magic = bx(m["magic"]) if "magic" in m else net_magic
        frames.append(ref.frame(magic, m["cmd"].encode("ascii"), payload_of(m)))
    return frames


def locate(frames, byte_index):
    s = 0
    for i, fr in enumerate(frames):
        if byte_index < s + len(fr):
            return i, byte_index - s
        s += len(fr)
    raise ValueError("offset outside stream")


def check_fault(case):
    p2p = _lib()
    f = Fails()
    cls = []
    frames = build_stream(case)
    stream = b"".join(frames)
    magic = ref.MAGIC[case["net"]]
    fault = case["fault"]
    kind = fault["kind"]
    err_prefix, flipped_command_at = "corrupt/other", None
    if kind == "flip":
        bit = fault["bit"]
        mi, off = locate(frames, bit // 8)
        field = ref.field_at(off)
        mutated = bytearray(stream)
        mutated[bit // 8] ^= 1 << (bit % 8)
        mutated = bytes(mutated)
        start = sum(len(x) for x in frames[:mi])
        if field == "length":
            old = struct.unpack("<I", stream[start + 16 : start + 20])[0]
            new = struct.unpack("<I", mutated[start + 16 : start + 20])[0]
            field = "length-larger" if new > old else "length-smaller"
            if new > old:
                cls.append("nt:flip-length-larger-past-eof" if start + 24 + new > len(stream) else "nt:flip-length-larger-within-stream")
        cls.append("nt:flip-" + field)
        cls.append(f"flip-in-message-{mi}-of-{len(frames)}")
        err_prefix = "corrupt/flip-" + field
        flipped_command_at = mi if field == "command" else None
        stream = mutated
    elif kind == "cut":
        at = fault["at"]
        stream = stream[:at]
        err_prefix = "eof"
    elif kind == "magic":
        err_prefix = "corrupt/wrong-magic"

    def prefix_for(i, ok):
        if not ok:
            return err_prefix
        if i == flipped_command_at:
            return "corrupt/flip-command"
        return ("eof" if kind == "cut" else "corrupt") + "/intact-message"

    # classify by the reference's decision
    pos, verdict = 0, "expect-all-received"
    for i in range(len(frames)):
        r = ref.receive(stream, pos, magic)
        if not r["ok"]:
            verdict = "expect-error:" + "+".join(r["why"])
            if kind == "cut":
                w = r["why"][0]
                if w == "eof-at-start":
                    cls.append("nt:eof-before-any-byte" if pos == 0 else "nt:eof-at-message-boundary")
                else:
                    cls.append("nt:eof-mid-header" if w == "eof-in-header" else "nt:eof-mid-payload")
            if kind == "magic":
                cls.append("nt:wrong-magic")
            break
        pos = r["end"]
    else:
        if kind == "magic":
            cls.append("magic-matches-network")
    cls.append(verdict)
    cls.append("delivery-" + ("whole" if not case.get("tail") else f"{case['tail']}-byte"))
    with _Net(p2p, case["net"], f) as ok:
        if ok:
            drive(p2p, stream, magic, len(frames), case.get("chunks", []), case.get("tail", 0), f, prefix_for)
    return cls, f


_INV1 = {"cmd": "inv", "fill": "0101000000" + "ab" * 31 + "cd", "size": 37}
_TRIPLES = [[_PING8, _VERACK, _INV1]]
_TRIPLES_THOROUGH = [
    [{"cmd": "getheaders", "fill": "7f1101000011223344", "size": 69}, {"cmd": "pong", "fill": "00", "size": 8}, {"cmd": "tx", "fill": "01", "size": 1}],
    [{"cmd": "version", "fill": "7f110100", "size": 102}, _VERACK, {"cmd": "addr", "fill": "01e215104d01", "size": 31}],
]


def _rotations(tier):
    triples = _TRIPLES if tier == "quick" else _TRIPLES + _TRIPLES_THOROUGH
    for t in triples:
        orders = [t[i:] + t[:i] for i in range(3)]
        if tier != "quick":
            orders += [list(reversed(o)) for o in orders]
        for j, o in enumerate(orders):
            yield NETS[j % 3], o


def enum_corruption(tier):
    tails = [0, 1] if tier == "quick" else [0, 1, 5]
    for net, msgs in _rotations(tier):
        total = sum(msg_len(m) for m in msgs)
        for bit in range(8 * total):
            for tail in tails:
                yield {"net": net, "msgs": msgs, "fault": {"kind": "flip", "bit": bit}, "tail": tail}
    # configured network x magic on the wire (the three networks, and near misses), at each position of the stream
    near = ["d9b4bef9", "00000000", "f9beb4d8", "fabfb5d9", "ffffffff"]
    for net in NETS:
        for wire_magic in [ref.MAGIC[n].hex() for n in NETS] + near:
            for where in range(3):
                msgs = [dict(m) for m in _TRIPLES[0]]
                msgs[where]["magic"] = wire_magic
                for tail in (0, 1):
                    yield {"net": net, "msgs": msgs, "fault": {"kind": "magic"}, "tail": tail}


def enum_eof(tier):
    tails = [0, 1] if tier == "quick" else [0, 1, 5]
    streams = list(_rotations(tier))
    streams.append(("mainnet", [{"cmd": "block", "fill": "000102030405060708090a0b0c0d0e0f1011", "size": 300}]))
    if tier != "quick":
        streams.append(("testnet", [{"cmd": "headers", "fill": "5a", "size": 1000}, _PING8]))
    for net, msgs in streams:
        total = sum(msg_len(m) for m in msgs)
        for at in range(total):
            for tail in tails:
                yield {"net": net, "msgs": msgs, "fault": {"kind": "cut", "at": at}, "tail": tail}


# ---------------------------------------------------------------- target: codecs


def derive(seed: bytes, i: int, n: int = 32) -> bytes:
    return hashlib.sha256(seed + struct.pack("<I", i)).digest()[:n]


def as_bytes(v):
    if isinstance(v, (bytes, bytearray)):
        return bytes(v)
    if isinstance(v, str):
        try:
            return bytes.fromhex(v)
        except ValueError:
            return None
    return None


def ip_matches(v, raw):
    if isinstance(v, (bytes, bytearray)):
        return bytes(v) == raw
    if isinstance(v, str):
        try:
            if v.encode("latin-1") == raw:
                return True
        except UnicodeEncodeError:
            pass
        try:
            ip = ipaddress.ip_address(v)
        except ValueError:
            return False
        packed = ip.packed if ip.version == 6 else bytes(10) + b"\xff\xff" + ip.packed
        return packed == raw
    return False


def text_matches(v, raw):
    if isinstance(v, (bytes, bytearray)):
        return bytes(v) == raw
    if isinstance(v, str):
        try:
            return v.encode("latin-1") == raw
        except UnicodeEncodeError:
            return False
    return False


def int_eq(v, want):
    return isinstance(v, int) and v == want


class _Clock:
    def __init__(self, value):
        self.value = value
        self.calls = 0

    def time(self):
        self.calls += 1
        return self.value


def form_suffix(n):
    return "/count>=65536" if n >= 65536 else ""


def count_classes(name, n):
    cls = []
    if n == 0:
        cls.append(f"nt:{name}-count-0")
    if n in (252, 253):
        cls.append(f"nt:{name}-count-{n}")
    if n >= 253:
        cls.append(f"nt:{name}-count>=253")
    if n >= 65536:
        cls.append(f"nt:{name}-count>=65536")
    return cls


_VERSION_INT_KEYS = [
    ("protocol_version", "protocol_version"),
    ("services", "services"),
    ("timestamp", "timestamp"),
    ("addr_recv_services", "addr_recv_services"),
    ("addr_recv_port", "addr_recv_port"),
    ("addr_trans_services", "addr_trans_services"),
    ("addr_trans_port", "addr_trans_port"),
    ("nonce", "nonce"),
    ("start_height", "start_height"),
]


def _compare_version(f, parsed, R, ua_class):
    sfx = "/" + ua_class
    if raised(parsed) or not isinstance(parsed, dict):
        f.add("codec/version/parse-failed" + sfx, f"{parsed!r}"[:200])
        return
    for key, rk in _VERSION_INT_KEYS:
        f.expect(int_eq(parsed.get(key), R[rk]), f"codec/version/{key}-ne-built" + sfx, f"parsed {parsed.get(key, '<missing>')!r} built from {R[rk]!r}")
    for key, rk in (("addr_recv_ip_addr", "addr_recv_ip"), ("addr_trans_ip_addr", "addr_trans_ip")):
        f.expect(ip_matches(parsed.get(key), R[rk]), f"codec/version/{key}-ne-built" + sfx, f"parsed {parsed.get(key, '<missing>')!r} built {R[rk].hex()}")
    ua = R["user_agent"]
    if ua or "user_agent" in parsed:
        f.expect(text_matches(parsed.get("user_agent"), ua), "codec/version/user_agent-ne-built" + sfx, f"parsed {parsed.get('user_agent', '<missing>')!r} built {ua!r}")
    if "user_agent_bytes" in parsed:
        f.expect(int_eq(parsed["user_agent_bytes"], len(ua)), "codec/version/user_agent_bytes-ne-built" + sfx, f"{parsed['user_agent_bytes']!r} vs {len(ua)}")
    got = parsed.get("relay", "<missing>")
    f.expect(
        isinstance(got, (bool, int)) and not isinstance(got, str) and got == R["relay"],
        "codec/version/relay-ne-built" + sfx,
        f"parsed relay {got!r}, built with relay={R['relay']!r}",
    )


def check_version(p2p, case, f, cls):
    t = case["time"]
    tv = t + 0.25 if case.get("frac") else float(t) if case.get("float") else t
    args = (case["start_height"], case["recv_port"], case["trans_port"])
    explicit = not case.get("defaults")
    kwargs = dict(protocol_version=case["pv"], services=case["services"], relay=bool(case["relay"])) if explicit else {}
    relay = bool(case["relay"]) if explicit else None
    if explicit:
        cls.append("nt:version-relay-false" if not relay else "version-relay-true")
    else:
        cls.append("version-default-arguments")
    for k in ("start_height", "recv_port", "trans_port", "pv", "services", "time"):
        v = case[k]
        if v == 0 or (v & (v + 1)) == 0 or (v & (v - 1)) == 0:
            cls.append("nt:version-boundary-field")
            break
    clock = _Clock(tv)
    saved = p2p.time
    p2p.time = clock
    try:
        built = attempt(p2p.version_payload, *args, **kwargs)
    finally:
        p2p.time = saved
    if not isinstance(built, (bytes, bytearray)):
        f.add("codec/version/build-failed", f"{built!r}"[:200])
        return
    built = bytes(built)
    try:
        R = ref.parse_version(built)
    except ref.Malformed as e:
        f.add("codec/version/build-ne-reference-layout", f"reference cannot parse built payload: {e}")
        return
    want = {"start_height": args[0], "addr_recv_port": args[1], "addr_trans_port": args[2]}
    if clock.calls:
        want["timestamp"] = int(tv)
    else:  # the builder no longer reads bits.p2p.time.time(): the timestamp is then only checked parse-vs-payload
        cls.append("version-clock-stub-unused")
    if explicit:
        want.update(protocol_version=case["pv"], services=case["services"], relay=relay)
    # the transmitting node's address entry carries the same service bits as the services field (protocol reference:
    # "addr_trans services ... should be identical to the services field"); both come from the one `services` argument
    want["addr_trans_services"] = case["services"] if explicit else R["services"]
    bad = {k: (R[k], v) for k, v in want.items() if R[k] != v}
    f.expect(not bad and ref.build_version(R) == built, "codec/version/build-ne-reference-layout", f"(field: (in payload, argument)) {bad}")
    if R["relay"] is None or bad:
        return
    cls.append("version-user-agent-present" if R["user_agent"] else "version-user-agent-empty-as-built")
    _compare_version(f, attempt_owned(f, "codec/version/parse-differs-after-caller-edited-earlier-result", p2p.parse_version_payload, built), R, "user-agent-present" if R["user_agent"] else "user-agent-empty")
    if R["user_agent"]:
        # same payload with the user-agent segment replaced by the empty string
        emptied = built[: R["user_agent_offset"]] + b"\x00" + built[R["user_agent_end"] :]
        R2 = dict(R, user_agent=b"")
        assert ref.build_version(R2) == emptied
        cls.append("nt:version-user-agent-emptied")
        _compare_version(f, attempt(p2p.parse_version_payload, emptied), R2, "user-agent-empty")
    n = case.get("ua_len")
    if n is not None:
        # same payload with a user agent of another length (the builder has a fixed one; the field is a var_str of up
        # to 256 bytes, so its length prefix crosses the 1-byte / 3-byte CompactSize boundary at 253)
        ua = (b"/ua:" + bytes(48 + (i * 7 + n) % 75 for i in range(n)))[:n]
        R3 = dict(R, user_agent=ua)
        resized = ref.build_version(R3)
        assert ref.parse_version(resized)["user_agent"] == ua
        cls.append("nt:version-user-agent-len>=253" if n >= 253 else "nt:version-user-agent-len<253")
        _compare_version(f, attempt(p2p.parse_version_payload, resized), R3, "user-agent-len>=253" if n >= 253 else "user-agent-resized")


def _hash_list(v):
    if not isinstance(v, (list, tuple)):
        return None
    return [as_bytes(x) for x in v]


def check_getheaders(p2p, case, f, cls):
    n = case["n"]
    seed = bx(case["seed"])
    hashes = [derive(seed, i) for i in range(n)]
    stop = bytes(32) if case["stop"] == "zero" else derive(seed, 0xFFFFFFFF)
    pv = case["pv"]
    cls.extend(count_classes("getheaders", n))
    cls.append("getheaders-stop-" + ("zero" if case["stop"] == "zero" else "hash"))
    sfx = form_suffix(n)
    built = attempt_twice(f, "codec/getheaders/second-build-with-same-arguments-differs", p2p.getheaders_payload, pv, n, hashes, stop)
    want = ref.build_getheaders(pv, hashes, stop)
    if not f.expect(isinstance(built, (bytes, bytearray)) and bytes(built) == want, "codec/getheaders/build-ne-reference-layout" + sfx, f"got {short(built, 48)} want {short(want, 48)}"):
        if not isinstance(built, (bytes, bytearray)):
            return
    parsed = attempt_owned(f, "codec/getheaders/parse-differs-after-caller-edited-earlier-result", p2p.parse_getheaders_payload, bytes(built))
    if raised(parsed) or not isinstance(parsed, dict):
        f.add("codec/getheaders/parse-failed" + sfx, f"count {n}: {parsed!r}"[:200])
        return
    f.expect(int_eq(parsed.get("protocol_version"), pv), "codec/getheaders/protocol_version-ne-built" + sfx, f"{parsed.get('protocol_version')!r} vs {pv}")
    if not f.expect(int_eq(parsed.get("hash_count"), n), "codec/getheaders/hash_count-ne-built" + sfx, f"parsed {parsed.get('hash_count')!r}, built with {n} hashes"):
        return  # every later offset depends on the count
    got = _hash_list(parsed.get("block_header_hashes", [] if n == 0 else None))
    if got != hashes:
        if got is None:
            d = f"block_header_hashes is {parsed.get('block_header_hashes', '<missing>')!r}"[:200]
        else:
            i = next((i for i in range(min(len(got), n)) if got[i] != hashes[i]), min(len(got), n))
            d = f"{len(got)} hashes parsed, {n} built; first difference at index {i}: parsed {short(got[i]) if i < len(got) else '<none>'} built {short(hashes[i]) if i < n else '<none>'}; last parsed {short(got[-1]) if got else '<none>'}"
        f.add("codec/getheaders/block_header_hashes-ne-built" + sfx, d)
    f.expect(as_bytes(parsed.get("stop_hash")) == stop, "codec/getheaders/stop_hash-ne-built" + sfx, f"{parsed.get('stop_hash')!r} vs {stop.hex()}")


_INV_NAMES = list(ref.INV_TYPES)


def check_inv(p2p, case, f, cls):
    n = case["n"]
    seed = bx(case["seed"])
    types = case["types"]
    items = [(_INV_NAMES[types[i % len(types)]], derive(seed, i)) for i in range(n)]
    cls.extend(count_classes("inv", n))
    for t in sorted(set(name for name, _ in items)):
        cls.append("inv-type-" + t)
    if len(set(name for name, _ in items)) == 6:
        cls.append("nt:inv-all-six-types")
    sfx = form_suffix(n)
    invs = []
    for i, (name, h) in enumerate(items):
        arg = name.lower() if case.get("lower") else name
        b = attempt(p2p.inventory, arg, h)
        want = struct.pack("<I", ref.INV_TYPES[name]) + h
        if not (isinstance(b, (bytes, bytearray)) and bytes(b) == want):
            f.add("codec/inv/inventory-ne-reference-layout", f"{arg}: got {short(b, 40)} want {short(want, 40)}")
            return
        invs.append(bytes(b))
    if invs:
        one = attempt(p2p.parse_inventory, invs[0])
        ok = isinstance(one, dict) and str(one.get("type_id", "")).upper() == items[0][0] and as_bytes(one.get("hash")) == items[0][1]
        f.expect(ok, "codec/inv/parse_inventory-ne-built", f"{one!r} built from {items[0][0]} {items[0][1].hex()}"[:300])
    built = attempt_twice(f, "codec/inv/second-build-with-same-arguments-differs", p2p.inv_payload, n, invs)
    want = ref.build_inv([(ref.INV_TYPES[name], h) for name, h in items])
    if not f.expect(isinstance(built, (bytes, bytearray)) and bytes(built) == want, "codec/inv/build-ne-reference-layout" + sfx, f"got {short(built, 48)} want {short(want, 48)}"):
        if not isinstance(built, (bytes, bytearray)):
            return
    parsed = attempt_owned(f, "codec/inv/parse-differs-after-caller-edited-earlier-result", p2p.parse_inv_payload, bytes(built))
    if raised(parsed) or not isinstance(parsed, dict):
        f.add("codec/inv/parse-failed" + sfx, f"count {n}: {parsed!r}"[:200])
        return
    if not f.expect(int_eq(parsed.get("count"), n), "codec/inv/count-ne-built" + sfx, f"parsed {parsed.get('count')!r} built {n}"):
        return
    got = parsed.get("inventory")
    if not isinstance(got, (list, tuple)) or len(got) != n:
        f.add("codec/inv/inventory-ne-built" + sfx, f"{n} built, parsed {len(got) if isinstance(got, (list, tuple)) else got!r}")
        return
    for i, (g, (name, h)) in enumerate(zip(got, items)):
        if not (isinstance(g, dict) and str(g.get("type_id", "")).upper() == name):
            f.add("codec/inv/type_id-ne-built" + sfx, f"entry {i}: parsed {g!r} built {name}"[:300])
            break
        if as_bytes(g.get("hash")) != h:
            f.add("codec/inv/hash-ne-built" + sfx, f"entry {i}: parsed {g.get('hash')!r} built {h.hex()}"[:300])
            break


def check_addr(p2p, case, f, cls):
    entries = [(t, bx(s), bx(ip), port) for t, s, ip, port in case["explicit"]]
    seed = bx(case["seed"])
    for i in range(case.get("extra", 0)):
        d = derive(seed, i) + derive(seed, i + (1 << 20))
        entries.append((int.from_bytes(d[0:4], "little"), d[4:12], d[12:28], int.from_bytes(d[28:30], "big")))
    n = len(entries)
    cls.extend(count_classes("addr", n))
    if any(t in (0, 2**32 - 1) or p in (0, 65535) for t, _, _, p in entries):
        cls.append("nt:addr-boundary-time-or-port")
    sfx = form_suffix(n)
    nets = []
    for t, s, ip, port in entries:
        b = attempt(p2p.network_ip_addr, t, s, ip, port)
        want = struct.pack("<I", t) + s + ip + struct.pack(">H", port)
        if not (isinstance(b, (bytes, bytearray)) and bytes(b) == want):
            f.add("codec/addr/network_ip_addr-ne-reference-layout", f"got {short(b, 40)} want {short(want, 40)}")
            return
        nets.append(bytes(b))
    built = attempt_twice(f, "codec/addr/second-build-with-same-arguments-differs", p2p.addr_payload, n, nets)
    want = ref.build_addr(entries)
    if not f.expect(isinstance(built, (bytes, bytearray)) and bytes(built) == want, "codec/addr/build-ne-reference-layout" + sfx, f"got {short(built, 48)} want {short(want, 48)}"):
        if not isinstance(built, (bytes, bytearray)):
            return
    parsed = attempt_owned(f, "codec/addr/parse-differs-after-caller-edited-earlier-result", p2p.parse_addr_payload, bytes(built))
    if raised(parsed) or not isinstance(parsed, dict):
        f.add("codec/addr/parse-failed" + sfx, f"count {n}: {parsed!r}"[:200])
        return
    got = parsed.get("addrs")
    if not isinstance(got, (list, tuple)) or len(got) != n:
        f.add("codec/addr/count-ne-built" + sfx, f"{n} built, parsed {len(got) if isinstance(got, (list, tuple)) else got!r}")
        return
    for i, (g, (t, s, ip, port)) in enumerate(zip(got, entries)):
        if not isinstance(g, dict):
            f.add("codec/addr/entry-ne-built" + sfx, f"entry {i}: {g!r}"[:200])
            break
        bad = None
        if not int_eq(g.get("time"), t):
            bad = "time"
        elif as_bytes(g.get("services")) != s:
            bad = "services"
        elif not ip_matches(g.get("ip_addr"), ip):
            bad = "ip_addr"
        elif not int_eq(g.get("port"), port):
            bad = "port"
        if bad:
            f.add(f"codec/addr/{bad}-ne-built" + sfx, f"entry {i}: parsed {g!r} built {(t, s.hex(), ip.hex(), port)}"[:400])
            break


def check_ping(p2p, case, f, cls):
    nonce = case["nonce"]
    if nonce in (0, 2**32 - 1, 2**32, 2**63, 2**64 - 1) or nonce >= 2**56:
        cls.append("nt:ping-nonce-boundary-or-8-byte")
    built = attempt(p2p.ping_payload, nonce)
    want = ref.build_ping(nonce)
    if not f.expect(isinstance(built, (bytes, bytearray)) and bytes(built) == want, "codec/ping/build-ne-reference-layout", f"nonce {nonce}: got {short(built)} want {want.hex()}"):
        if not isinstance(built, (bytes, bytearray)):
            return
    parsed = attempt_owned(f, "codec/ping/parse-differs-after-caller-edited-earlier-result", p2p.parse_ping_payload, bytes(built))
    ok = isinstance(parsed, dict) and int_eq(parsed.get("nonce"), nonce)
    f.expect(ok, "codec/ping/nonce-ne-built", f"parsed {parsed!r} built from {nonce}"[:200])


_CODECS = {"version": check_version, "getheaders": check_getheaders, "inv": check_inv, "addr": check_addr, "ping": check_ping}


def check_codec(case):
    p2p = _lib()
    f = Fails()
    cls = ["codec-" + case["codec"]]
    _CODECS[case["codec"]](p2p, case, f, cls)
    return sorted(set(cls)), f


@st.composite
def codec_cases(draw, tier):
    q = tier == "quick"
    kind = draw(st.sampled_from(["version"] * 3 + ["getheaders"] * 3 + ["inv"] * 2 + ["addr"] * 2 + ["ping"]))
    seed = hx(draw(st.binary(min_size=1, max_size=8)))
    if kind == "version":
        t = draw(st.one_of(st.sampled_from([0, 1, 2**31 - 1, 2**31, 2**32 - 1, 2**32, 2**63 - 1, 1700000000]), st.integers(0, 2**63 - 1)))
        case = {
            "codec": "version",
            "start_height": draw(I31),
            "recv_port": draw(U16),
            "trans_port": draw(U16),
            "pv": draw(U32),
            "services": draw(U64),
            "relay": draw(st.sampled_from([0, 1])),
            "time": t,
        }
        n = draw(st.sampled_from([None, None, 1, 11, 75, 252, 253, 254, 255, 256]))
        if n is not None:
            case["ua_len"] = n
        if t < 2**50:
            mode = draw(st.sampled_from(["int", "float", "frac"]))
            if mode != "int":
                case[mode] = 1
        if draw(st.integers(0, 9)) == 0:
            case["defaults"] = 1
        return case
    if kind == "getheaders":
        counts = [st.sampled_from([0, 1, 2, 3, 252, 253, 254, 300]), st.integers(0, 40)]
        big = [65536] if q else [65535, 65536, 65537, 70000]
        n = draw(st.one_of(*counts)) if draw(st.sampled_from(range(40 if q else 12))) else draw(st.sampled_from(big))
        return {"codec": "getheaders", "pv": draw(U32), "n": n, "seed": seed, "stop": draw(st.sampled_from(["zero", "hash"]))}
    if kind == "inv":
        counts = [st.sampled_from([0, 1, 2, 6, 252, 253, 254, 300]), st.integers(0, 40)]
        n = draw(st.one_of(*counts))
        if not q and draw(st.sampled_from(range(60))) == 0:
            n = draw(st.sampled_from([65535, 65536]))
        types = draw(st.one_of(st.just([0, 1, 2, 3, 4, 5]), st.lists(st.integers(0, 5), min_size=1, max_size=6)))
        case = {"codec": "inv", "n": n, "seed": seed, "types": types}
        if draw(st.integers(0, 4)) == 0:
            case["lower"] = 1
        return case
    if kind == "addr":
        k = draw(st.sampled_from([0, 0, 1, 1, 2]) | st.integers(1, 30))  # an addr message may carry no entry at all
        explicit = []
        for _ in range(k):
            explicit.append([
                draw(st.one_of(st.sampled_from([0, 1, 2**31, 2**32 - 1]), st.integers(0, 2**32 - 1))),
                hx(draw(st.binary(min_size=8, max_size=8))),
                hx(draw(st.one_of(st.binary(min_size=16, max_size=16), st.binary(min_size=4, max_size=4).map(lambda b: bytes(10) + b"\xff\xff" + b)))),
                draw(U16),
            ])
        extra = 0
        if draw(st.integers(0, 5)) == 0:
            extra = max(0, draw(st.sampled_from([252, 253, 254, 1000])) - k)
        return {"codec": "addr", "explicit": explicit, "seed": seed, "extra": extra}
    nonce = draw(st.one_of(st.sampled_from([0, 1, 255, 256, 2**32 - 1, 2**32, 2**63, 2**64 - 1]), st.integers(0, 2**64 - 1)))
    return {"codec": "ping", "nonce": nonce}


# ---------------------------------------------------------------- targets


def targets(tier):
    return [
        Target(
            "fragmentation-transitions",
            check_frag,
            enumerate_=enum_transitions,
            exhaustive=True,
            required=["nt:cut-in-header", "nt:cut-in-payload", "nt:chunk-spans-boundary", "nt:back-to-back-3"],
        ),
        Target(
            "fragmentation-compositions",
            check_frag,
            enumerate_=enum_compositions,
            exhaustive=True,
            required=["nt:cut-in-header", "nt:cut-in-payload", "nt:back-to-back-2", "nt:back-to-back-3", "nt:chunk-spans-boundary", "no-cut"],
        ),
        Target("large-frames", check_frag, enumerate_=enum_large_frames, exhaustive=True, required=["payload>1000", "nt:back-to-back-2"]),
        Target(
            "fragmentation",
            check_frag,
            strategy=lambda tier: frag_cases(tier),
            budget={"quick": 4000, "thorough": 120000},
            required=[
                "nt:cut-in-header", "nt:cut-in-payload", "nt:back-to-back-2", "nt:back-to-back-3", "nt:chunk-spans-boundary",
                "all-1-byte", "single-message", "payload-empty", "payload<=1000", "nt:foreign-command-12-chars", "nt:foreign-command",
            ] + (["payload>1000"] if tier != "quick" else []),
        ),
        Target(
            "corruption",
            check_fault,
            enumerate_=enum_corruption,
            exhaustive=True,
            required=[
                "nt:flip-magic", "nt:flip-command", "nt:flip-length-larger", "nt:flip-length-smaller", "nt:flip-checksum", "nt:flip-payload",
                "nt:flip-length-larger-past-eof", "nt:flip-length-larger-within-stream", "nt:wrong-magic", "magic-matches-network",
                "expect-all-received",
            ],
        ),
        Target(
            "eof",
            check_fault,
            enumerate_=enum_eof,
            exhaustive=True,
            required=["nt:eof-before-any-byte", "nt:eof-mid-header", "nt:eof-mid-payload", "nt:eof-at-message-boundary"],
        ),
        Target(
            "codecs",
            check_codec,
            strategy=lambda tier: codec_cases(tier),
            budget={"quick": 5000, "thorough": 100000},
            required=[
                "nt:version-relay-false", "version-relay-true", "nt:version-user-agent-emptied", "nt:version-user-agent-len>=253", "nt:version-user-agent-len<253", "nt:getheaders-count>=253",
                "nt:getheaders-count>=65536", "nt:getheaders-count-0", "nt:inv-count>=253", "nt:inv-count-0", "nt:inv-all-six-types", "nt:addr-count>=253", "nt:addr-count-0",
                "nt:ping-nonce-boundary-or-8-byte", "codec-version", "codec-getheaders", "codec-inv", "codec-addr", "codec-ping",
            ],
        ),
    ]
