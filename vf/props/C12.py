"""C12 — BIP340 Schnorr signatures are the specified ones; only valid ones accepted."""
import hashlib

from hypothesis import strategies as st

from vf import gen
from vf.core import Fails, Target, attempt, bx, hx, raised
from vf.ref import ec
from vf.ref import schnorr as ref

PROPERTY = "C12"
LEVEL = "exploration"
RULE = (
    "sign: secret keys from boundary-biased scalars in [1,n-1] (1, n-1, leading-zero keys, about half with an odd-y "
    "public point), messages of 0..1024 bytes (lengths biased to 0/1/31/32/33/63/64/65/100/1024), aux = zeros / ones / "
    "random 32 bytes: lib signature must equal the independent BIP340 reference signature byte for byte, lib pubkey must "
    "equal the reference x-only key and lib verify must accept the signature; aux omitted (scripted RNG): two calls must "
    "both return signatures the reference verifier accepts; keys whose integer value is 0 or >= n (32 bytes and other "
    "lengths) must be refused; in-range keys of other byte lengths are only observed. "
    "verify: triples built by construction with the reference signer (default nonce or a drawn nonce), then one of: "
    "nothing, single-bit flip in pk/msg/r/s at a drawn position, r in {0,1,p-1,p,p+1,2^256-1}, s in {0,1,n-1,n,n+1,2^256-1}, "
    "pk off the curve, pk >= p, s -> n-s, R with odd y (nonce not negated), key not negated for an odd-y point, sG-eP at "
    "infinity, other key (incl. the negated key, same x-only pk), other message, byte edits, and length variants: triples are searched with the fast reference "
    "(incremental point walk) until pk, r or s starts with 0x00 and that byte is dropped, or bytes are "
    "prepended/inserted/appended/truncated. The lib verdict (accept = returns 'OK'/True, reject = exception or anything "
    "else) must equal the reference verdict, which requires len(pk)=32 and len(sig)=64. verify-boundary: the same "
    "boundary values and length variants enumerated deterministically on fixed triples. fixed-corpus: the 19 official "
    "vectors (embedded copy). Non-trivial: odd-y key or nonce, message length != 32, omitted aux, a mutation that changed "
    "the triple, or a wrong-length input. Distinct = distinct canonical case encodings."
)
ASSUMPTIONS = [
    "vf/ref/schnorr.py + vf/ref/ec.py (written from BIP340/SEC2, reproducing all 19 official vectors) and hashlib.sha256 are correct",
    "verification accepts exactly when bits.bips.bip340.verify returns 'OK' (or True); any exception or other return value is a rejection",
    "refusal of a secret key means any exception",
    "aux randomness is 32 bytes when given; keys are passed as bytes (big-endian), 32 bytes unless the case says otherwise",
]
SELFCHECKS = [ec.selfcheck, ref.selfcheck]

N = ref.N
P = ref.P
G = ref.G
MSG_LENS = [0, 1, 31, 32, 32, 32, 33, 55, 56, 63, 64, 65, 100, 1024]


def _lib():
    from bits.bips import bip340

    return bip340


def _accepted(res):
    return (not raised(res)) and (res is True or (isinstance(res, str) and res == "OK"))


class _ScriptedSecrets:
    """Deterministic stand-in for the `secrets` module seen by bip340 (omitted-aux cases)."""

    def __init__(self, seed: bytes):
        self._seed = seed
        self._ctr = 0
        self.calls = 0

    def _take(self, n):
        out = b""
        while len(out) < n:
            out += hashlib.sha256(self._seed + self._ctr.to_bytes(4, "big")).digest()
            self._ctr += 1
        self.calls += 1
        return out[:n]

    def token_bytes(self, nbytes=32):
        return self._take(32 if nbytes is None else nbytes)

    def token_hex(self, nbytes=32):
        return self.token_bytes(nbytes).hex()

    def randbits(self, k):
        return int.from_bytes(self._take((k + 7) // 8 + 1), "big") % (1 << k)

    def randbelow(self, n):
        return int.from_bytes(self._take((n.bit_length() + 7) // 8 + 8), "big") % n

    def choice(self, seq):
        return seq[self.randbelow(len(seq))]

    def __getattr__(self, name):
        import secrets as real

        return getattr(real, name)


# ---------------------------------------------------------------- sign


def _search_aux(d0, pt, msg, seed, what):
    """First aux = SHA256(seed || i) for which the named intermediate value of BIP340 default signing starts with a zero
    byte: t (masked key), rand (nonce hash), Rx, e (challenge), s."""
    px = pt[0]
    d = d0 if pt[1] % 2 == 0 else N - d0
    for i in range(6000):
        aux = hashlib.sha256(seed + i.to_bytes(4, "big")).digest()
        t = ref.b32(d ^ int.from_bytes(ref.tagged_hash("BIP0340/aux", aux), "big"))
        if what == "t":
            if t[0] == 0:
                return aux
            continue
        rand = ref.tagged_hash("BIP0340/nonce", t + ref.b32(px) + msg)
        if what == "rand":
            if rand[0] == 0:
                return aux
            continue
        k0 = int.from_bytes(rand, "big") % N
        if k0 == 0:
            continue
        R = ec.mul(k0, G)
        if what == "Rx":
            if ref.b32(R[0])[0] == 0:
                return aux
            continue
        e = ref.challenge(R[0], px, msg)
        if what == "e":
            if ref.b32(e)[0] == 0:
                return aux
            continue
        k = k0 if R[1] % 2 == 0 else N - k0
        if ref.b32((k + e * d) % N)[0] == 0:
            return aux
    return None



def _len_class(n):
    if n == 0:
        return "nt:msg-len-0"
    if n == 32:
        return "msg-len-32"
    return "nt:msg-len-lt-32" if n < 32 else "nt:msg-len-gt-32"


def check_sign(case):
    lib = _lib()
    f = Fails()
    cls = []
    kb = bx(case["key"])
    msg = bx(case["msg"])
    aux = None if case.get("aux") is None else bx(case["aux"])
    d = int.from_bytes(kb, "big")
    cls.append(_len_class(len(msg)))

    if d == 0 or d >= N:
        # secret keys 0 or >= n are refused, however the bytes are laid out
        which = "zero" if d == 0 else "ge-n"
        cls.append(f"nt:refuse-key-{which}")
        cls.append("key-32-bytes" if len(kb) == 32 else "nt:refuse-key-len-ne-32")
        res = attempt(lib.sign, kb, msg, aux if aux is not None else bytes(32))
        f.expect(raised(res), f"sign/accepts-invalid-key/{which}", f"key of {len(kb)} bytes, returned {res!r}")
        return cls, f

    if len(kb) != 32:
        # the statement does not say what happens to an in-range integer in a non-32-byte array: observe only
        res = attempt(lib.sign, kb, msg, aux if aux is not None else bytes(32))
        if raised(res):
            out = "raised"
        elif res == ref.sign(d, msg, aux if aux is not None else bytes(32)):
            out = "returned-reference-signature-of-integer"
        else:
            out = "returned-other"
        cls.append(f"nt:obs-key-len-{'lt' if len(kb) < 32 else 'gt'}-32/{out}")
        return cls, f

    pt = ec.mul(d, G)
    pk = ref.b32(pt[0])
    odd_p = pt[1] % 2 == 1
    cls.append("nt:odd-y-key" if odd_p else "even-y-key")
    if kb[0] == 0:
        cls.append("nt:key-leading-zero")
    if d in (1, N - 1):
        cls.append("nt:key-boundary")

    if aux is None:
        cls.append("nt:aux-omitted")
        stub = _ScriptedSecrets(bx(case.get("rng", "00")))
        saved = getattr(lib, "secrets", None)
        had = hasattr(lib, "secrets")
        lib.secrets = stub
        try:
            outs = [attempt(lib.sign, kb, msg), attempt(lib.sign, kb, msg), attempt(lib.sign, kb, msg, None)]
        finally:
            if had:
                lib.secrets = saved
            else:
                del lib.secrets
        par = "odd-y-key" if odd_p else "even-y-key"
        for res in outs:
            if not f.expect(not raised(res), f"sign/aux-omitted/raises/{par}", f"{res!r}"):
                continue
            ok = isinstance(res, (bytes, bytearray)) and ref.verify(pk, msg, bytes(res))
            f.expect(ok, f"sign/aux-omitted/invalid-signature/{par}", f"{res!r}")
        if all(isinstance(r, (bytes, bytearray)) for r in outs):
            # "omitted (random) aux": the randomness is drawn per signature, so repeated calls with the same key and
            # message give different signatures (whatever the source of the randomness is)
            fresh = len({bytes(r) for r in outs}) == len(outs)
            cls.append("aux-omitted/all-distinct" if fresh else "aux-omitted/repeated")
            f.expect(fresh, f"sign/aux-omitted/not-fresh/{par}", "the same signature was returned by two calls without aux")
        return cls, f

    if case.get("search"):
        # intermediate values of the signing algorithm with a leading zero byte (each has probability 1/256 under random
        # inputs): the aux value is found by trying hash-derived candidates against the reference computation
        aux = _search_aux(d, pt, msg, aux, case["search"])
        if aux is None:
            return ["search-exhausted"], f
        cls.append("nt:lead0-" + case["search"])
    if aux == bytes(32):
        cls.append("aux-zeros")
    elif aux == b"\xff" * 32:
        cls.append("aux-ones")
    else:
        cls.append("aux-random")
    exp, _, odd_r = ref.sign_info(d, msg, aux)
    cls.append("nt:odd-y-nonce" if odd_r else "even-y-nonce")
    ctx = ("oddP" if odd_p else "evenP") + "-" + ("oddR" if odd_r else "evenR")
    if case.get("pubkey_first"):
        # call order is part of the input: the x-only key is asked for (with the point as it is, odd y included) before
        # the key is first used for signing
        cls.append("nt:pubkey-before-sign")
        lpk = attempt(lib.pubkey, pt)
        got = attempt(lib.sign, kb, msg, aux)
    else:
        got = attempt(lib.sign, kb, msg, aux)
        lpk = attempt(lib.pubkey, pt)
    f.expect(not raised(lpk) and lpk == pk, "pubkey/ne-reference", f"{lpk!r} want {pk.hex()}")
    if not f.expect(not raised(got), f"sign/raises-valid-key/{ctx}", f"{got!r}"):
        return cls, f
    if not isinstance(got, (bytes, bytearray)) or bytes(got) != exp:
        refok = isinstance(got, (bytes, bytearray)) and ref.verify(pk, msg, bytes(got))
        f.add(
            f"sign/ne-reference/{ctx}",
            f"got {got.hex() if isinstance(got, (bytes, bytearray)) else got!r} want {exp.hex()} "
            f"(BIP340-valid: {refok})",
        )
        if not refok:
            return cls, f
    v = attempt(lib.verify, pk, msg, bytes(got))
    f.expect(_accepted(v), f"sign/own-signature-rejected-by-verify/{ctx}", f"{v!r}")
    return cls, f


@st.composite
def messages(draw):
    n = draw(st.sampled_from(MSG_LENS))
    how = draw(st.sampled_from(["random", "random", "zeros", "ones"]))
    if how == "zeros":
        return bytes(n)
    if how == "ones":
        return b"\xff" * n
    return draw(st.binary(min_size=n, max_size=n)) if n != 1024 else draw(st.binary(min_size=0, max_size=1024))


def keys():
    """Secret keys in [1, n-1]: boundary-biased scalars and uniformly spread 32-byte values."""
    return st.one_of(
        gen.scalars_valid(),
        gen.scalars_valid(),
        st.binary(min_size=32, max_size=32).map(lambda b: int.from_bytes(b, "big") % (N - 1) + 1),
        gen.lookalike_keys32().map(lambda b: int.from_bytes(b, "big")),  # keys whose 32 bytes read as text
    )


def auxes():
    return st.one_of(st.just(bytes(32)), st.just(b"\xff" * 32), st.binary(min_size=32, max_size=32), st.binary(min_size=32, max_size=32), gen.lookalike_keys32())


@st.composite
def sign_cases(draw):
    kind = draw(
        st.sampled_from(["sign"] * 14 + ["aux-omitted"] * 2 + ["refuse"] * 2 + ["refuse-len"] + ["keylen"])
    )
    msg = draw(messages())
    if kind == "sign":
        d = draw(keys())
        case = {"kind": kind, "key": hx(ref.b32(d)), "msg": hx(msg), "aux": hx(draw(auxes()))}
        case["pubkey_first"] = draw(st.booleans())
        mode = draw(st.sampled_from([None] * 12 + ["t", "t", "rand", "rand", "Rx", "Rx", "e", "s"]))
        if mode:
            case["search"] = mode
        return case
    if kind == "aux-omitted":
        d = draw(keys())
        return {"kind": kind, "key": hx(ref.b32(d)), "msg": hx(msg), "aux": None, "rng": hx(draw(st.binary(min_size=8, max_size=8)))}
    if kind == "refuse":
        d = draw(st.one_of(st.sampled_from([0, N, N + 1, N + 2, 2**256 - 1]), st.integers(N, 2**256 - 1)))
        aux = draw(st.one_of(st.none(), auxes()))
        return {"kind": kind, "key": hx(ref.b32(d)), "msg": hx(msg), "aux": None if aux is None else hx(aux)}
    if kind == "refuse-len":
        kb = draw(
            st.sampled_from(
                [b"", bytes(1), bytes(31), bytes(33), bytes(64), b"\x01" + bytes(32), b"\x00" + ref.b32(N), ref.b32(N) + b"\x00",
                 b"\xff" * 33, ref.b32(N - 1) + b"\x01"]
            )
        )
        return {"kind": kind, "key": hx(kb), "msg": hx(msg), "aux": hx(draw(auxes()))}
    # keylen: in-range integer laid out in a byte string that is not 32 bytes long (observed, not judged)
    how = draw(st.sampled_from(["prepend-zero", "minimal", "prepend-zeros"]))
    d = draw(gen.scalars_valid())
    if how == "prepend-zero":
        kb = b"\x00" + ref.b32(d)
    elif how == "prepend-zeros":
        kb = bytes(32) + ref.b32(d)
    else:
        d = d >> 8 or 1  # at most 31 significant bytes
        kb = d.to_bytes((d.bit_length() + 7) // 8, "big")
    return {"kind": kind + ":" + how, "key": hx(kb), "msg": hx(msg), "aux": hx(draw(auxes()))}


# ---------------------------------------------------------------- verify


def check_verify(case):
    lib = _lib()
    f = Fails()
    cls = []
    pk, msg, sig = bx(case["pk"]), bx(case["msg"]), bx(case["sig"])
    want, reason = ref.verdict(pk, msg, sig)
    cls.append("ref:" + reason)
    cls.append(_len_class(len(msg)))
    mut = case.get("mut")
    base = case.get("base")
    # base: the valid triple the case was derived from (None when the construction itself is the alteration)
    changed = base is None or (base["pk"], base["msg"], base["sig"]) != (case["pk"], case["msg"], case["sig"])
    if mut and mut.startswith("valid"):
        cls.append("kind:" + mut)
    elif mut:
        cls.append(("nt:mut:" if changed else "mut-noop:") + mut)
    # length classes are computed from the bytes, not taken from the generator's label
    wrong_len = False
    if len(pk) != 32:
        wrong_len = True
        cls.append({31: "nt:pk-31-bytes", 33: "nt:pk-33-bytes"}.get(len(pk), "nt:pk-len-other"))
    if len(sig) != 64:
        wrong_len = True
        cls.append({63: "nt:sig-63-bytes", 65: "nt:sig-65-bytes"}.get(len(sig), "nt:sig-len-other"))
    if wrong_len:
        # what a verifier that ignores lengths (big-endian integers, split at offset 32) would see
        x = int.from_bytes(pk, "big")
        r = int.from_bytes(sig[:32], "big")
        s = int.from_bytes(sig[32:], "big")
        if len(sig) >= 32 and x < 2**256 and s < 2**256 and ref.verify(ref.b32(x), msg, ref.b32(r) + ref.b32(s)):
            cls.append("nt:wrong-length-but-integers-valid")
            if len(sig) == 63 and len(pk) == 32:
                cls.append("nt:sig-63-bytes-s-leading-zero")
            if len(sig) == 65 and len(pk) == 32:
                cls.append("nt:sig-65-bytes-zero-inserted-before-s")
            if len(pk) == 31 and len(sig) == 64:
                cls.append("nt:pk-31-bytes-leading-zero-dropped")
            if len(pk) == 33 and len(sig) == 64:
                cls.append("nt:pk-33-bytes-zero-prepended")
    if want:
        if sig[0] == 0:
            cls.append("nt:valid-r-leading-zero")
        if sig[32] == 0:
            cls.append("nt:valid-s-leading-zero")
        if pk[0] == 0:
            cls.append("nt:valid-pk-leading-zero")
    if case.get("prime") and base is not None and changed:
        # history: the valid triple this case was derived from is verified first in the same process, so a verdict
        # remembered from an earlier call (keyed on part of the input) would be exposed
        cls.append("nt:after-verifying-valid-base")
        g0 = attempt(lib.verify, bx(base["pk"]), bx(base["msg"]), bx(base["sig"]))
        if ref.verdict(bx(base["pk"]), bx(base["msg"]), bx(base["sig"]))[0]:
            f.expect(_accepted(g0), "verify/rejects-valid/base-triple", f"{g0!r}")
    if case.get("prime_pub") and len(pk) == 32:
        # history: the x-only form of BOTH points with this x coordinate is computed first (bip340.pubkey takes a point)
        P0 = ref.lift_x(int.from_bytes(pk, "big")) if int.from_bytes(pk, "big") < P else None
        if P0 is not None:
            cls.append("nt:after-pubkey-of-both-lifts")
            for pt_ in ((P0[0], P - P0[1]), P0):
                x_only = attempt(lib.pubkey, pt_)
                f.expect(not raised(x_only) and x_only == pk, "pubkey/ne-reference", f"{x_only!r} want {pk.hex()}")
    got = attempt(lib.verify, pk, msg, sig)
    acc = _accepted(got)
    if want:
        cls.append("expect-accept")
        how = type(got.exc).__name__ if raised(got) else "returned-" + type(got).__name__
        f.expect(acc, f"verify/rejects-valid/{how}", f"{got!r}")
    else:
        cls.append("expect-reject")
        f.expect(not acc, f"verify/accepts-invalid/{reason}", f"returned {got!r} for pk of {len(pk)} bytes, sig of {len(sig)} bytes")
    return cls, f


def _walk(k, pred, limit=60000):
    """Smallest k' >= k (cyclically in [1,n-1]) whose point k'G satisfies pred(k', point): incremental additions."""
    k = (k - 1) % (N - 1) + 1
    pt = ec.mul(k, G)
    for _ in range(limit):
        if pred(k, pt):
            return k, pt
        k += 1
        if k == N:
            k, pt = 1, G
        else:
            pt = ec.add(pt, G)
    raise RuntimeError("walk limit reached")


def _build(d, msg, k0, zero_pk=False, zero_r=False, zero_s=False, odd_r=False):
    """A BIP340-valid triple (or, with odd_r, its odd-y-R relative) near the drawn scalars, with the wanted leading zeros."""
    if zero_pk:
        d, pt = _walk(d, lambda k, q: q[0] >> 248 == 0)
    else:
        d = (d - 1) % (N - 1) + 1
        pt = ec.mul(d, G)
    dn = d if pt[1] % 2 == 0 else N - d

    def s_of(k, q):
        kk = k if (q[1] % 2 == 0 or odd_r) else N - k
        return (kk + ref.challenge(q[0], pt[0], msg) * dn) % N

    def pred(k, q):
        if odd_r and q[1] % 2 == 0:
            return False
        if zero_r and q[0] >> 248 != 0:
            return False
        if zero_s and s_of(k, q) >> 248 != 0:
            return False
        return True

    k, q = _walk(k0, pred)
    return d, ref.b32(pt[0]), ref.b32(q[0]) + ref.b32(s_of(k, q))


def _flip(b, i):
    a = bytearray(b)
    a[i // 8] ^= 0x80 >> (i % 8)
    return bytes(a)


VERIFY_KINDS = [
    "valid", "valid-default-signer", "valid-zero-pk", "valid-zero-r", "valid-zero-s",
    "bitflip-pk", "bitflip-msg", "bitflip-r", "bitflip-s",
    "r-set", "r-set", "s-set", "s-set", "pk-off-curve", "pk-ge-p", "neg-s", "odd-R", "unnormalised-d", "R-infinite",
    "other-key", "other-msg", "byte-edit",
    "pk-drop-zero", "pk-drop-zero", "pk-pad", "pk-pad", "pk-trunc",
    "sig-drop-s-zero", "sig-drop-s-zero", "sig-drop-r-zero", "sig-insert-zero", "sig-insert-zero", "sig-pad", "sig-trunc",
    "both-lengths", "resplit", "resplit", "forge-x0",
]


@st.composite
def verify_cases(draw):
    kind = draw(st.sampled_from(VERIFY_KINDS))
    d = draw(keys())
    msg = draw(messages())
    k0 = draw(keys())
    zp = kind in ("valid-zero-pk", "pk-drop-zero") or (kind == "both-lengths")
    zr = kind in ("valid-zero-r", "sig-drop-r-zero")
    zs = kind in ("valid-zero-s", "sig-drop-s-zero") or (kind == "both-lengths")
    if kind == "valid-default-signer":
        d = (d - 1) % (N - 1) + 1
        pk, sig = ref.pubkey(d), ref.sign(d, msg, draw(auxes()))
    elif kind == "unnormalised-d":
        d, pt = _walk(d, lambda k, q: q[1] % 2 == 1)
        pk, sig = ref.b32(pt[0]), ref.sign_with_nonce(d, msg, (k0 - 1) % (N - 1) + 1, normalise_d=False)
    else:
        d, pk, sig = _build(d, msg, k0, zero_pk=zp, zero_r=zr, zero_s=zs, odd_r=(kind == "odd-R"))
    base = None if kind in ("odd-R", "unnormalised-d") else {"pk": hx(pk), "msg": hx(msg), "sig": hx(sig)}
    mut = kind
    if kind == "bitflip-pk":
        pk = _flip(pk, draw(st.integers(0, 255)))
    elif kind == "bitflip-msg":
        if not msg:
            msg = draw(st.binary(min_size=1, max_size=1))
            mut = "msg-byte-added-to-empty"
        else:
            msg = _flip(msg, draw(st.integers(0, 8 * len(msg) - 1)))
    elif kind == "bitflip-r":
        sig = _flip(sig, draw(st.integers(0, 255)))
    elif kind == "bitflip-s":
        sig = _flip(sig, 256 + draw(st.integers(0, 255)))
    elif kind == "r-set":
        r = draw(st.sampled_from([0, 1, P - 1, P, P + 1, 2**256 - 1]))
        sig = ref.b32(r) + sig[32:]
        mut = "r-set:" + {0: "0", 1: "1", P - 1: "p-1", P: "p", P + 1: "p+1"}.get(r, "max")
    elif kind == "s-set":
        s = draw(st.sampled_from([0, 1, N - 1, N, N + 1, 2**256 - 1]))
        sig = sig[:32] + ref.b32(s)
        mut = "s-set:" + {0: "0", 1: "1", N - 1: "n-1", N: "n", N + 1: "n+1"}.get(s, "max")
    elif kind == "pk-off-curve":
        x = draw(st.one_of(st.sampled_from([0, 1, 2, 5, P - 1]), st.integers(0, P - 1)))
        while ref.lift_x(x) is not None:
            x = (x + 1) % P
        pk = ref.b32(x)
    elif kind == "pk-ge-p":
        x = draw(st.one_of(st.sampled_from([P, P + 1, 2**256 - 1]), st.integers(P, 2**256 - 1)))
        pk = ref.b32(x)
    elif kind == "neg-s":
        sig = sig[:32] + ref.b32((N - int.from_bytes(sig[32:], "big")) % N)
    elif kind == "R-infinite":
        r = draw(st.one_of(st.sampled_from([0, 1, int.from_bytes(pk, "big")]), st.integers(0, P - 1)))
        pt = ec.mul(d, G)
        dn = d if pt[1] % 2 == 0 else N - d
        sig = ref.b32(r) + ref.b32(ref.challenge(r, pt[0], msg) * dn % N)
    elif kind == "other-key":
        d2 = draw(st.one_of(st.sampled_from([N - d, d + 1 if d + 1 < N else 1]), gen.scalars_valid()))
        pk = ref.pubkey((d2 - 1) % (N - 1) + 1)
    elif kind == "other-msg":
        how = draw(st.sampled_from(["append-zero", "drop-last", "prepend", "replace"]))
        mut = "other-msg:" + how
        if how == "append-zero":
            msg = msg + b"\x00"
        elif how == "drop-last":
            msg = msg[:-1]
        elif how == "prepend":
            msg = draw(st.binary(min_size=1, max_size=1)) + msg
        else:
            msg = draw(messages())
    elif kind == "byte-edit":
        field = draw(st.sampled_from(["pk", "msg", "sig"]))
        src = {"pk": pk, "msg": msg, "sig": sig}[field]
        out, kinds = draw(gen.edit_mutation(src, b"\x00\x01\xff\x80", b"", max_edits=2))
        mut = "byte-edit:" + field
        if field == "pk":
            pk = out
        elif field == "msg":
            msg = out
        else:
            sig = out
    elif kind == "pk-drop-zero":
        pk = pk[1:]
    elif kind == "pk-pad":
        how = draw(st.sampled_from(["prepend-zero", "prepend-zero", "prepend-two-zeros", "append-zero", "sec1-02", "append-byte", "prepend-byte"]))
        mut = "pk-pad:" + how
        b = draw(st.binary(min_size=1, max_size=1))
        pk = {
            "prepend-zero": b"\x00" + pk,
            "prepend-two-zeros": b"\x00\x00" + pk,
            "append-zero": pk + b"\x00",
            "sec1-02": b"\x02" + pk,
            "append-byte": pk + b,
            "prepend-byte": b + pk,
        }[how]
    elif kind == "pk-trunc":
        how = draw(st.sampled_from(["drop-last", "drop-first", "empty", "half"]))
        mut = "pk-trunc:" + how
        pk = {"drop-last": pk[:-1], "drop-first": pk[1:], "empty": b"", "half": pk[:16]}[how]
    elif kind == "sig-drop-s-zero":
        sig = sig[:32] + sig[33:]
    elif kind == "sig-drop-r-zero":
        sig = sig[1:]
    elif kind == "sig-insert-zero":
        how = draw(st.sampled_from(["before-s", "before-s", "two-before-s", "before-r", "after-s"]))
        mut = "sig-insert-zero:" + how
        sig = {
            "before-s": sig[:32] + b"\x00" + sig[32:],
            "two-before-s": sig[:32] + b"\x00\x00" + sig[32:],
            "before-r": b"\x00" + sig,
            "after-s": sig + b"\x00",
        }[how]
    elif kind == "sig-pad":
        b = draw(st.binary(min_size=1, max_size=1))
        how = draw(st.sampled_from(["append-byte", "prepend-byte", "insert-byte-at-32"]))
        mut = "sig-pad:" + how
        sig = {"append-byte": sig + b, "prepend-byte": b + sig, "insert-byte-at-32": sig[:32] + b + sig[32:]}[how]
    elif kind == "sig-trunc":
        how = draw(st.sampled_from(["drop-last", "drop-first", "r-only", "empty", "drop-byte-32"]))
        mut = "sig-trunc:" + how
        sig = {"drop-last": sig[:-1], "drop-first": sig[1:], "r-only": sig[:32], "empty": b"", "drop-byte-32": sig[:32] + sig[33:]}[how]
    elif kind == "forge-x0":
        # pk = 0 does not lift (7 is a non-residue), but the pseudo point T = (0, y), y = 7^((p+1)/4), has order 3 under the
        # a = 0 addition formulas (doubling gives (0, -y)), so e*T depends only on e mod 3 and a "signature" can be ground
        # without any secret: pick s, R = sG - e'T with even y, r = x(R), vary the message until H(r||pk||m) mod n mod 3 = e'.
        # A verifier that skips the on-curve test for the lifted key accepts it; BIP340 requires rejection.
        y0 = pow(7, (P + 1) // 4, P)
        T = (0, y0)
        mults = {0: None, 1: T, 2: (0, (-y0) % P)}
        s_int = (k0 - 1) % (N - 1) + 1
        sG = ec.mul(s_int, G)
        pk = ref.b32(0)
        base = None
        found = False
        for i in range(64):
            m_i = msg + bytes([i])
            for e1 in (0, 1, 2):
                R = ec.add(sG, ec.neg(mults[e1])) if mults[e1] is not None else sG
                if R is None or R[1] % 2:
                    continue
                if ref.challenge(R[0], 0, m_i) % 3 == e1:
                    msg, sig, found = m_i, ref.b32(R[0]) + ref.b32(s_int), True
                    break
            if found:
                break
        mut = "forge-x0" if found else "forge-x0-not-found"
    elif kind == "resplit":
        # the same byte string pk || msg || sig cut at other places: lengths change together with the message
        if len(msg) < 2:
            msg = msg + b"\x07\x09"
            d, pk, sig = _build(d, msg, k0)
            base = {"pk": hx(pk), "msg": hx(msg), "sig": hx(sig)}
        how = draw(st.sampled_from(["pk+m[0]", "pk+m[:2]", "pk[:31]", "m[-1]+sig", "m+sig[0]"]))
        mut = "resplit:" + how
        if how == "pk+m[0]":
            pk, msg = pk + msg[:1], msg[1:]
        elif how == "pk+m[:2]":
            pk, msg = pk + msg[:2], msg[2:]
        elif how == "pk[:31]":
            pk, msg = pk[:31], pk[31:] + msg
        elif how == "m[-1]+sig":
            msg, sig = msg[:-1], msg[-1:] + sig
        else:
            msg, sig = msg + sig[:1], sig[1:]
    elif kind == "both-lengths":
        how = draw(st.sampled_from(["both-dropped", "both-padded", "pk-dropped-sig-padded"]))
        mut = "both-lengths:" + how
        if how == "both-dropped":
            pk, sig = pk[1:], sig[:32] + sig[33:]
        elif how == "both-padded":
            pk, sig = b"\x00" + pk, sig[:32] + b"\x00" + sig[32:]
        else:
            pk, sig = pk[1:], sig[:32] + b"\x00" + sig[32:]
    return {"kind": kind, "mut": mut, "pk": hx(pk), "msg": hx(msg), "sig": hx(sig), "base": base, "prime": draw(st.booleans()) or kind == "resplit", "prime_pub": draw(st.integers(0, 3)) == 0}


# ---------------------------------------------------------------- deterministic boundary enumeration


def boundary_cases(tier):
    """Every boundary value / length variant named in the quantifier, on a few fixed triples (seed-independent)."""
    seeds = [(1, b"", 1), (3, bytes(32), 2), (N - 1, b"\x11" * 33, N - 1), (N // 2, b"\xff" * 64, N // 3)]
    if tier == "quick":
        seeds = seeds[:3]
    for d0, msg, k0 in seeds:
        d, pk, sig = _build(d0, msg, k0)
        base = {"pk": hx(pk), "msg": hx(msg), "sig": hx(sig)}

        def case(mut, pk_, msg_, sig_, base_=base):
            return {"kind": "boundary", "mut": mut, "pk": hx(pk_), "msg": hx(msg_), "sig": hx(sig_), "base": base_}

        yield case("valid", pk, msg, sig)
        for name, r in [("0", 0), ("1", 1), ("p-1", P - 1), ("p", P), ("p+1", P + 1), ("max", 2**256 - 1)]:
            yield case("r-set:" + name, pk, msg, ref.b32(r) + sig[32:])
        for name, s in [("0", 0), ("1", 1), ("n-1", N - 1), ("n", N), ("n+1", N + 1), ("max", 2**256 - 1)]:
            yield case("s-set:" + name, pk, msg, sig[:32] + ref.b32(s))
        yield case("neg-s", pk, msg, sig[:32] + ref.b32(N - int.from_bytes(sig[32:], "big")))
        yield case("pk-ge-p", ref.b32(P), msg, sig)
        yield case("pk-pad:prepend-zero", b"\x00" + pk, msg, sig)
        yield case("pk-pad:append-zero", pk + b"\x00", msg, sig)
        yield case("pk-trunc:drop-last", pk[:-1], msg, sig)
        yield case("sig-insert-zero:before-s", pk, msg, sig[:32] + b"\x00" + sig[32:])
        yield case("sig-pad:append-byte", pk, msg, sig + b"\x00")
        yield case("sig-trunc:drop-last", pk, msg, sig[:-1])
        # leading-zero relatives: the zero byte is dropped
        _, pkz, sigz = _build(d0, msg, k0, zero_pk=True)
        yield case("pk-drop-zero", pkz[1:], msg, sigz, {"pk": hx(pkz), "msg": hx(msg), "sig": hx(sigz)})
        _, pks, sigs = _build(d0, msg, k0, zero_s=True)
        yield case("sig-drop-s-zero", pks, msg, sigs[:32] + sigs[33:], {"pk": hx(pks), "msg": hx(msg), "sig": hx(sigs)})
        _, pkr, sigr = _build(d0, msg, k0, zero_r=True)
        yield case("sig-drop-r-zero", pkr, msg, sigr[1:], {"pk": hx(pkr), "msg": hx(msg), "sig": hx(sigr)})
        _, pko, sigo = _build(d0, msg, k0, odd_r=True)
        yield case("odd-R", pko, msg, sigo, None)


# ---------------------------------------------------------------- official vectors


def vector_cases(tier):
    for v in ref.vectors():
        yield {"index": v["index"], "sk": v["sk"], "pk": v["pk"], "aux": v["aux"], "msg": v["msg"], "sig": v["sig"],
               "result": v["result"], "comment": v["comment"]}


def check_vector(case):
    cls = [f"nt:vector-{case['index']:02d}"]
    f = Fails()
    want = ref.verify(bx(case["pk"]), bx(case["msg"]), bx(case["sig"]))
    if want != case["result"]:
        raise RuntimeError(f"reference disagrees with official vector {case['index']}")
    c, ff = check_verify({"pk": case["pk"], "msg": case["msg"], "sig": case["sig"], "mut": None})
    cls += c
    f.extend(ff)
    if case["sk"]:
        c, ff = check_sign({"kind": "sign", "key": case["sk"], "msg": case["msg"], "aux": case["aux"]})
        cls += [x for x in c if x not in cls]
        f.extend(ff)  # the reference signature equals the official one (ref.selfcheck), so this compares with the vector
    return cls, f


def targets(tier):
    return [
        Target(
            "sign",
            check_sign,
            strategy=lambda tier: sign_cases(),
            budget={"quick": 400, "thorough": 8000},
            required=[
                "nt:odd-y-key", "even-y-key", "nt:odd-y-nonce", "even-y-nonce", "nt:aux-omitted", "aux-zeros", "aux-ones", "nt:pubkey-before-sign", "nt:lead0-t", "nt:lead0-rand", "nt:lead0-Rx", "nt:lead0-e", "nt:lead0-s",
                "aux-random", "nt:refuse-key-zero", "nt:refuse-key-ge-n", "nt:refuse-key-len-ne-32", "nt:msg-len-0",
                "msg-len-32", "nt:msg-len-gt-32", "nt:msg-len-lt-32", "nt:key-leading-zero",
            ],
        ),
        Target(
            "verify",
            check_verify,
            strategy=lambda tier: verify_cases(),
            budget={"quick": 1000, "thorough": 20000},
            required=[
                "expect-accept", "expect-reject", "nt:after-pubkey-of-both-lifts",
                "ref:ok", "ref:pk-length", "ref:sig-length", "ref:pk-ge-p", "ref:pk-not-on-curve", "ref:r-ge-p", "ref:s-ge-n",
                "ref:R-infinite", "ref:R-odd-y", "ref:Rx-ne-r",
                "nt:sig-63-bytes-s-leading-zero", "nt:pk-31-bytes", "nt:pk-33-bytes", "nt:sig-65-bytes", "nt:sig-63-bytes",
                "nt:pk-31-bytes-leading-zero-dropped", "nt:pk-33-bytes-zero-prepended", "nt:sig-65-bytes-zero-inserted-before-s",
                "nt:mut:forge-x0", "nt:mut:bitflip-pk", "nt:mut:bitflip-msg", "nt:mut:bitflip-r", "nt:mut:bitflip-s", "nt:mut:odd-R",
                "nt:mut:neg-s", "nt:mut:other-key", "nt:valid-s-leading-zero", "nt:valid-r-leading-zero", "nt:valid-pk-leading-zero",
            ],
        ),
        Target(
            "verify-boundary",
            check_verify,
            enumerate_=boundary_cases,
            required=[
                "ref:ok", "ref:r-ge-p", "ref:s-ge-n", "ref:pk-ge-p", "ref:R-odd-y",
                "nt:mut:r-set:p-1", "nt:mut:r-set:p", "nt:mut:r-set:p+1",
                "nt:mut:s-set:0", "nt:mut:s-set:n-1", "nt:mut:s-set:n", "nt:mut:s-set:n+1",
                "nt:sig-63-bytes-s-leading-zero", "nt:pk-31-bytes-leading-zero-dropped", "nt:pk-33-bytes-zero-prepended",
                "nt:sig-65-bytes-zero-inserted-before-s", "nt:mut:odd-R", "nt:mut:neg-s",
            ],
        ),
        Target(
            "fixed-corpus",
            check_vector,
            enumerate_=vector_cases,
            exhaustive=True,
            required=["ref:ok", "ref:R-infinite", "ref:R-odd-y", "ref:pk-ge-p", "ref:pk-not-on-curve", "ref:r-ge-p", "ref:s-ge-n"],
        ),
    ]
