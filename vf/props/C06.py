"""C06 — segwit addresses round-trip and are accepted exactly per BIP173/BIP350; classifiers are total."""
import hashlib

from hypothesis import strategies as st

from vf import gen
from vf.core import Fails, Target, attempt, bx, hx, raised
from vf.ref import base58 as b58ref
from vf.ref import bech32 as ref

PROPERTY = "C06"
LEVEL = "exploration"
RULE = (
    "roundtrip (enumeration): network x version 0..16 x every allowed program length (v0: 20,32; else 2..40) x content "
    "{all-zero, all-ones, single-bit (every bit for len<=5 and for v0, 5-bit-group boundary bits otherwise; every bit in thorough), hash-derived "
    "pseudo-random}; encoders compared with the BIP173/350 reference encoder, decoder/validity/predicates run on the "
    "reference address in lower and upper case. accept-set-enum: every 1-substitution over all 256 byte values on three "
    "short addresses and every 2-substitution over the 32-char charset + {'1','b','i','o','B',' ',0x80} on a 14-char address. "
    "accept-set (Hypothesis): strings built by construction from valid addresses: 1-4 substitutions, case flips, "
    "truncation/extension, checksum under the wrong constant, non-zero / 5+ bit padding with valid checksum, unknown HRP "
    "with valid checksum, version symbols 17..31, non-charset version character, empty / 1 / 41+ byte programs, v0 with "
    "other lengths, > 90 characters. totality: binary(0..120), separator-structured junk and all of the above; "
    "is_segwit_addr, is_addr, is_base58check must return bool. Oracle: is_segwit_addr(x) is True exactly when the "
    "reference decoder accepts x under bc/tb/bcrt; decode_segwit_addr+assert_valid_segwit accept exactly those and return "
    "the reference triple. Non-trivial: degenerate content or short/long program (roundtrip); reference verdict known "
    "for a stated rule other than the trivial character/separator rules, or a real mutation of a valid base. "
    "Distinct = distinct canonical case encodings."
)
ASSUMPTIONS = [
    "vf/ref/bech32.py (port of the BIP173/BIP350 reference, validated against the embedded BIP vector lists) is correct",
    "supported networks are mainnet/testnet/regtest with HRPs bc/tb/bcrt",
    "rejection means any exception (or a False return from assert_valid_segwit); a predicate must return a bool",
    "addresses are byte strings (the library's own convention); str inputs are outside the domain",
]
SELFCHECKS = [ref.selfcheck, b58ref.selfcheck]

NETS = [("mainnet", "bc"), ("testnet", "tb"), ("regtest", "bcrt")]
CHARSET = ref.CHARSET.encode()
NEAR = b"1bioB \x80"
SUB2_SYMBOLS = CHARSET + NEAR  # 39 symbols for exhaustive double substitution

TRIVIAL_REASONS = {"char-out-of-range", "no-separator", "empty-hrp", "data-part-shorter-than-checksum"}
REASON_CLASS = {
    "mixed-case": "nt:mixed-case",
    "wrong-checksum-constant": "nt:wrong-const",
    "nonzero-padding": "nt:nonzero-pad",
    "padding-5-or-more-bits": "nt:overlong-pad",
    "version-above-16": "nt:bad-version-char",
    "empty-program": "nt:empty-program",
    "unknown-hrp": "nt:wrong-hrp",
    "too-long": "nt:over-length",
}


def _lib():
    """The public observation points named by the property: bits.<fn> re-exports and bits.base58."""
    import bits
    import bits.base58

    return bits, bits.base58


# ------------------------------------------------------------------ classification helpers


def lenclass(n):
    return "len2-5" if n <= 5 else "len6-40"


def valid_class(triple):
    """Structural class of a valid (hrp, version, program) for signatures."""
    _, v, prog = triple
    if not any(prog):
        return "all-zero-program"
    return "v0" if v == 0 else "v1+"


def struct_class(s: bytes, reason: str) -> str:
    """Structural class of an arbitrary byte string as far as the classifier escape paths are concerned."""
    t = s.lower()
    pos = t.rfind(b"1")
    if pos >= 1:
        dp = t[pos + 1 :]
        if len(dp) >= 7 and dp[0] not in CHARSET:
            return "non-charset-version-char"
        if len(dp) == 7 and all(c in CHARSET for c in dp):
            return "version-and-checksum-only"
    return reason


def pad_bits(proglen):
    return (5 - (8 * proglen) % 5) % 5


# ------------------------------------------------------------------ the observation shared by all targets


def observe(U, B58, s: bytes, want, reason: str, f: Fails, variant=""):
    """Run decoder, validity check and the three predicates on s; want = reference triple or None."""
    # decoder + validity check
    dec = attempt(U.decode_segwit_addr, s)
    av = None
    if not raised(dec):
        av = attempt(lambda: U.assert_valid_segwit(*dec))
    accepted = not raised(dec) and not raised(av) and av is not False
    if want is None:
        if accepted:
            f.add(f"accept-set/accepts-invalid/{reason}{variant}", f"decoder+validity accept {s!r}: {dec!r}")
    else:
        klass = valid_class(want)
        if raised(dec):
            f.add(f"decode/rejects-valid/{klass}{variant}", f"{s!r}: {dec!r}")
        elif attempt(lambda: tuple(dec)) != want:
            accepted = False
            f.add(f"decode/wrong-result/{klass}{variant}", f"{s!r}: got {dec!r} want {want!r}")
        elif not accepted:
            f.add(f"assert_valid_segwit/rejects-valid/{klass}{variant}", f"{s!r}: {av!r}")
        # the validity check on the reference triple itself (independent of the decoder's fate)
        av2 = attempt(U.assert_valid_segwit, *want)
        if (raised(av2) or av2 is False) and not (raised(av) or av is False):
            f.add(f"assert_valid_segwit/rejects-valid/{klass}{variant}", f"on reference triple {want!r}: {av2!r}")
    # predicates: bool, never raise; exact
    escapes = {}
    sclass = struct_class(s, reason)

    def total(name, fn):
        r = attempt(fn, s)
        if isinstance(r, bool):
            return r
        kind = f"raises-{r.kind}" if raised(r) else f"returns-{type(r).__name__}"
        escapes.setdefault(f"totality/{kind}/{sclass}", []).append(f"{name} -> {r!r}")
        return None

    seg = total("is_segwit_addr", U.is_segwit_addr)
    ia = total("is_addr", U.is_addr)
    total("is_base58check", B58.is_base58check)
    for sig, who in sorted(escapes.items()):
        f.add(sig + variant, f"{s!r} ({reason}): " + "; ".join(who))
    exp_seg = want is not None
    if seg is not None and seg != exp_seg and seg != accepted:
        # disagrees with the reference AND with the decoder pipeline (otherwise it is the pipeline failure above)
        what = "false-on-valid" if exp_seg else "true-on-invalid"
        cls = valid_class(want) if exp_seg else reason
        f.add(f"is_segwit_addr/{what}/{cls}{variant}", f"{s!r}")
    b58_valid = b58ref.check_decode(s) is not None
    exp_ia = exp_seg or b58_valid
    if ia is not None and ia != exp_ia:
        same_as_seg = seg is not None and ia == (seg or b58_valid)
        if not same_as_seg:
            what = "false-on-valid" if exp_ia else "true-on-invalid"
            cls = (valid_class(want) if exp_seg else "base58check") if exp_ia else reason
            f.add(f"is_addr/{what}/{cls}{variant}", f"{s!r} is_segwit_addr={seg!r} base58check={b58_valid}")
    # the raising sibling of is_addr: True for an address, an exception for anything else
    aa = attempt(U.assert_addr, s)
    aa_ok = not raised(aa) and aa is not False and aa is not None
    if aa_ok != exp_ia and (ia is None or ia == exp_ia):  # (a wrong is_addr verdict is reported above, once)
        what = "rejects-valid" if exp_ia else "accepts-invalid"
        cls = (valid_class(want) if exp_seg else "base58check") if exp_ia else reason
        f.add(f"assert_addr/{what}/{cls}{variant}", f"{s!r}: {aa!r}")
    return accepted


def reference_verdict(s: bytes):
    want = ref.decode_any(s)
    reason = ref.diagnose(s)
    if (reason == "valid") != (want is not None):
        raise RuntimeError(f"reference decoder and diagnose disagree on {s!r}: {want!r} / {reason}")
    return want, reason


# ------------------------------------------------------------------ target 1: round trip


def check_roundtrip(case):
    U, B58 = _lib()
    net, v, prog = case["net"], case["v"], bx(case["prog"])
    hrp = ref.NETWORK_HRP[net]
    f = Fails()
    n = len(prog)
    if not ref.allowed_program(v, n):
        raise RuntimeError(f"generator left the domain: v={v} len={n}")
    exp = ref.encode_addr(hrp, v, prog)
    triple = (hrp.encode(), v, prog)
    if ref.decode_any(exp) != triple or len(exp) > 90:
        raise RuntimeError("reference does not round-trip")

    cls = ["net:" + net, "v0" if v == 0 else "v1+", f"pad{pad_bits(n)}"]
    if n <= 5:
        cls.append("nt:len2..5")
    if n >= 33:
        cls.append("nt:len33..40")
    if v == 16:
        cls.append("nt:v16")
    if case.get("lookalike"):
        cls.append("nt:program-looks-like-other-input")
        if n == 33 and prog[0] in (2, 3):
            cls.append("nt:program-is-a-sec1-public-key")
    ones = sum(bin(b).count("1") for b in prog)
    if ones == 0:
        cls.append("nt:all-zero")
        if pad_bits(n):
            cls.append("nt:all-zero+padding")
    elif ones == 8 * n:
        cls.append("nt:all-ones")
    elif ones == 1:
        cls.append("nt:single-bit")
    elif prog[0] == 0:
        cls.append("nt:leading-zero-byte")
    else:
        cls.append("content:other")

    # encoders
    outcomes = {}
    for name, fn in (("segwit_addr", U.segwit_addr), ("to_bitcoin_address", U.to_bitcoin_address)):
        r = attempt(fn, prog, witness_version=v, network=net)
        if isinstance(r, str):
            r = r.encode("latin-1")
        if raised(r):
            outcomes[name] = ("refuses-allowed-program", repr(r))
        elif r != exp:
            outcomes[name] = ("ne-reference", f"got {r!r} want {exp!r}")
        else:
            outcomes[name] = None
    ecls = lenclass(n) if n <= 5 else ("v0" if v == 0 else "v1+") + "/" + lenclass(n)
    a, b = outcomes["segwit_addr"], outcomes["to_bitcoin_address"]
    if a and b and a[0] == b[0]:
        f.add(f"encode/{a[0]}/{ecls}", f"v={v} len={n} {net}: segwit_addr and to_bitcoin_address: {a[1]}")
    else:
        for name, o in (("segwit_addr", a), ("to_bitcoin_address", b)):
            if o:
                f.add(f"encode/{o[0]}/{ecls}/only-{name}", f"v={v} len={n} {net}: {o[1]}")

    # decoder, validity check and predicates on the reference address (independent of the encoder's fate)
    observe(U, B58, exp, triple, "valid", f)
    lower_sigs = {sig for sig, _ in f}
    fu = Fails()
    observe(U, B58, exp.upper(), triple, "valid", fu, variant="/uppercase")
    for sig, detail in fu:
        if sig[: -len("/uppercase")] not in lower_sigs:
            f.add(sig, detail)
    return cls, f


def _prand(tag, n):
    return hashlib.blake2b(tag.encode(), digest_size=n).digest()


def _single_bit(n, bit):
    v = bytearray(n)
    v[bit // 8] |= 0x80 >> (bit % 8)
    return bytes(v)


def _lookalikes(n, tag):
    """Programs of n bytes that look like another kind of input the library accepts: a SEC1 public key, an x-only key,
    a Base58 payload, hex or address text, text with surrounding whitespace.  A program is opaque bytes: it must come
    back exactly, whatever it resembles."""
    from vf.ref import ec

    out = []
    if n == 33:
        out += [ec.sec1_encode(ec.mul(k, ec.G), True) for k in (1, 2, 3, 0xC06)]
    if n == 32:
        out += [ec.G[0].to_bytes(32, "big"), ec.mul(2, ec.G)[0].to_bytes(32, "big")]
    if n == 21:
        out.append(b"\x00" + _prand(tag + "/h160", 20))
    if n == 25:
        out.append(b58ref.decode(b"1A1zP1eP5QGefi2DMPTfTL5SLmv7DivfNa"))
    text = (b"00ff" * 10, b"DEADBEEF" * 5, b"bc1qw508d6qejxtdg4y5r3zarvary0c5xw7kv8f3t4", b"0x" + b"1f" * 19)
    out += [t[:n] for t in text if len(t) >= n]
    if n >= 3:
        body = _prand(tag + "/ws", n - 2)
        out += [b" " + body + b"\n", b"\n" + body + b"\x00", b"\x00" + body + b" "]
    return [o for o in out if len(o) == n]


def roundtrip_cases(tier):
    nrand = 3 if tier == "quick" else 24
    for net, _hrp in NETS:
        for v in range(17):
            for n in ((20, 32) if v == 0 else range(2, 41)):
                progs = [bytes(n), b"\xff" * n]
                nb = 8 * n
                if n <= 5 or v == 0 or tier != "quick":
                    bits_ = range(nb)
                else:
                    bits_ = sorted({0, 4, 5, nb // 2, nb - 5, nb - 1})
                progs += [_single_bit(n, b) for b in bits_]
                progs += [_prand(f"{net}/{v}/{n}/{i}", n) for i in range(24 if v == 0 else nrand)]
                progs.append(b"\x00" + _prand(f"{net}/{v}/{n}/z", n - 1))
                for p in progs:
                    yield {"net": net, "v": v, "prog": hx(p)}
                for p in _lookalikes(n, f"{net}/{v}/{n}"):
                    yield {"net": net, "v": v, "prog": hx(p), "lookalike": 1}


# ------------------------------------------------------------------ targets 2-4: accept set and totality


def check_string(case):
    U, B58 = _lib()
    s = bx(case["s"])
    f = Fails()
    want, reason = reference_verdict(s)
    cls = ["expect-accept" if want is not None else "expect-reject"]
    mutated = "base" in case and case["base"] != case["s"]
    kinds = case.get("kinds", [])
    for k in kinds:
        cls.append(("nt:mut:" if mutated else "same-as-base:") + k)
    if want is not None:
        if s != s.lower():
            cls.append("nt:valid-uppercase")
        elif not mutated and kinds:
            cls.append("valid-unchanged")
        else:
            cls.append("nt:valid")
    elif reason in REASON_CLASS:
        cls.append(REASON_CLASS[reason])
    elif reason in TRIVIAL_REASONS:
        cls.append("why:" + reason)
    else:
        cls.append("nt:why:" + reason)
    sc = struct_class(s, reason)
    if sc == "non-charset-version-char":
        cls.append("nt:non-alphabet-first-data-char")
    elif sc == "version-and-checksum-only":
        cls.append("nt:version-and-checksum-only")
    if len(s) > 90:
        cls.append("over-90-chars")
    if case.get("prime"):
        # history: the same string first goes through the library's generic Bech32 entry points (either checksum constant,
        # BIP173-only decoding); a verdict remembered from those calls must not leak into the segwit predicates
        cls.append("nt:after-generic-bech32-calls")
        from bits.bips import bip173

        for const in (1, 0x2BC830A3):
            attempt(bip173.decode_bech32_string, s, constant=const)
        attempt(U.decode_segwit_addr, s, False)
    observe(U, B58, s, want, reason, f)
    return cls, f


SHORT_BASES = [("bc", 1, "751e"), ("tb", 16, "000000"), ("bcrt", 2, "00ff8001")]


def accept_enum_cases(tier):
    bases = [ref.encode_addr(h, v, bx(p)) for h, v, p in SHORT_BASES]
    for base in bases + ([b.upper() for b in bases] if tier != "quick" else []):
        for i in range(len(base)):
            for c in range(256):
                t = bytearray(base)
                t[i] = c
                yield {"s": hx(t), "base": hx(base), "kinds": ["sub1"]}
    doubles = bases[:1] if tier == "quick" else bases + [bases[0].upper()]
    for base in doubles:
        symbols = SUB2_SYMBOLS if base == base.lower() else bytes(dict.fromkeys(SUB2_SYMBOLS.upper() + b"b"))
        for i in range(len(base)):
            for j in range(i + 1, len(base)):
                for c in symbols:
                    for d in symbols:
                        t = bytearray(base)
                        t[i] = c
                        t[j] = d
                        yield {"s": hx(t), "base": hx(base), "kinds": ["sub2"]}


def _program(draw, v, lens=None):
    if lens is None:
        if v == 0:
            n = draw(st.sampled_from([20, 32]))
        else:
            n = draw(st.one_of(st.sampled_from([2, 3, 4, 5, 20, 32, 39, 40]), st.integers(2, 40)))
    else:
        n = draw(st.sampled_from(lens))
    kind = draw(st.sampled_from(["rand", "rand", "rand", "zero", "ones", "lowbit"]))
    if kind == "zero":
        return bytes(n)
    if kind == "ones":
        return b"\xff" * n
    if kind == "lowbit":
        return bytes(n - 1) + b"\x01" if n else b""
    return draw(st.binary(min_size=n, max_size=n))


def _spec_for(v):
    return ref.BECH32 if v == 0 else ref.BECH32M


_versions = st.one_of(st.sampled_from([0, 1, 16]), st.integers(0, 16))
_hrps = st.sampled_from(list(ref.HRPS))
# one cheap draw: a third in-charset, a third near-charset, a third arbitrary byte
_repl = st.integers(0, 767).map(lambda k: CHARSET[k % 32] if k < 256 else NEAR[k % len(NEAR)] if k < 512 else k - 512)


def _from_pool(raw: bytes, pool: bytes) -> bytes:
    return bytes(pool[b % len(pool)] for b in raw)
OTHER_HRPS = ["tc", "b", "c", "bcr", "bcrtt", "tbb", "ltc", "bc1", "bc1bc", "tb1q", "x", "bt", "cb", "bc ", "bc-", "lnbc", "?"]
BAD_LENS_V0 = [2, 19, 21, 31, 33, 40]
BAD_LENS_ANY = [0, 1, 41, 42, 45, 50, 51, 52, 60]


@st.composite
def accept_cases(draw):
    kind = draw(
        st.sampled_from(
            [
                "valid", "subst", "subst", "case-flip", "trunc", "ext", "wrong-const", "nonzero-pad", "overlong-pad",
                "wrong-hrp", "bad-version", "bad-version-char", "empty-program", "prog-len", "swap",
            ]
        )
    )
    hrp = draw(_hrps)
    v = draw(_versions)
    upper = draw(st.sampled_from([False, False, True]))

    def fin(s, base=None, kinds=None):
        if upper:
            s = s.upper()
            base = base.upper() if base is not None else None
        c = {"kind": kind, "s": hx(s)}
        if base is not None:
            c["base"] = hx(base)
            c["kinds"] = kinds or [kind]
        return c

    if kind == "wrong-hrp":
        h = draw(st.one_of(st.sampled_from(OTHER_HRPS), st.text(alphabet="abcdefghijklmnopqrstuvwxyz023456789", min_size=1, max_size=6)))
        prog = _program(draw, v)
        return fin(ref.raw_encode(h, [v] + ref.to5(prog), _spec_for(v)))
    if kind == "bad-version":
        sym = draw(st.integers(17, 31))
        prog = _program(draw, 1)
        return fin(ref.raw_encode(hrp, [sym] + ref.to5(prog), draw(st.sampled_from(ref.SPECS))))
    if kind == "empty-program":
        sym = draw(st.one_of(st.integers(0, 16), st.integers(0, 31)))
        spec = draw(st.sampled_from([_spec_for(sym), _spec_for(sym), ref.BECH32, ref.BECH32M]))
        return fin(ref.raw_encode(hrp, [sym], spec))
    if kind == "prog-len":
        if v == 0:
            n = draw(st.sampled_from(BAD_LENS_V0 + BAD_LENS_ANY))
        else:
            n = draw(st.sampled_from(BAD_LENS_ANY))
        prog = _program(draw, v, [n])
        return fin(ref.raw_encode(hrp, [v] + ref.to5(prog), _spec_for(v)))
    if kind == "wrong-const":
        prog = _program(draw, v)
        other = ref.BECH32M if v == 0 else ref.BECH32
        spec = draw(st.sampled_from([other, other, other, 0, 0x3FFFFFFF, ref.BECH32 ^ 1, ref.BECH32M ^ 1]))
        return fin(ref.raw_encode(hrp, [v] + ref.to5(prog), spec))
    if kind == "nonzero-pad":
        lens = [32] if v == 0 else [n for n in (2, 3, 4, 6, 7, 8, 9, 19, 21, 31, 32, 33, 38, 39) if pad_bits(n)]
        prog = _program(draw, v, lens)
        d5 = ref.to5(prog)
        d5[-1] |= draw(st.integers(1, (1 << pad_bits(len(prog))) - 1))
        return fin(ref.raw_encode(hrp, [v] + d5, _spec_for(v)))
    if kind == "overlong-pad":
        prog = _program(draw, v)
        extra = draw(st.sampled_from([[0], [0], [0, 0], [draw(st.integers(0, 31))]]))
        return fin(ref.raw_encode(hrp, [v] + ref.to5(prog) + extra, _spec_for(v)))

    # mutations of a valid address
    prog = _program(draw, v)
    base = ref.encode_addr(hrp, v, prog)
    if kind == "valid":
        return fin(base)
    t = bytearray(base.upper() if upper else base)
    upper_base = bytes(t)
    upper = False  # already applied
    kinds = [kind]
    if kind == "subst":
        k = draw(st.integers(1, 4))
        for _ in range(k):
            t[draw(st.integers(0, len(t) - 1))] = draw(_repl)
        kinds = [f"subst{k}"]
    elif kind == "case-flip":
        letters = [i for i, c in enumerate(t) if bytes([c]).isalpha()]
        which = draw(st.sampled_from(["some", "some", "hrp", "data"]))
        if which == "hrp":
            pos = [i for i in letters if i < len(hrp)]
        elif which == "data":
            pos = [i for i in letters if i > len(hrp)]
        else:
            pos = [letters[draw(st.integers(0, len(letters) - 1))] for _ in range(draw(st.integers(1, 3)))]
            pos = sorted(set(pos))
        for p in pos:
            t[p] ^= 0x20
    elif kind == "trunc":
        k = draw(st.integers(1, min(10, len(t))))
        if draw(st.booleans()):
            del t[-k:]
        else:
            del t[:k]
    elif kind == "ext":
        k = draw(st.sampled_from([1, 1, 2, 3, 20]))
        pool = draw(st.sampled_from([CHARSET, CHARSET, NEAR + b"\n\t:", bytes(range(256))]))
        add = _from_pool(draw(st.binary(min_size=k, max_size=k)), pool)
        where = draw(st.sampled_from(["end", "end", "start", "mid"]))
        if where == "end":
            t += add
        elif where == "start":
            t[:0] = add
        else:
            p = draw(st.integers(0, len(t)))
            t[p:p] = add
    elif kind == "bad-version-char":
        p = len(hrp) + 1
        ch = draw(st.one_of(st.sampled_from(list(b"bio1 \x80BIO-_")), st.integers(0, 255)))
        if upper_base != base and bytes([ch]).islower():
            ch ^= 0x20
        t[p] = ch
    elif kind == "swap":
        p = draw(st.integers(0, len(t) - 2))
        t[p], t[p + 1] = t[p + 1], t[p]
    return {"kind": kind, "s": hx(t), "base": hx(upper_base), "kinds": kinds}


@st.composite
def junk_cases(draw):
    kind = draw(st.sampled_from(["binary", "binary", "structured", "charset", "ones", "b58"]))
    if kind == "binary":
        s = draw(gen.sized_binary(120))
    elif kind == "structured":
        hrp = draw(st.sampled_from([b"bc", b"tb", b"bcrt", b"BC", b"TB", b"BCRT", b"", b"bc1", b"x"]))
        n = draw(st.sampled_from([0, 1, 5, 6, 7, 7, 8, 14, 40, 60, 84, 85, 86, 100]))
        pool = draw(st.sampled_from(["charset", "charset", "upper", "mix", "any"]))
        table = {"charset": CHARSET, "upper": CHARSET.upper(), "mix": CHARSET * 2 + NEAR * 3, "any": bytes(range(256))}[pool]
        body = bytearray(_from_pool(draw(st.binary(min_size=n, max_size=n)), table))
        if body and draw(st.booleans()):
            body[0] = draw(_repl)  # version position
        s = hrp + b"1" + bytes(body)
    elif kind == "charset":
        s = _from_pool(draw(gen.sized_binary(100)), CHARSET + b"1")
    elif kind == "ones":
        s = b"1" * draw(st.integers(0, 100)) + draw(st.binary(max_size=8))
    else:
        payload = draw(st.binary(max_size=34))
        s = b58ref.check_encode(payload)
        if draw(st.booleans()) and s:
            t = bytearray(s)
            t[draw(st.integers(0, len(t) - 1))] = draw(st.integers(0, 255))
            s = bytes(t)
    return {"kind": "junk-" + kind, "s": hx(s)}


def totality_cases():
    return st.one_of(junk_cases(), junk_cases(), accept_cases())


def _targets(tier):
    return [
        Target(
            "roundtrip",
            check_roundtrip,
            enumerate_=roundtrip_cases,
            required=[
                "nt:len2..5", "nt:len33..40", "nt:all-zero", "nt:all-zero+padding", "nt:all-ones", "nt:single-bit", "nt:v16", "nt:program-looks-like-other-input", "nt:program-is-a-sec1-public-key",
                "v0", "v1+", "net:mainnet", "net:testnet", "net:regtest", "pad0", "pad1", "pad2", "pad3", "pad4",
            ],
        ),
        Target(
            "accept-set-enum",
            check_string,
            enumerate_=accept_enum_cases,
            required=["nt:mut:sub1", "nt:mut:sub2", "expect-reject", "expect-accept", "nt:mixed-case", "nt:non-alphabet-first-data-char"],
            exhaustive=True,
        ),
        Target(
            "accept-set",
            check_string,
            strategy=lambda tier: accept_cases().flatmap(lambda c: st.booleans().map(lambda b: dict(c, prime=b))),
            budget={"quick": 20000, "thorough": 600000},
            required=[
                "expect-accept", "expect-reject", "nt:valid", "nt:valid-uppercase", "nt:mixed-case", "nt:wrong-const",
                "nt:nonzero-pad", "nt:overlong-pad", "nt:bad-version-char", "nt:non-alphabet-first-data-char",
                "nt:empty-program", "nt:version-and-checksum-only", "nt:wrong-hrp", "nt:over-length", "over-90-chars",
                "nt:why:bad-checksum", "nt:why:program-too-short", "nt:why:program-too-long", "nt:why:v0-bad-program-length",
                "nt:why:non-charset-data-char", "nt:after-generic-bech32-calls",
            ],
        ),
        Target(
            "totality",
            check_string,
            strategy=lambda tier: totality_cases(),
            budget={"quick": 16000, "thorough": 400000},
            required=[
                "expect-accept", "expect-reject", "why:char-out-of-range", "why:no-separator", "why:empty-hrp",
                "why:data-part-shorter-than-checksum", "nt:non-alphabet-first-data-char", "nt:version-and-checksum-only",
                "nt:why:bad-checksum",
            ],
        ),
    ]


def targets(tier):
    ts = _targets(tier)
    if tier == "thorough":
        # coverage-guided add-on (atheris/libFuzzer through Hypothesis' fuzz_one_input); skipped with a class label if atheris is missing
        from vf import fuzz

        for name in ['accept-set', 'totality']:
            ts.append(fuzz.campaign_target(PROPERTY, name, campaigns=16, runs=30000))
    return ts
