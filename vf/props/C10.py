"""C10 — BIP39: mnemonic is a checksummed bijection of entropy; seed is PBKDF2-HMAC-SHA512 of the NFKD forms."""
import hashlib
import json
import os
import unicodedata

from hypothesis import strategies as st

from vf.core import VERIF_DIR, Fails, Target, attempt, bx, hx, raised, seq
from vf.ref import mnemonic as ref

PROPERTY = "C10"
LEVEL = "exploration"
RULE = (
    "entropy-enum: every length 0..72 bytes with three fills, plus every single-bit-set and single-bit-clear entropy of the "
    "five valid lengths. entropy: valid-length entropies built by construction (random, zeros, ones, one bit, repeated byte, "
    "leading/trailing zero bytes, an 11-bit group forced to 0/2047, sparse) and invalid lengths. accept-set: a reference "
    "mnemonic edited by construction (replace a word by a list word / neighbour / non-list token: capitalised, prefix, "
    "suffix, typo, full-width, accented, zero-width, control, digits, foreign, arbitrary text; insert or delete 1..3 "
    "words; swap; duplicate; flip checksum bits only; re-encode a changed entropy) or a random list-word sequence; the "
    "verdict and decoded entropy must equal the reference decision procedure, rejection is any exception. last-word: for "
    "one entropy, the last word is replaced by each of the 2048 list words (exhaustive): exactly the reference-accepted "
    "ones are accepted and decode to the reference entropy. seed: valid mnemonics (also joined with U+3000 / full-width) "
    "and arbitrary text, passphrases biased to compatibility characters (full-width, precomposed, ligatures, Hangul, "
    "squared kana, combining marks in non-canonical order); to_seed must equal an explicit-HMAC PBKDF2. wordlist: the list "
    "the library uses (derived through calculate_mnemonic_phrase, load_wordlist() and english.txt) must be the pinned "
    "official English list. trezor-vectors: the 24 Trezor vectors incl. the seed column. Non-trivial: degenerate entropy "
    "or invalid length, a sequence that differs from its base mnemonic, an exhaustive last-word sweep, a passphrase or "
    "mnemonic changed by NFKD, an official vector. Distinct = distinct canonical case encodings."
)
ASSUMPTIONS = [
    "vf/ref/mnemonic.py (bit-string BIP39, explicit RFC 2104/2898 loop; validated on Trezor vectors, RFC 4231 and PBKDF2 "
    "vectors), hashlib.sha256/sha512 and unicodedata.normalize('NFKD') are correct",
    "the embedded word list vf/ref/bip39_english.txt (SHA-256 pinned; canonical digest equals the official "
    "bitcoin/bips english.txt) is the 'English list' of the statement",
    "a word sequence is presented to to_entropy as its tokens joined by single U+0020; tokens are non-empty and contain "
    "no whitespace; nothing is asserted about other separators",
    "'in the list' is literal string membership: capitalised, prefix, full-width or accented forms are not list words",
    "rejection means any exception; to_seed refusing a mnemonic that is not a reference-valid mnemonic is not a failure",
    "strings contain no lone surrogates (not encodable as UTF-8)",
]
SELFCHECKS = [ref.selfcheck]

LENS = list(ref.VALID_ENTROPY_BYTES)
COUNTS = list(ref.VALID_WORD_COUNTS)
W = ref.WORDS
IDX = ref.INDEX


def _lib():
    import bits.bips.bip39 as m

    return m


def _is_bytes(x):
    return isinstance(x, (bytes, bytearray))


# ================================================================ entropy -> mnemonic -> entropy


def _entropy_classes(data):
    n = len(data)
    if n not in LENS:
        cls = ["nt:invalid-length"]
        if n == 0:
            cls.append("invalid:empty")
        elif n < 16:
            cls.append("invalid:lt-16")
        elif n > 32:
            cls.append("invalid:gt-32")
        else:
            cls.append("invalid:between")
        cls.append("invalid:mult4" if n % 4 == 0 else "invalid:non-mult4")
        return cls
    cls = [f"len:{n}"]
    plen = len(ref.to_mnemonic(data))
    nw = (8 * n + n // 4) // 11
    if plen >= nw * 8 + nw - 1 - 10:
        cls.append("nt:phrase-near-maximal-length")  # e.g. 24 words, more than 200 characters
        if n == 32 and plen > 192:
            cls.append("nt:phrase-24-words-over-192-chars")
    elif plen <= nw * 3 + nw - 1 + 10:
        cls.append("nt:phrase-near-minimal-length")
    v = int.from_bytes(data, "big")
    nbits = 8 * n
    pop = bin(v).count("1")
    if pop == 0:
        cls.append("nt:zeros")
    elif pop == nbits:
        cls.append("nt:ones")
    elif pop == 1:
        cls.append("nt:single-bit-set")
    elif pop == nbits - 1:
        cls.append("nt:single-bit-clear")
    elif len(set(data)) == 1:
        cls.append("nt:repeated-byte")
    if data[0] == 0 and pop:
        cls.append("nt:leading-zero-byte")
    if data[-1] == 0 and pop:
        cls.append("nt:trailing-zero-byte")
    words = ref.to_words(data)
    if pop not in (0, nbits) and any(IDX[w] in (0, 2047) for w in words):
        cls.append("nt:extreme-word")
    if len(cls) == 1:
        cls.append("random")
    return cls


def check_entropy(case):
    lib = _lib()
    data = bx(case["ent"])
    f = Fails()
    cls = _entropy_classes(data)
    n = len(data)
    got = attempt(lib.calculate_mnemonic_phrase, data)
    if n not in LENS:
        sub = "empty" if n == 0 else "lt-16" if n < 16 else "gt-32" if n > 32 else "between"
        f.expect(raised(got), f"encode/invalid-length-accepted/{sub}", f"{n} bytes -> {got!r}")
        return cls, f
    exp = ref.to_words(data)
    own = None
    if raised(got):
        f.add("encode/valid-entropy-refused", f"{n} bytes: {got!r}")
    elif not isinstance(got, str):
        f.add("encode/not-a-string", repr(got)[:80])
    else:
        own = got
        gw = got.split()
        if len(gw) != len(exp):
            f.add("encode/word-count", f"{n} bytes -> {len(gw)} words, want {len(exp)}")
        elif any(w not in IDX for w in gw):
            f.add("encode/non-list-word", f"{[w for w in gw if w not in IDX][:3]!r}")
        elif gw != exp:
            if gw[:-1] == exp[:-1]:
                f.add("encode/checksum-word-ne-reference", f"last word {gw[-1]!r} want {exp[-1]!r}")
            else:
                f.add("encode/ne-reference", f"got {got!r} want {' '.join(exp)!r}")
    # decoding of the reference mnemonic (independent of the library's encoder)
    back = attempt(lib.to_entropy, " ".join(exp))
    if raised(back):
        f.add("decode/valid-mnemonic-rejected", f"{back!r}")
    else:
        f.expect(_is_bytes(back) and bytes(back) == data, "decode/ne-entropy", f"{back!r} want {data.hex()}")
    # the library's own output converts back to exactly that entropy
    if own is not None and own.split() != exp:
        rt = attempt(lib.to_entropy, own)
        f.expect(
            not raised(rt) and _is_bytes(rt) and bytes(rt) == data,
            "roundtrip/own-mnemonic-ne-entropy",
            f"{rt!r} want {data.hex()}",
        )
    return cls, f


def entropy_enum(tier):
    for n in range(0, 73):
        for fill in ("00", "ff", "a5"):
            yield {"kind": "len-sweep", "ent": fill * n}
    for n in LENS:
        nbits = 8 * n
        ones = (1 << nbits) - 1
        for i in range(nbits):
            yield {"kind": "bit-set", "ent": hx((1 << i).to_bytes(n, "big"))}
            yield {"kind": "bit-clear", "ent": hx((ones ^ (1 << i)).to_bytes(n, "big"))}


@st.composite
def entropies(draw, n=None):
    """Entropy of a valid length, built by construction; returns bytes."""
    if n is None:
        n = draw(st.sampled_from(LENS))
    nbits = 8 * n
    ones = (1 << nbits) - 1
    kind = draw(
        st.sampled_from(
            ["random", "random", "random", "random", "random", "random", "zeros", "ones", "bit-set", "bit-clear", "rep-byte", "lead-zeros",
             "trail-zeros", "extreme-word", "sparse", "word-length"]
        )
    )
    if kind == "word-length":
        # every word wholly inside the entropy bits is one of the longest (8 letters) or of the shortest (3 letters)
        # words: the phrase is as long / as short as a phrase of that many words gets (215 characters for 24 words)
        want = draw(st.sampled_from([8, 8, 3]))
        pool = [i for i, w in enumerate(W) if len(w) == want]
        nwords = (nbits + nbits // 32) // 11
        v = draw(st.integers(0, 2**11 - 1))
        for _ in range(nwords - 1):
            v = (v << 11) | pool[draw(st.integers(0, len(pool) - 1))]
        used = 11 * (nwords - 1)
        v = (v & ((1 << used) - 1)) << (nbits - used) | draw(st.integers(0, (1 << (nbits - used)) - 1))
        return (v & ones).to_bytes(n, "big")
    if kind == "zeros":
        return bytes(n)
    if kind == "ones":
        return b"\xff" * n
    if kind == "bit-set":
        return (1 << draw(st.integers(0, nbits - 1))).to_bytes(n, "big")
    if kind == "bit-clear":
        return (ones ^ (1 << draw(st.integers(0, nbits - 1)))).to_bytes(n, "big")
    if kind == "rep-byte":
        return bytes([draw(st.integers(0, 255))]) * n
    if kind == "sparse":
        v = 0
        for _ in range(draw(st.integers(2, 4))):
            v |= 1 << draw(st.integers(0, nbits - 1))
        return v.to_bytes(n, "big")
    if kind == "random" and draw(st.booleans()):
        # uniform-looking bytes expanded from one drawn integer (st.binary is biased towards small bytes)
        body = hashlib.shake_256(draw(st.integers(0, 2**64 - 1)).to_bytes(8, "big")).digest(n)
    else:
        body = draw(st.binary(min_size=n, max_size=n))
    if kind == "lead-zeros":
        k = draw(st.integers(1, n - 1))
        return bytes(k) + body[k:]
    if kind == "trail-zeros":
        k = draw(st.integers(1, n - 1))
        return body[: n - k] + bytes(k)
    if kind == "extreme-word":
        nwords = (nbits + nbits // 32) // 11
        g = draw(st.integers(0, nwords - 2))  # a group that lies wholly inside the entropy bits
        v = int.from_bytes(body, "big")
        shift = nbits - 11 * (g + 1)
        mask = 0x7FF << shift
        v = (v | mask) if draw(st.booleans()) else (v & ~mask)
        return (v & ones).to_bytes(n, "big")
    return body


@st.composite
def entropy_cases(draw):
    if draw(st.integers(0, 9)) == 0:
        n = draw(st.sampled_from([i for i in range(0, 41) if i not in LENS] + [48, 64]))
        fill = draw(st.sampled_from(["zeros", "ones", "random"]))
        data = bytes(n) if fill == "zeros" else b"\xff" * n if fill == "ones" else draw(st.binary(min_size=n, max_size=n))
        return {"kind": "invalid-length", "ent": hx(data)}
    return {"kind": "valid", "ent": hx(draw(entropies()))}


# ================================================================ accept set of word sequences


def _nfkd(s):
    return unicodedata.normalize("NFKD", s)


def token_class(tok):
    """Structural class of a token that is not a list word."""
    if tok in IDX:
        return "list"
    if tok.lower() in IDX or tok.casefold() in IDX:
        return "case-variant"
    folded = [unicodedata.normalize(form, tok) for form in ("NFKD", "NFKC")]
    stripped = "".join(ch for ch in _nfkd(tok) if not unicodedata.combining(ch) and unicodedata.category(ch) != "Cf")
    if any(x in IDX or x.lower() in IDX for x in folded + [stripped]):
        return "unicode-equivalent"
    if tok.isascii():
        if tok and any(w.startswith(tok) for w in W):
            return "prefix"
        if any(tok.startswith(w) for w in W):
            return "list-word-extended"
        if tok.isalpha() and tok.islower():
            return "ascii-nonword"
        return "ascii-other"
    return "unicode"


def _check_tokens(words):
    # harness precondition (never a library failure): the joined string tokenises back to the same tokens
    s = " ".join(words)
    if s.split() != list(words):
        raise RuntimeError(f"generator produced a token with whitespace or an empty token: {words!r}")
    return s


def check_sequence(case):
    lib = _lib()
    words = list(case["words"])
    s = _check_tokens(words)
    f = Fails()
    cls = []
    base = ref.to_words(bx(case["base"])) if case.get("base") else None
    if base is not None and words != base:
        cls.append("nt:mutated")
        for k in case.get("kinds", []):
            cls.append("mut:" + k)
    elif base is None:
        cls.append("nt:free-sequence")
    else:
        cls.append("unmutated")
    cls.append(f"words:{len(words)}" if len(words) in COUNTS else "words:invalid-count")
    want, reason = ref.decode_words(words)
    got = attempt(lib.to_entropy, s)
    if want is not None:
        cls.append("expect-accept")
        if raised(got):
            f.add("accept/valid-sequence-rejected", f"{s!r}: {got!r}")
        else:
            f.expect(
                _is_bytes(got) and bytes(got) == want,
                "accept/decodes-ne-reference",
                f"{s!r}: {got!r} want {want.hex()}",
            )
        return cls, f
    cls.append("expect-reject:" + reason)
    sub = reason
    if reason == "non-list-word":
        tc = sorted({token_class(w) for w in words if w not in IDX})
        for c in tc:
            cls.append("tok:" + c)
        # signature family by likely root cause: fuzzy matching / case folding / normalising / no lookup at all
        fam = {"prefix": "near-word", "list-word-extended": "near-word", "ascii-nonword": "near-word"}
        sub = "non-list-word/" + sorted({fam.get(c, c) for c in tc})[0]
    if not raised(got):
        f.add(f"accept/invalid-accepted/{sub}", f"{s!r} -> {got!r}")
    return cls, f


_FULLWIDTH = {chr(c): chr(c - 0x61 + 0xFF41) for c in range(0x61, 0x7B)}
_ACCENT = {"a": "á", "e": "é", "i": "ï", "o": "ö", "u": "ü", "n": "ñ", "c": "ç", "y": "ý"}
_FOREIGN = [
    "あいこくしん",  # first word of the Japanese list
    "ábaco", "abaisser", "abaco", "abdikace", "的", "一", "가격",
    "ａｂａｎｄｏｎ", "\U0001f600", "ß", "ı",
]
# no whitespace (str.isspace) lives outside these categories
TOKEN_CHARS = st.characters(exclude_categories=("Cs", "Cc", "Zs", "Zl", "Zp"))
_LETTERS = "abcdefghijklmnopqrstuvwxyz"


@st.composite
def list_word(draw, near=None):
    mode = draw(st.sampled_from(["any", "any", "near", "edge"]))
    if mode == "near" and near in IDX:
        return W[(IDX[near] + draw(st.sampled_from([-2, -1, 1, 2]))) % 2048]
    if mode == "edge":
        return W[draw(st.sampled_from([0, 1, 2, 3, 1023, 1024, 2045, 2046, 2047]))]
    return W[draw(st.integers(0, 2047))]


@st.composite
def odd_token(draw, w):
    """A token derived from list word w that is usually (the reference decides) not a list word."""
    kind = draw(
        st.sampled_from(
            ["capital", "upper", "mixed", "prefix4", "prefix", "suffix", "del-char", "swap-char", "sub-char",
             "fullwidth", "fullwidth1", "accent-combining", "accent-precomposed", "zero-width", "control", "number",
             "foreign", "text"]
        )
    )
    if kind == "capital":
        return w.capitalize()
    if kind == "upper":
        return w.upper()
    if kind == "mixed":
        i = draw(st.integers(0, len(w) - 1))
        return w[:i] + w[i].upper() + w[i + 1 :]
    if kind == "prefix4":
        return w[:4] if len(w) > 4 else w[:-1]
    if kind == "prefix":
        return w[: draw(st.integers(1, len(w) - 1))]
    if kind == "suffix":
        return w + draw(st.sampled_from(["s", "x", "e", "d", "ing", "1", ".", ",", "-", "'", w]))
    if kind == "del-char":
        i = draw(st.integers(0, len(w) - 1))
        return w[:i] + w[i + 1 :]
    if kind == "swap-char":
        i = draw(st.integers(0, len(w) - 2))
        return w[:i] + w[i + 1] + w[i] + w[i + 2 :]
    if kind == "sub-char":
        i = draw(st.integers(0, len(w) - 1))
        return w[:i] + draw(st.sampled_from(_LETTERS)) + w[i + 1 :]
    if kind == "fullwidth":
        return "".join(_FULLWIDTH[c] for c in w)
    if kind == "fullwidth1":
        i = draw(st.integers(0, len(w) - 1))
        return w[:i] + _FULLWIDTH[w[i]] + w[i + 1 :]
    if kind == "accent-combining":
        i = draw(st.integers(1, len(w)))
        return w[:i] + draw(st.sampled_from(["\u0301", "\u0308", "\u0323"])) + w[i:]
    if kind == "accent-precomposed":
        pos = [i for i, c in enumerate(w) if c in _ACCENT]
        if not pos:
            return w + "é"
        i = draw(st.sampled_from(pos))
        return w[:i] + _ACCENT[w[i]] + w[i + 1 :]
    if kind == "zero-width":
        z = draw(st.sampled_from(["\u200b", "\ufeff", "\u200d", "\u2060", "\u00ad"]))
        return draw(st.sampled_from([z, w + z, z + w, w[:1] + z + w[1:]]))
    if kind == "control":
        z = draw(st.sampled_from(["\x00", "\x7f", "\x01", "\x1b"]))
        return draw(st.sampled_from([z, w + z, z + w]))
    if kind == "number":
        i = IDX[w]
        return draw(st.sampled_from([str(i), str(i + 1), format(i, "011b"), hex(i), "0", "-1", "2048"]))
    if kind == "foreign":
        return draw(st.sampled_from(_FOREIGN))
    return draw(st.text(alphabet=TOKEN_CHARS, min_size=1, max_size=8))


def _position(draw, n):
    return draw(st.one_of(st.sampled_from([0, n - 1]), st.integers(0, n - 1)))


@st.composite
def sequence_cases(draw):
    top = draw(
        st.sampled_from(["valid", "edit", "edit", "edit", "edit", "edit", "random-seq", "cs-flip", "re-encode"])
    )
    if top == "random-seq":
        if draw(st.integers(0, 5)) == 0:
            n = draw(st.integers(0, 27))
        else:
            n = draw(st.sampled_from(COUNTS))
        words = [draw(list_word()) for _ in range(n)]
        return {"kind": top, "base": "", "words": words, "kinds": [top]}
    ent = draw(entropies())
    base = ref.to_words(ent)
    words = list(base)
    kinds = []
    if top == "cs-flip":
        cs = len(base) // 3
        words[-1] = W[IDX[words[-1]] ^ draw(st.integers(1, (1 << cs) - 1))]
        kinds.append("cs-flip")
    elif top == "re-encode":
        how = draw(st.sampled_from(["bit", "last-byte", "first-byte"]))
        b = bytearray(ent)
        if how == "bit":
            i = draw(st.integers(0, 8 * len(b) - 1))
            b[i // 8] ^= 0x80 >> (i % 8)
        elif how == "last-byte":
            b[-1] = draw(st.integers(0, 255))
        else:
            b[0] = draw(st.integers(0, 255))
        words = ref.to_words(bytes(b))
        kinds.append("re-encode")
    elif top == "edit":
        for _ in range(draw(st.integers(1, 2))):
            op = draw(st.sampled_from(["sub-list", "sub-list", "sub-odd", "sub-odd", "sub-odd", "add", "remove", "swap", "dup"]))
            if op in ("sub-list", "sub-odd", "swap", "dup", "remove") and not words:
                continue
            if op == "sub-list":
                i = _position(draw, len(words))
                words[i] = draw(list_word(near=words[i]))
            elif op == "sub-odd":
                i = _position(draw, len(words))
                src = words[i] if words[i] in IDX and draw(st.booleans()) else draw(list_word())
                words[i] = draw(odd_token(src))
            elif op == "add":
                for _ in range(draw(st.integers(1, 3))):
                    i = draw(st.one_of(st.sampled_from([0, len(words)]), st.integers(0, len(words))))
                    tok = draw(list_word()) if draw(st.integers(0, 4)) else draw(odd_token(draw(list_word())))
                    words.insert(i, tok)
            elif op == "remove":
                for _ in range(draw(st.integers(1, min(3, len(words))))):
                    del words[_position(draw, len(words))]
            elif op == "swap":
                if len(words) >= 2:
                    i = _position(draw, len(words))
                    j = _position(draw, len(words))
                    words[i], words[j] = words[j], words[i]
            elif op == "dup":
                i = _position(draw, len(words))
                j = _position(draw, len(words))
                words[i] = words[j]
            kinds.append(op)
    return {"kind": top, "base": hx(ent), "words": words, "kinds": kinds}


# ================================================================ exhaustive last-word replacement


def check_last_word(case):
    lib = _lib()
    ent = bx(case["ent"])
    base = ref.to_words(ent)
    if base is None:
        raise RuntimeError("last-word case needs an entropy of a valid length")
    f = Fails()
    cs = len(base) // 3
    cls = ["nt:last-word-exhaustive", f"words:{len(base)}"]
    head = base[:-1]
    prefix = " ".join(head) + " "
    n_ref = 0
    per_group = {}
    inv_acc, val_rej, val_ne = [], [], []
    for i, w in enumerate(W):
        want, reason = ref.decode_words(head + [w])
        got = attempt(lib.to_entropy, prefix + w)
        if want is None:
            if reason != "bad-checksum":
                raise RuntimeError("reference: list-word replacement rejected for a reason other than the checksum")
            if not raised(got):
                inv_acc.append((w, got))
        else:
            n_ref += 1
            per_group[i >> cs] = per_group.get(i >> cs, 0) + 1
            if raised(got):
                val_rej.append((w, got))
            elif not (_is_bytes(got) and bytes(got) == want):
                val_ne.append((w, got, want))
    # the reference itself must realise the counting clause, otherwise the harness is broken
    if n_ref != 1 << (11 - cs) or set(per_group.values()) != {1} or len(per_group) != 1 << (11 - cs):
        raise RuntimeError("reference accept set is not one sequence per entropy-bit pattern")
    if inv_acc:
        w, got = inv_acc[0]
        f.add(
            "last-word/invalid-accepted",
            f"{len(inv_acc)} of {2048 - n_ref} checksum-invalid last words accepted, e.g. {prefix + w!r} -> {got!r}",
        )
    if val_rej:
        w, got = val_rej[0]
        f.add("last-word/valid-rejected", f"{len(val_rej)} of {n_ref} valid last words rejected, e.g. {w!r}: {got!r}")
    if val_ne:
        w, got, want = val_ne[0]
        f.add("last-word/decodes-ne-reference", f"{len(val_ne)} of {n_ref}, e.g. {w!r}: {got!r} want {want.hex()}")
    return cls, f


def last_word_enum(tier):
    for n in LENS:
        yield {"ent": "00" * n}
        yield {"ent": "ff" * n}


@st.composite
def last_word_cases(draw):
    return {"ent": hx(draw(entropies()))}


# ================================================================ seed

_COMPAT = [
    "\uff21", "\uff5a", "\uff34\uff32\uff25\uff3a\uff2f\uff32",  # full-width Latin (A, z, TREZOR)
    "\u00e9", "\u00f1", "\u00c5", "\u212b", "\u2126", "\u01d6", "\u0390", "\u1e9b", "\u1e9b\u0323",  # precomposed, singletons
    "\ufb01", "\ufb00", "\ufb03", "\u01c6", "\u017f", "\u00df",  # ligatures, dz digraph, long s, sharp s
    "\ud55c", "\uac01", "\ud7a3", "\uac00",  # Hangul syllables (LVT and LV)
    "\u334d", "\u3314", "\u32f1", "\u3231", "\u338f", "\u2103",  # squared kana / CJK compatibility
    "\u2460", "\u00b2", "\u00bd", "\u2167", "\u2026", "\u2122",  # circled, superscript, fraction, roman, ellipsis, TM
    "\uff76\uff9e", "\uff8a\uff9f", "\u304c", "\u3071",  # half-width kana + marks, precomposed kana
    "\uf900", "\ufb1d", "\ufdfa",  # compatibility ideograph, Hebrew presentation form, Arabic ligature
    "\u00a0", "\u3000", "\u2003",  # spaces that NFKD maps to U+0020
    "\u0301", "\u0323", "\u0307", "\u0327", "\u0301\u0323", "\u0307\u0323", "\u3099",  # combining marks, some in non-canonical order
    "\u0130", "\u1e0d\u0307", "q\u0307\u0323",
]
_ASCII = [chr(c) for c in range(0x20, 0x7F)]
_ANY_CHAR = st.characters(exclude_categories=("Cs",))
_SEED_CHAR = st.one_of(st.sampled_from(_COMPAT), st.sampled_from(_COMPAT), st.sampled_from(_ASCII), _ANY_CHAR)
_FIXED_PASS = [
    "", "", "TREZOR", "\uff34\uff32\uff25\uff3a\uff2f\uff32", "\u0301x", "\u0301\u0323", "pass phrase", "\u00a0", "\u3000",
    # passphrase of the BIP39 Japanese test vectors (precomposed kana, half-width marks, NFKD-expanding)
    "\u30e1\u30fc\u30c8\u30eb\u30ac\u30d0\u30f4\u30a1\u3071\u3070\u3050\u3099\u3061\u3062\u5341\u4eba\u5341\u8272",
    "mnemonic", "\x00", "a" * 200,
]
_JP = ["\u3042\u3044\u3053\u304f\u3057\u3093", "\u304c\u3063\u3053\u3046", "\u3071\u305d\u3053\u3093", "\u3056\u3063\u3057", "\u3079\u3093\u3054\u3057"]


@st.composite
def seed_cases(draw):
    pk = draw(st.sampled_from(["fixed", "compat", "compat", "compat", "ascii"]))
    if pk == "fixed":
        p = draw(st.sampled_from(_FIXED_PASS))
    elif pk == "ascii":
        p = "".join(draw(st.lists(st.sampled_from(_ASCII), max_size=16)))
    else:
        p = "".join(draw(st.lists(_SEED_CHAR, min_size=1, max_size=10)))
    mk = draw(st.sampled_from(["valid", "valid", "valid", "valid", "valid-u3000", "valid-u3000", "valid-fullwidth", "valid-fullwidth",
                                "japanese", "japanese", "text", "text", "text", "empty"]))
    if mk == "empty":
        m = ""
    elif mk == "text":
        m = "".join(draw(st.lists(_SEED_CHAR, max_size=40)))
    elif mk == "japanese":
        m = "\u3000".join(draw(st.lists(st.sampled_from(_JP), min_size=12, max_size=12)))
    else:
        words = ref.to_words(draw(entropies()))
        if mk == "valid-u3000":
            m = "\u3000".join(words)
        elif mk == "valid-fullwidth":
            i = draw(st.integers(0, len(words) - 1))
            words[i] = "".join(_FULLWIDTH[c] for c in words[i])
            m = " ".join(words)
        else:
            m = " ".join(words)
    return {"m": m, "p": p}


def check_seed(case):
    lib = _lib()
    m, p = case["m"], case["p"]
    f = Fails()
    cls = []
    dm, dp = _nfkd(m), _nfkd(p)
    changes = False
    if dp != p:
        cls.append("nt:p-nfkd-changes")
        changes = True
    if unicodedata.normalize("NFKC", p) != dp:
        cls.append("nt:p-nfkc-ne-nfkd")
    if p and unicodedata.combining(p[0]):
        cls.append("nt:p-leading-combining")
    if dm != m:
        cls.append("nt:m-nfkd-changes")
        changes = True
    if unicodedata.normalize("NFKC", m) != dm:
        cls.append("nt:m-nfkc-ne-nfkd")
    cls.append("p:empty" if p == "" else "p:ascii" if p.isascii() else "p:non-ascii")
    valid = ref.decode_words(m.split(" "))[0] is not None
    cls.append("m:valid-mnemonic" if valid else "m:empty" if m == "" else "m:other-text")
    if len(dm.encode("utf-8")) > 128:
        cls.append("m:key-gt-hmac-block")
    want = ref.seed(m, p)
    sub = "nfkd-changes-input" if changes else "nfkd-invariant-input"
    calls = [("explicit", (m, p))]
    if p == "":
        calls.append(("default", (m,)))
    for how, args in calls:
        got = attempt(lib.to_seed, *args)
        if raised(got):
            if valid:
                f.add(f"seed/raised/{sub}", f"{got!r}")
            else:
                cls.append("lib-refused-nonstandard-mnemonic")
            continue
        ok = _is_bytes(got) and bytes(got) == want
        if how == "default":
            f.expect(ok, "seed/default-passphrase-ne-empty", f"{got!r}")
        else:
            shown = f"{len(got)} bytes {bytes(got).hex()[:32]}.." if _is_bytes(got) else repr(got)[:80]
            f.expect(ok, f"seed/ne-reference/{sub}", f"m={m[:60]!r} p={p[:40]!r}: got {shown} want 64 bytes {want.hex()[:32]}..")
    return cls, f


# ================================================================ word list


def check_wordlist(case):
    lib = _lib()
    f = Fails()
    cls = ["nt:wordlist"]
    diffs = []
    # (1) the list as the library uses it: word i is the first word of an entropy whose leading 11 bits are i
    derived = []
    for i in range(2048):
        got = attempt(lib.calculate_mnemonic_phrase, (i << 117).to_bytes(16, "big"))
        derived.append(got.split()[0] if isinstance(got, str) and got.split() else None)
    if tuple(derived) != W:
        j = next(k for k in range(2048) if derived[k] != W[k])
        uniq = len(set(derived)) == 2048
        srt = all(isinstance(x, str) for x in derived) and derived == sorted(derived)
        diffs.append(f"encoder index {j} -> {derived[j]!r} want {W[j]!r} (unique={uniq} sorted={srt})")
    cls.append("derived-through-encoder")
    # (2) load_wordlist(), when the library still has it
    lw = getattr(lib, "load_wordlist", None)
    if callable(lw):
        cls.append("load_wordlist")
        lst = attempt(lw)
        if raised(lst) or seq(lst) != W:
            n = len(lst) if isinstance(lst, (list, tuple)) else None
            diffs.append(f"load_wordlist() -> {n} entries, not the pinned 2048 words")
    # (3) the file named by the property's anchor, when present
    path = os.path.join(os.path.dirname(os.path.abspath(lib.__file__)), "english.txt")
    if os.path.isfile(path):
        cls.append("english.txt")
        raw = open(path, "rb").read()
        try:
            words = [ln.strip() for ln in raw.decode("utf-8").splitlines()]
        except UnicodeDecodeError:
            words = []
        if hashlib.sha256(raw).hexdigest() != ref.EMBEDDED_FILE_SHA256:
            cls.append("english.txt-bytes-differ-from-pin")
        if ref.canonical_list_digest(words) != ref.CANONICAL_LIST_SHA256:
            uniq = len(set(words))
            diffs.append(
                f"english.txt: {len(words)} lines, {uniq} unique, sorted={words == sorted(words)}, canonical sha256 "
                f"{ref.canonical_list_digest(words)[:16]}.. != pinned {ref.CANONICAL_LIST_SHA256[:16]}.."
            )
    if diffs:
        f.add("wordlist/ne-pinned-english-list", "; ".join(diffs))
    return cls, f


def wordlist_enum(tier):
    yield {"what": "english"}


# ================================================================ official vectors

_CORPUS = os.path.join(VERIF_DIR, "corpus", "C10", "trezor.json")


def trezor_enum(tier):
    for e in json.load(open(_CORPUS)):
        if e["target"] == "trezor-vectors":
            yield e["case"]


def check_vector(case):
    lib = _lib()
    ent = bx(case["ent"])
    mn, pw, seed = case["mnemonic"], case["passphrase"], bx(case["seed"])
    # an official vector the reference does not reproduce is a harness error, never a violation
    if ref.to_mnemonic(ent) != mn or ref.decode_words(mn.split(" "))[0] != ent or ref.seed(mn, pw) != seed:
        raise RuntimeError("corpus vector disagrees with the reference oracle")
    f = Fails()
    cls = ["nt:official-vector", f"words:{len(mn.split(' '))}"]
    got = attempt(lib.calculate_mnemonic_phrase, ent)
    f.expect(isinstance(got, str) and got.split() == mn.split(" "), "vector/mnemonic-ne-vector", f"{got!r}")
    back = attempt(lib.to_entropy, mn)
    f.expect(_is_bytes(back) and bytes(back) == ent, "vector/entropy-ne-vector", f"{back!r}")
    sd = attempt(lib.to_seed, mn, pw)
    f.expect(_is_bytes(sd) and bytes(sd) == seed, "vector/seed-ne-vector", f"{sd!r}")
    return cls, f


# ================================================================ targets


def targets(tier):
    return [
        Target(
            "entropy-enum",
            check_entropy,
            enumerate_=entropy_enum,
            required=["nt:zeros", "nt:ones", "nt:single-bit-set", "nt:single-bit-clear", "nt:invalid-length",
                      "invalid:empty", "invalid:lt-16", "invalid:between", "invalid:gt-32", "invalid:mult4",
                      "len:16", "len:20", "len:24", "len:28", "len:32"],
        ),
        Target(
            "entropy",
            check_entropy,
            strategy=lambda tier: entropy_cases(),
            budget={"quick": 4000, "thorough": 80000},
            required=["random", "nt:zeros", "nt:ones", "nt:single-bit-set", "nt:leading-zero-byte", "nt:extreme-word", "nt:phrase-near-maximal-length", "nt:phrase-24-words-over-192-chars",
                      "nt:phrase-near-minimal-length", "nt:invalid-length", "len:16", "len:20", "len:24", "len:28", "len:32"],
        ),
        Target(
            "accept-set",
            check_sequence,
            strategy=lambda tier: sequence_cases(),
            budget={"quick": 8000, "thorough": 240000},
            required=["nt:mutated", "unmutated", "expect-accept", "expect-reject:bad-length",
                      "expect-reject:non-list-word", "expect-reject:bad-checksum", "mut:cs-flip", "mut:sub-list",
                      "mut:sub-odd", "mut:add", "mut:remove", "mut:re-encode", "tok:case-variant", "tok:prefix",
                      "tok:list-word-extended", "tok:unicode-equivalent", "tok:unicode", "words:12", "words:15",
                      "words:18", "words:21", "words:24", "words:invalid-count"],
        ),
        Target(
            "last-word-degenerate",
            check_last_word,
            enumerate_=last_word_enum,
            required=["nt:last-word-exhaustive", "words:12", "words:15", "words:18", "words:21", "words:24"],
            shards=10,
        ),
        Target(
            "last-word",
            check_last_word,
            strategy=lambda tier: last_word_cases(),
            budget={"quick": 48, "thorough": 800},
            required=["nt:last-word-exhaustive"],
        ),
        Target(
            "seed",
            check_seed,
            strategy=lambda tier: seed_cases(),
            budget={"quick": 2400, "thorough": 48000},
            required=["nt:p-nfkd-changes", "nt:p-nfkc-ne-nfkd", "nt:m-nfkd-changes", "nt:p-leading-combining",
                      "p:empty", "p:ascii", "p:non-ascii", "m:valid-mnemonic", "m:other-text", "m:key-gt-hmac-block"],
        ),
        Target("wordlist", check_wordlist, enumerate_=wordlist_enum, required=["nt:wordlist", "derived-through-encoder"], shards=1),
        Target(
            "trezor-vectors",
            check_vector,
            enumerate_=trezor_enum,
            required=["nt:official-vector", "words:12", "words:18", "words:24"],
            shards=8,
        ),
    ]


def evidence_extra(tier):
    return {
        "wordlist_pin": {"file_sha256": ref.EMBEDDED_FILE_SHA256, "canonical_sha256": ref.CANONICAL_LIST_SHA256},
        "official_vectors": sum(1 for _ in trezor_enum(tier)),
    }
