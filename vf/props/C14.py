"""C14 — key containers (SEC1, WIF, PEM) round-trip; only well-formed input accepted."""
import base64
from hypothesis import strategies as st

from vf import gen
from vf.core import Fails, Target, attempt, bx, hx, raised, seq
from vf.ref import base58 as rb58
from vf.ref import ec

PROPERTY = "C14"
LEVEL = "exploration"
N, P = ec.N, ec.P
RULE = (
    "sec1-roundtrip: points kG for boundary-biased k, both forms: pubkey->point->pubkey identity, compressed_pubkey. sec1-accept: "
    "binary(0..70) plus structured candidates (valid encodings; right prefix with length 32/34/64/66 or the other form's length; "
    "x>=p; x with non-residue x^3+7; y perturbed; y->p-y; hybrid 06/07; prefixes 00,01,05,08,ff): point(b) returns (x,y) iff the "
    "reference SEC1 decoder accepts b, is_point(b) is that boolean. wif: keys in [1,n-1] (up to 31 leading zero bytes) x 3 networks "
    "x 8 types x suffix 0..120 bytes round trip (tuple and dict forms); 1-2 edit mutations of WIF strings and checksum-valid "
    "strings with unknown version bytes must be rejected (expectation computed by the reference checksum rule + version table); "
    "encoders refuse keys 0, n, 2^256-1 and wrong lengths. pem: pem_encode_key/pem_decode_key round trip for private and public "
    "keys and interop with OpenSSL (cryptography) in both directions. Non-trivial: leading-zero key, near-valid negative input, "
    "non-empty suffix, OpenSSL interop."
)
ASSUMPTIONS = ["vf/ref/ec.py SEC1 decoder (strict, no hybrid form), vf/ref/base58.py", "OpenSSL via cryptography is the external PEM reader/writer; only the two PEM formats bits emits are used"]
SELFCHECKS = [ec.selfcheck, rb58.selfcheck]

try:
    from cryptography.hazmat.primitives import serialization as cser
    from cryptography.hazmat.primitives.asymmetric import ec as cec

    HAVE_OPENSSL = True
except ImportError:  # pragma: no cover
    HAVE_OPENSSL = False
    ASSUMPTIONS.append("cryptography not importable: OpenSSL interop sub-clauses were NOT exercised in this run")

WIF_TYPES = ["p2pkh", "p2wpkh", "p2sh-p2wpkh", "p2pk", "multisig", "p2sh", "p2wsh", "p2sh-p2wsh"]
WIF_VERSIONS = {0x80 + i: ("mainnet", t) for i, t in enumerate(WIF_TYPES)}
WIF_VERSIONS.update({0xEF + i: ("testnet", t) for i, t in enumerate(WIF_TYPES)})


def check_roundtrip(case):
    import bits
    from bits.utils import compressed_pubkey

    k = case["k"]
    pt = ec.mul(k % N or 1, ec.G)
    f = Fails()
    cls = ["nt:leading-zero-x" if pt[0] < 1 << 248 or pt[1] < 1 << 248 else "point"]
    for comp in (True, False):
        want = ec.sec1_encode(pt, comp)
        enc = attempt(bits.pubkey, pt[0], pt[1], compressed=comp)
        tag = "c" if comp else "u"
        if f.expect(enc == want, f"sec1/encode-ne-reference/{tag}", repr(enc)[:80]):
            dec = attempt(bits.point, enc)
            f.expect(not raised(dec) and seq(dec) == pt, f"sec1/decode-of-encode-ne-point/{tag}", repr(dec)[:100])
            isp = attempt(bits.is_point, enc)
            f.expect(isp is True, f"sec1/is_point-false-on-valid/{tag}", repr(isp))
    cp = attempt(compressed_pubkey, ec.sec1_encode(pt, False))
    f.expect(cp == ec.sec1_encode(pt, True), "sec1/compressed_pubkey-ne-reference", repr(cp)[:80])
    cp2 = attempt(compressed_pubkey, ec.sec1_encode(pt, True))
    f.expect(cp2 == ec.sec1_encode(pt, True), "sec1/compressed_pubkey-of-compressed", repr(cp2)[:80])
    return cls, f


def check_accept(case):
    import bits

    b = bx(case["b"])
    want = ec.sec1_decode(b)
    f = Fails()
    kind = case.get("kind", "raw")
    cls = ["nt:" + kind if kind != "raw" else "raw"]
    cls.append("expect-accept" if want else "expect-reject")
    if case.get("base"):
        # history: the valid encoding this candidate was derived from is decoded first in the same process
        cls.append("nt:after-decoding-valid-base")
        attempt(bits.point, bx(case["base"]))
    got = attempt(bits.point, b)
    if want is not None:
        f.expect(not raised(got) and seq(got) == want, f"point/rejects-or-wrong-valid/{kind}", repr(got)[:100])
    else:
        f.expect(raised(got), f"point/accepts-invalid/{kind}", repr(got)[:100])
    isp = attempt(bits.is_point, b)
    f.expect(isinstance(isp, bool) and isp == (want is not None), f"is_point/ne-reference/{kind}", repr(isp)[:80])
    return cls, f


def check_wif(case):
    import bits

    f = Fails()
    mode = case["mode"]
    if mode == "roundtrip":
        key = bx(case["key"])
        net, typ, data = case["net"], case["type"], bx(case["data"])
        cls = ["wif-roundtrip"]
        if key[0] == 0:
            cls.append("nt:key-leading-zeros")
        if len(key) - len(key.lstrip(b"\x00")) == 31:
            cls.append("nt:key-31-leading-zero-bytes")
        if data:
            cls.append("nt:suffix")
        if len(data) >= 57:
            cls.append("nt:suffix>=57-bytes")  # the WIF string is then longer than 128 characters
        ver = (0x80 if net == "mainnet" else 0xEF) + WIF_TYPES.index(typ)
        want = rb58.check_encode(bytes([ver]) + key + data)
        if key[-1] & 1:
            # history: the same key is first encoded for another address type, network and suffix (and that string decoded
            # in both forms); nothing remembered from those calls may show in this one
            t2 = WIF_TYPES[(WIF_TYPES.index(typ) + 1 + key[-2] % (len(WIF_TYPES) - 1)) % len(WIF_TYPES)]
            n2 = "testnet" if net == "mainnet" else "mainnet"
            e2 = attempt(bits.wif_encode, key, addr_type=t2, network=n2, data=data[::-1] + b"\x01")
            if isinstance(e2, (bytes, str)):
                attempt(bits.wif_decode, e2)
                attempt(bits.wif_decode, e2, return_dict=True)
            cls.append("nt:after-same-key-other-type-network-suffix")
        enc = attempt(bits.wif_encode, key, addr_type=typ, network=net, data=data)
        if not f.expect(enc == want, "wif/encode-ne-reference", repr(enc)[:80]):
            return cls, f
        dec = attempt(bits.wif_decode, enc)
        f.expect(not raised(dec) and seq(dec) == (bytes([ver]), key, data), "wif/decode-tuple-ne-input", repr(dec)[:120])
        dd = attempt(bits.wif_decode, enc, return_dict=True)
        ok = (not raised(dd) and isinstance(dd, dict) and dd.get("key") == key.hex() and dd.get("data") == data.hex() and dd.get("addr_type") == typ
              and (dd.get("network") == "mainnet") == (net == "mainnet") and dd.get("version") == bytes([ver]).hex())
        f.expect(ok, "wif/decode-dict-ne-input", repr(dd)[:160])
        return cls, f
    if mode == "string":
        s = bx(case["s"])
        payload = rb58.check_decode(s)
        valid = payload is not None and len(payload) >= 1 and payload[0] in WIF_VERSIONS
        kind = case.get("kind", "mutated")
        cls = ["nt:wif-" + kind]
        got = attempt(bits.wif_decode, s)
        if not valid:
            cls.append("expect-reject")
            why = "bad-checksum-or-alphabet" if payload is None else "unknown-version"
            f.expect(raised(got), f"wif/accepts-invalid/{why}", repr(got)[:100])
        else:
            cls.append("still-valid")
            if len(payload) >= 33:
                f.expect(not raised(got) and seq(got) == (payload[0:1], payload[1:33], payload[33:]), "wif/rejects-or-wrong-valid", repr(got)[:100])
        return cls, f
    # encoders must refuse invalid private keys
    key = bx(case["key"])
    v = int.from_bytes(key, "big")
    valid = len(key) == 32 and 1 <= v < N
    cls = ["nt:bad-key-len" if len(key) != 32 else ("nt:bad-key-range" if not valid else "good-key")]
    import bits.keys

    for name, fn in (("wif_encode", lambda: bits.wif_encode(key)), ("keys.pub", lambda: bits.keys.pub(key)), ("compute_point", lambda: bits.compute_point(key))):
        r = attempt(fn)
        if not valid:
            f.expect(raised(r), f"encoder-accepts-invalid-key/{name}", repr(r)[:80])
    if len(key) not in (33, 65):  # pem_encode_key dispatches on these lengths as public keys
        r = attempt(bits.pem_encode_key, key)
        if not valid:
            f.expect(raised(r), "encoder-accepts-invalid-key/pem_encode_key", repr(r)[:80])
    return cls, f


def check_pem(case):
    import bits
    from bits.utils import pem_decode_key

    f = Fails()
    d = case["d"]
    mode = case["mode"]
    pt = ec.pub(d)
    cls = []
    if case.get("end"):
        # the DER of both PEM forms ends with the public key: walk to the next key whose encoded public key ends in an
        # ASCII whitespace byte or NUL (about 1 key in 37), a byte that text-oriented clean-up code likes to strip
        for _ in range(2000):
            last = ec.sec1_encode(pt, mode == "pub-c")[-1]
            if last in (0x09, 0x0A, 0x0B, 0x0C, 0x0D, 0x20, 0x00):
                break
            d = d % (N - 1) + 1
            pt = ec.pub(d)
        else:
            return ["search-exhausted"], f
        cls.append("nt:pem-der-ends-in-whitespace-or-nul")
    key = d.to_bytes(32, "big")
    if key[0] == 0:
        cls.append("nt:key-leading-zeros")
        if key[1] >= 0x80:
            cls.append("nt:key-one-leading-zero-then-high-bit")  # reads like a DER integer carrying its sign byte
    if key in gen.LOOKALIKE_KEYS32:
        cls.append("nt:key-reads-as-text")
    if key[:2] in (b"\x30\x1e", b"\x02\x1e", b"\x04\x1e", b"\x03\x1e", b"\x06\x1e") or key[:3] in (b"\x30\x81\x1d", b"\x04\x81\x1d") or key[:4] == b"\x30\x82\x00\x1c":
        cls.append("nt:key-reads-as-der-element")
    cls.append("nt:pem-" + mode)
    if mode == "priv":
        pem = attempt(bits.pem_encode_key, key)
        if raised(pem):
            f.add("pem/encode-private-raises", pem)
            return cls, f
        dec = attempt(pem_decode_key, pem)
        f.expect(not raised(dec) and seq(dec) == (key, ec.sec1_encode(pt, False)), "pem/private-roundtrip", repr(dec)[:120])
        if HAVE_OPENSSL:
            try:
                k = cser.load_pem_private_key(pem, password=None)
                nums = k.private_numbers()
                ok = nums.private_value == d and (nums.public_numbers.x, nums.public_numbers.y) == pt and isinstance(k.curve, cec.SECP256K1)
                f.expect(ok, "pem/openssl-reads-different-private-key")
            except Exception as e:  # noqa: BLE001
                f.add("pem/openssl-cannot-read-private", repr(e)[:160])
    elif mode in ("pub-c", "pub-u"):
        pk = ec.sec1_encode(pt, mode == "pub-c")
        pem = attempt(bits.pem_encode_key, pk)
        if raised(pem):
            f.add("pem/encode-public-raises/" + mode, pem)
            return cls, f
        dec = attempt(pem_decode_key, pem)
        f.expect(not raised(dec) and seq(dec) == (pk,), "pem/public-roundtrip/" + mode, repr(dec)[:120])
        if HAVE_OPENSSL:
            try:
                k = cser.load_pem_public_key(pem)
                nums = k.public_numbers()
                f.expect((nums.x, nums.y) == pt and isinstance(k.curve, cec.SECP256K1), "pem/openssl-reads-different-public-key/" + mode)
            except Exception as e:  # noqa: BLE001
                f.add("pem/openssl-cannot-read-public/" + mode, repr(e)[:160])
    elif mode == "openssl-priv" and HAVE_OPENSSL:
        k = cec.derive_private_key(d, cec.SECP256K1())
        pem = k.private_bytes(cser.Encoding.PEM, cser.PrivateFormat.TraditionalOpenSSL, cser.NoEncryption())
        dec = attempt(pem_decode_key, pem)
        parts = seq(dec, 2)
        ok = not raised(dec) and len(parts) == 2 and all(isinstance(x, (bytes, bytearray)) for x in parts) and int.from_bytes(parts[0], "big") == d and ec.sec1_decode(parts[1]) == pt
        f.expect(ok, "pem/openssl-private-read-differently", repr(dec)[:160])
    elif mode in ("openssl-priv-compressed", "openssl-pub-compressed"):
        # what `openssl ec -conv_form compressed` writes: the same structures with the public point in compressed form
        pk = ec.sec1_encode(pt, True)
        if mode == "openssl-priv-compressed":
            body = b"\x02\x01\x01" + b"\x04\x20" + key + b"\xa0\x07\x06\x05\x2b\x81\x04\x00\x0a" + b"\xa1\x24\x03\x22\x00" + pk
            label = b"EC PRIVATE KEY"
        else:
            body = b"\x30\x10\x06\x07\x2a\x86\x48\xce\x3d\x02\x01\x06\x05\x2b\x81\x04\x00\x0a" + b"\x03\x22\x00" + pk
            label = b"PUBLIC KEY"
        der = b"\x30" + bytes([len(body)]) + body
        b64 = base64.b64encode(der)
        pem = b"-----BEGIN " + label + b"-----\n" + b"\n".join(b64[i : i + 64] for i in range(0, len(b64), 64)) + b"\n-----END " + label + b"-----\n"
        if HAVE_OPENSSL:
            # the hand-built document is what a standard implementation reads as this key (harness self-check)
            if mode == "openssl-priv-compressed":
                nums = cser.load_pem_private_key(pem, password=None).private_numbers()
                assert nums.private_value == d and (nums.public_numbers.x, nums.public_numbers.y) == pt
            else:
                nums = cser.load_pem_public_key(pem).public_numbers()
                assert (nums.x, nums.y) == pt
        dec = attempt(pem_decode_key, pem)
        if mode == "openssl-priv-compressed":
            parts = seq(dec, 2)
            ok = not raised(dec) and len(parts) == 2 and all(isinstance(x, (bytes, bytearray)) for x in parts) and int.from_bytes(parts[0], "big") == d and ec.sec1_decode(parts[1]) == pt
            f.expect(ok, "pem/openssl-private-read-differently/compressed-point", repr(dec)[:160])
        else:
            parts = seq(dec, 1)
            ok = not raised(dec) and isinstance(parts[0], (bytes, bytearray)) and ec.sec1_decode(parts[0]) == pt
            f.expect(ok, "pem/openssl-public-read-differently/compressed-point", repr(dec)[:160])
    elif mode == "openssl-pub" and HAVE_OPENSSL:
        k = cec.derive_private_key(d, cec.SECP256K1()).public_key()
        pem = k.public_bytes(cser.Encoding.PEM, cser.PublicFormat.SubjectPublicKeyInfo)
        dec = attempt(pem_decode_key, pem)
        parts = seq(dec, 1)
        ok = not raised(dec) and isinstance(parts[0], (bytes, bytearray)) and ec.sec1_decode(parts[0]) == pt
        f.expect(ok, "pem/openssl-public-read-differently", repr(dec)[:160])
    return cls, f


# ---------------------------------------------------------------- strategies


@st.composite
def accept_cases(draw):
    kind = draw(st.sampled_from(["raw", "valid", "len", "otherlen", "x>=p", "nonresidue", "y-perturbed", "y-negated", "hybrid", "prefix", "coord-aliased", "coord-in-n..p", "key-as-text", "zero-octets"]))
    if kind == "zero-octets":
        # SEC1's encoding of the point at infinity (a single zero octet) and other all-zero strings: not a public key
        return {"kind": kind, "b": draw(st.sampled_from([b"\x00", b"\x00", b"", b"\x00" * 33, b"\x00" * 65, b"\x00" * 32])).hex()}
    if kind == "key-as-text":
        # the hexadecimal TEXT of a valid key (66 / 130 characters, either case; 66 is within the 0..70 bytes the property
        # speaks of): a byte string of the wrong length whose first byte is 0x30
        t = ec.sec1_encode(ec.mul(draw(gen.scalars_valid()), ec.G), draw(st.sampled_from([True, True, False]))).hex()
        return {"kind": kind, "b": draw(st.sampled_from([t, t.upper()])).encode().hex()}
    if kind == "coord-in-n..p":
        # a VALID point with a coordinate between the group order and the field prime (both SEC1 forms), and its
        # neighbours: an appended byte, a flipped prefix
        which, pt = draw(st.sampled_from(gen.high_coord_points()))
        enc = ec.sec1_encode(pt, draw(st.booleans()))
        how = draw(st.sampled_from(["as-is", "as-is", "as-is", "append", "hybrid"]))
        if how == "append":
            enc = enc + draw(st.sampled_from([b"\n", b"\x00", b" "]))
        elif how == "hybrid" and len(enc) == 65:
            enc = bytes([6 + (pt[1] & 1)]) + enc[1:]
        return {"kind": kind, "b": enc.hex()}
    if kind == "raw":
        return {"kind": kind, "b": draw(gen.sized_binary(70)).hex()}
    if kind == "coord-aliased":
        # a coordinate c + p (still 32 bytes) where (c, other) IS a curve point: only an explicit "< p" check rejects it
        c = draw(st.integers(0, 2**32 + 700))
        which = draw(st.sampled_from(["x", "y"]))
        for _ in range(200):
            if which == "x":
                y = ec.sqrt_mod((c * c * c + 7) % P)
                if y is not None:
                    y = draw(st.sampled_from([y, P - y]))
                    return {"kind": kind, "b": (b"\x04" + (c + P).to_bytes(32, "big") + y.to_bytes(32, "big")).hex()}
            else:
                a = (c * c - 7) % P
                x = pow(a, (P + 2) // 9, P)  # p = 7 (mod 9): a cube root when one exists
                if pow(x, 3, P) == a:
                    return {"kind": kind, "b": (b"\x04" + x.to_bytes(32, "big") + (c + P).to_bytes(32, "big")).hex()}
            c += 1
        return {"kind": "raw", "b": ""}
    k = draw(gen.scalars_valid())
    pt = ec.mul(k, ec.G)
    comp = draw(st.booleans())
    b = bytearray(ec.sec1_encode(pt, comp))
    if kind == "len":
        how = draw(st.sampled_from(["-1", "+1", "no-prefix", "no-prefix"]))
        if how == "no-prefix":  # bare coordinates (x || y, or x alone): a point, but not a SEC1 encoding
            b = b[1:]
            kind = "len-no-prefix"
        else:
            b = b[:-1] if how == "-1" else b + bytes([draw(st.integers(0, 255))])
    elif kind == "otherlen":
        # this form's prefix with the other form's length
        if comp:
            b = b + draw(st.sampled_from([pt[1].to_bytes(32, "big"), bytes(32), b"\xff" * 32]))
            kind = "len65-prefix02"
        else:
            b = b[:33]
            kind = "len33-prefix04"
    elif kind == "x>=p":
        x = P + draw(st.integers(0, 2**256 - 1 - P))
        b = bytearray(bytes([2 + draw(st.integers(0, 1))]) + x.to_bytes(32, "big")) if comp else bytearray(b"\x04" + x.to_bytes(32, "big") + pt[1].to_bytes(32, "big"))
    elif kind == "nonresidue":
        x = draw(st.integers(1, P - 1))
        for _ in range(64):
            if ec.sqrt_mod((x * x * x + 7) % P) is None:
                break
            x += 1
        b = bytearray(bytes([2 + draw(st.integers(0, 1))]) + x.to_bytes(32, "big"))
        if draw(st.booleans()):
            # uncompressed, with the y a square-root routine without Euler's criterion returns for such an x: the root of
            # -(x^3 + 7), a point of the twist
            yt = pow((-(x * x * x + 7)) % P, (P + 1) // 4, P)
            yt = draw(st.sampled_from([yt, P - yt]))
            b = bytearray(b"\x04" + x.to_bytes(32, "big") + yt.to_bytes(32, "big"))
            kind = "nonresidue-twist-point"
    elif kind == "y-perturbed":
        y2 = (pt[1] + draw(st.integers(1, 5))) % P
        b = bytearray(b"\x04" + pt[0].to_bytes(32, "big") + y2.to_bytes(32, "big"))
    elif kind == "y-negated":
        b = bytearray(b"\x04" + pt[0].to_bytes(32, "big") + (P - pt[1]).to_bytes(32, "big"))
    elif kind == "hybrid":
        b = bytearray(bytes([6 + (pt[1] & 1)]) + pt[0].to_bytes(32, "big") + pt[1].to_bytes(32, "big"))
    elif kind == "prefix":
        b[0] = draw(st.sampled_from([0, 1, 5, 8, 0xFF, 6, 7]) | st.integers(0, 255))
    out = {"kind": kind, "b": bytes(b).hex()}
    if draw(st.booleans()):
        out["base"] = ec.sec1_encode(pt, comp).hex()
        if draw(st.booleans()):
            out["base"] = ec.sec1_encode(pt, not comp).hex()
    return out


def key32():
    return st.one_of(
        gen.scalars_valid().map(lambda v: v.to_bytes(32, "big")),
        st.integers(1, 31).flatmap(lambda z: st.binary(min_size=32 - z, max_size=32 - z).map(lambda b: b"\x00" * z + (b if any(b) else b[:-1] + b"\x01"))),
        st.integers(1, 255).map(lambda v: v.to_bytes(32, "big")),
        gen.lookalike_keys32(),  # keys whose 32 bytes read as text (hex digits, whitespace)
        # keys whose 32 bytes read as one DER element spanning the rest of the key (SEQUENCE, INTEGER, OCTET STRING,
        # BIT STRING, OID; short and long length form)
        st.tuples(st.sampled_from([b"\x30\x1e", b"\x02\x1e", b"\x04\x1e", b"\x03\x1e", b"\x06\x1e", b"\x30\x81\x1d", b"\x30\x82\x00\x1c", b"\x04\x81\x1d"]),
                  st.binary(min_size=30, max_size=30)).map(lambda t: (t[0] + t[1])[:32]),
        # exactly one leading zero byte: followed by a byte >= 0x80 the key looks like a DER integer with its sign byte
        st.tuples(st.sampled_from([0x80, 0x81, 0xE7, 0xFF, 0x7F, 0x01]), st.binary(min_size=30, max_size=30)).map(lambda t: b"\x00" + bytes([t[0]]) + t[1]),
    )


@st.composite
def wif_cases(draw):
    mode = draw(st.sampled_from(["roundtrip", "roundtrip", "string", "string", "badkey"]))
    if mode == "roundtrip":
        return {"mode": mode, "key": draw(key32()).hex(), "net": draw(st.sampled_from(["mainnet", "testnet", "regtest"])),
                "type": draw(st.sampled_from(WIF_TYPES)), "data": draw(st.one_of(st.just(b""), st.just(b"\x01"), st.binary(max_size=120),
                                                                  st.sampled_from([20, 33, 34, 56, 57, 58, 71, 105, 119, 120]).flatmap(lambda n: st.binary(min_size=n, max_size=n)),
                                                                  st.integers(0, 120).flatmap(lambda n: st.binary(min_size=n, max_size=n)))).hex()}
    if mode == "string":
        key = draw(key32())
        kind = draw(st.sampled_from(["mutated", "mutated", "unknown-version", "valid"]))
        ver = draw(st.sampled_from(sorted(WIF_VERSIONS)))
        data = draw(st.sampled_from([b"", b"\x01"]))
        if kind == "unknown-version":
            ver = draw(st.integers(0, 255).filter(lambda v: v not in WIF_VERSIONS))
        s = rb58.check_encode(bytes([ver]) + key + data)
        if kind == "mutated":
            s, _ = draw(gen.edit_mutation(s, rb58.ALPHABET.encode(), b"0OIl ", max_edits=2))
        return {"mode": mode, "kind": kind, "s": s.hex()}
    kind = draw(st.sampled_from(["len", "len-near-valid", "range"]))
    if kind == "len-near-valid":
        # a valid key in a byte string of the wrong length (padding / flag bytes other layers put around the same integer)
        k = draw(key32())
        how = draw(st.sampled_from(["00+k", "0000+k", "k+00", "k+01", "01+k", "strip"]))
        body = {"00+k": b"\x00" + k, "0000+k": b"\x00\x00" + k, "k+00": k + b"\x00", "k+01": k + b"\x01", "01+k": b"\x01" + k, "strip": k.lstrip(b"\x00")[:31]}[how]
        if len(body) == 32:
            body = body[1:]
        return {"mode": mode, "key": body.hex()}
    if kind == "len":
        n = draw(st.integers(0, 40).filter(lambda n: n != 32))
        return {"mode": mode, "key": draw(st.binary(min_size=n, max_size=n)).hex()}
    v = draw(st.sampled_from([0, N, N + 1, 2**256 - 1, 1, N - 1]))
    return {"mode": mode, "key": v.to_bytes(32, "big").hex()}


@st.composite
def pem_cases(draw):
    return {"d": draw(st.one_of(gen.scalars_valid(), st.integers(1, 255), key32().map(lambda b: int.from_bytes(b, "big")))), "mode": draw(st.sampled_from(["priv", "pub-c", "pub-u", "openssl-priv", "openssl-pub", "openssl-priv-compressed", "openssl-pub-compressed"])),
            "end": draw(st.sampled_from([False, False, True]))}


def enum_pem_corpus(tier):
    for d in (1, 2, 255, 256, 2**200, N - 1, N // 2, 0x80 << 240, (0xE7 << 240) | 1, 0x7F << 240, int.from_bytes(gen.LOOKALIKE_KEYS32[0], "big"), int.from_bytes(gen.LOOKALIKE_KEYS32[2], "big"),
              int.from_bytes(b"\x30\x1e" + bytes(range(1, 31)), "big"), int.from_bytes(b"\x30\x1e\x02\x01\x01" + bytes(range(1, 28)), "big"),
              int.from_bytes(b"\x30\x81\x1d" + b"\x5a" * 29, "big"), int.from_bytes(b"\x04\x1e" + b"\x11" * 30, "big"), int.from_bytes(b"\x02\x1e" + b"\x22" * 30, "big")):
        for mode in ("priv", "pub-c", "pub-u", "openssl-priv", "openssl-pub", "openssl-priv-compressed", "openssl-pub-compressed"):
            yield {"d": d, "mode": mode}


def _targets(tier):
    return [
        Target("sec1-roundtrip", check_roundtrip, strategy=lambda tier: st.fixed_dictionaries({"k": gen.scalars_valid()}), budget={"quick": 1200, "thorough": 25000}),
        Target("sec1-accept", check_accept, strategy=lambda tier: accept_cases(), budget={"quick": 4000, "thorough": 80000},
               required=["nt:len65-prefix02", "nt:len33-prefix04", "nt:hybrid", "nt:x>=p", "nt:nonresidue", "nt:y-negated", "nt:coord-aliased", "nt:coord-in-n..p", "nt:len-no-prefix", "nt:key-as-text", "nt:zero-octets", "nt:nonresidue-twist-point", "nt:after-decoding-valid-base", "expect-accept", "expect-reject"]),
        Target("wif", check_wif, strategy=lambda tier: wif_cases(), budget={"quick": 3000, "thorough": 60000},
               required=["nt:key-31-leading-zero-bytes", "nt:suffix", "nt:suffix>=57-bytes", "nt:after-same-key-other-type-network-suffix", "nt:wif-unknown-version", "nt:wif-mutated", "nt:bad-key-len", "nt:bad-key-range"]),
        Target("pem", check_pem, strategy=lambda tier: pem_cases(), budget={"quick": 320, "thorough": 6000},
               required=["nt:pem-priv", "nt:pem-openssl-priv", "nt:pem-openssl-pub", "nt:pem-openssl-priv-compressed", "nt:pem-openssl-pub-compressed", "nt:key-leading-zeros", "nt:pem-der-ends-in-whitespace-or-nul"] if HAVE_OPENSSL else ["nt:pem-priv", "nt:pem-der-ends-in-whitespace-or-nul"]),
        Target("pem-fixed", check_pem, enumerate_=enum_pem_corpus, shards=4, required=["nt:key-one-leading-zero-then-high-bit", "nt:key-reads-as-text", "nt:key-reads-as-der-element"]),
    ]


def targets(tier):
    ts = _targets(tier)
    if tier == "thorough":
        # coverage-guided add-on (atheris/libFuzzer through Hypothesis' fuzz_one_input); skipped with a class label if atheris is missing
        from vf import fuzz

        for name in ['sec1-accept', 'wif']:
            ts.append(fuzz.campaign_target(PROPERTY, name, campaigns=16, runs=20000))
    return ts
