"""C04 — reported txid / wtxid / raw bytes are the consensus identifiers and do not depend on what follows the tx."""
from hypothesis import strategies as st

from vf import gen_tx
from vf.core import Fails, Target, attempt, bx, hx, pair, raised
from vf.ref import txref

PROPERTY = "C04"
LEVEL = "exploration"
RULE = (
    "Small grammar-generated legacy/segwit transactions (1..4 ins/outs, scripts <= 80 bytes, all sequence classes) x trailing "
    "buffer {empty, one byte of each value, a 1..8-byte substring of the tx, the first bytes of the tx, random 1..64 bytes, a second "
    "generated tx, a copy of the same tx} x context {alone, followed by the buffer, element of a block of 1..5 txs via block_deser}. "
    "Oracle: independent serializer: txid = HASH256(stripped serialisation with own sequences), wtxid = HASH256(full bytes); "
    "raw == exactly this tx's bytes; leftover == the trailing buffer; identical across contexts. Non-trivial: segwit tx with a "
    "non-final sequence, or non-empty trailing data that also occurs inside the tx, or a block context. Distinct = distinct case encodings."
)
ASSUMPTIONS = ["vf/ref/txref.py is a correct BIP141/144 serializer (validated on public transactions)", "only well-formed transactions are generated"]
SELFCHECKS = [txref.selfcheck]


def _feature(rtx, raw, trailing):
    feats = []
    if rtx["segwit"] and any(i["sequence"] != 0xFFFFFFFF for i in rtx["ins"]):
        feats.append("segwit-nonfinal-seq")
    if trailing and (raw + trailing).find(trailing) < len(raw):
        feats.append("trail-in-tx")
    return feats


def _compare(f, d, left, rtx, raw, trailing, ctx, feat):
    tag = f"{ctx}/{feat}"
    if not isinstance(d, dict):
        f.add(f"txid/ne-consensus/{tag}", f"not a dict: {d!r}"[:120])
        return
    f.expect(d.get("txid") == txref.txid(rtx).hex(), f"txid/ne-consensus/{tag}", d.get("txid"))
    f.expect(d.get("wtxid") == txref.wtxid(rtx).hex(), f"wtxid/ne-consensus/{tag}", d.get("wtxid"))
    if not rtx["segwit"]:
        f.expect(d.get("txid") == d.get("wtxid"), f"txid-ne-wtxid-on-legacy/{tag}")
    rawval = d.get("raw", "")
    f.expect(rawval == raw.hex(), f"raw/ne-tx-bytes/{tag}", f"len {len(rawval) // 2 if isinstance(rawval, (str, bytes, bytearray)) else repr(rawval)[:40]} vs {len(raw)}")
    if left is not None:
        f.expect(left == trailing, f"leftover/ne-trailing/{tag}", f"{left[:24]!r}" if isinstance(left, (bytes, bytearray, str)) else repr(left)[:60])


def _compare_result(f, r, rtx, raw, trailing, ctx, feat):
    """_compare() for what tx_deser(..., include_raw=True) returned: (dict, leftover). Anything else is a txid mismatch."""
    dl = pair(r)
    if dl is None:
        f.add(f"txid/ne-consensus/{ctx}/{feat}", f"not a (dict, leftover) pair: {r!r}"[:120])
        return None
    _compare(f, dl[0], dl[1], rtx, raw, trailing, ctx, feat)
    return dl[0]


def check(case):
    import bits.blockchain
    import bits.tx

    rtx = gen_tx.to_ref(case["tx"])
    raw = txref.serialize(rtx)
    tk = case["trail"]["kind"]
    if tk == "tx2":
        trailing = txref.serialize(gen_tx.to_ref(case["trail"]["tx"]))
    elif tk == "same":
        trailing = raw
    elif tk == "substr":
        o, n = case["trail"]["off"] % len(raw), case["trail"]["n"]
        trailing = raw[o : o + n]
    elif tk == "prefix":
        trailing = raw[: case["trail"]["n"]]
    else:
        trailing = bx(case["trail"].get("data", ""))
    feats = _feature(rtx, raw, trailing)
    feat = "+".join(feats) or "plain"
    cls = ["nt:" + x for x in feats] + ["trail:" + tk, "segwit" if rtx["segwit"] else "legacy"]
    cls += ["nt:" + x for x in gen_tx.features(rtx) if x not in ("segwit", "segwit-nonfinal-seq")]
    if len(raw) > 1000000:
        cls.append("nt:tx-bytes>1000000")
    if len(rtx["ins"]) == 1 and rtx["ins"][0]["txid"] == b"\x00" * 32 and rtx["ins"][0]["vout"] == 0xFFFFFFFF:
        cls.append("nt:coinbase-shaped-segwit" if rtx["segwit"] else "nt:coinbase-shaped-legacy")
    if tk == "same":
        cls.append("nt:trail-same-tx")
    if len(trailing) == 1 and "trail-in-tx" in feats:
        cls.append("nt:trail-1byte-in-tx")
    f = Fails()
    if case.get("prior"):
        # history: a near-identical transaction (other locktime; legacy twin of a segwit tx) is deserialised first
        cls.append("nt:after-related-tx")
        attempt(bits.tx.tx_deser, txref.serialize(dict(rtx, locktime=(rtx["locktime"] + 1) % 2**32)), include_raw=True)
        attempt(bits.tx.tx_deser, txref.serialize(dict(rtx, segwit=False)), include_raw=True)

    # context 1: alone
    r = attempt(bits.tx.tx_deser, raw, include_raw=True)
    if raised(r):
        f.add(f"deser-raises/alone/{feat}", r)
    else:
        d0 = _compare_result(f, r, rtx, raw, b"", "alone", "segwit-nonfinal-seq" if "segwit-nonfinal-seq" in feats else "plain")
        if not f and isinstance(d0, dict):
            # the same bytes once more, after the caller has edited the dict it was handed the first time
            d0.clear()
            r2 = attempt(bits.tx.tx_deser, raw, include_raw=True)
            if raised(r2):
                f.add("deser-raises/alone-again/plain", r2)
            else:
                _compare_result(f, r2, rtx, raw, b"", "alone-again-after-caller-edited-earlier-result", "plain")
    # context 2: followed by the buffer
    if trailing:
        r = attempt(bits.tx.tx_deser, raw + trailing, include_raw=True)
        if raised(r):
            f.add(f"deser-raises/trailing/{feat}", r)
        else:
            _compare_result(f, r, rtx, raw, trailing, "trailing", feat)
    # context 3: inside a block
    blk = case.get("block")
    if blk:
        cls.append("nt:in-block")
        others = [gen_tx.to_ref(t) for t in blk["others"]]
        pos = blk["pos"] % (len(others) + 1)
        txs = others[:pos] + [rtx] + others[pos:]
        if blk.get("dup"):
            txs.append(rtx)
            cls.append("nt:block-dup-tx")
        raws = [txref.serialize(t) for t in txs]
        header = bx(blk["header"])
        block = header + txref.compact_size(len(raws)) + b"".join(raws)
        bd = attempt(bits.blockchain.block_deser, block)
        if raised(bd):
            f.add(f"deser-raises/block/{'dup' if blk.get('dup') else 'nodup'}", bd)
        else:
            txns = bd.get("txns", []) if isinstance(bd, dict) else None
            if not isinstance(txns, (list, tuple)):
                f.add("block/tx-count", f"no list of transactions: {bd!r}"[:120])
            elif f.expect(len(txns) == len(txs), "block/tx-count", f"{len(txns)} vs {len(txs)}"):
                for k, (d, t, rw) in enumerate(zip(txns, txs, raws)):
                    rest = b"".join(raws[k + 1 :])
                    ft = "+".join(_feature(t, rw, rest)) or "plain"
                    _compare(f, d, None, t, rw, rest, "block", ft)
    return cls, f


@st.composite
def cases(draw):
    # mostly small transactions (ids depend on structure, not size); one in eight from the boundary-length grammar
    tx = draw(gen_tx.tx_case("small")) if draw(st.integers(0, 7)) else draw(gen_tx.tx_case("big"))
    if draw(st.integers(0, 9)) == 0:
        tx = draw(gen_tx.coinbase_case())  # null outpoint, arbitrary miner data in the script, reserved-value witness
    if draw(st.integers(0, 9)) == 0:
        # coinbase-shaped: a single input spending the null outpoint (legacy or with the reserved-value witness)
        tx["ins"] = tx["ins"][:1]
        tx["ins"][0]["txid"] = "00" * 32
        tx["ins"][0]["vout"] = 0xFFFFFFFF
        if tx["segwit"]:
            tx["ins"][0]["witness"] = ["00" * 32]
    huge = draw(st.integers(0, 119)) == 0
    if huge:
        # a segwit transaction whose complete serialisation exceeds 1,000,000 bytes (stripped size and weight stay small)
        tx["segwit"] = True
        seedb = draw(st.binary(min_size=2, max_size=4)).hex()
        tx["ins"][0]["witness"] = [f"R65536:{seedb}"] * draw(st.sampled_from([16, 17, 33]))
    tk = draw(st.sampled_from(["none", "byte", "byte", "substr", "substr", "prefix", "random", "tx2", "same"]))
    trail = {"kind": tk}
    if tk == "byte":
        trail["data"] = bytes([draw(st.sampled_from([0, 1, 0xFF]) | st.integers(0, 255))]).hex()
    elif tk == "substr":
        trail["off"] = draw(st.integers(0, 4000))
        trail["n"] = draw(st.integers(1, 8))
    elif tk == "prefix":
        trail["n"] = draw(st.integers(1, 12))
    elif tk == "random":
        trail["data"] = draw(st.binary(min_size=1, max_size=64)).hex()
    elif tk == "tx2":
        trail["tx"] = draw(gen_tx.tx_case("small", max_io=2))
    case = {"tx": tx, "trail": trail, "prior": draw(st.integers(0, 3)) == 0}
    if huge or draw(st.integers(0, 2)) == 0:
        n_other = draw(st.integers(0, 4))
        case["block"] = {
            "others": [draw(gen_tx.tx_case("small", max_io=2)) for _ in range(n_other)],
            "pos": draw(st.integers(0, 4)),
            "dup": draw(st.booleans()),
            "header": draw(st.binary(min_size=80, max_size=80)).hex(),
        }
    return case


def _targets(tier):
    return [
        Target(
            "ids",
            check,
            strategy=lambda tier: cases(),
            budget={"quick": 6000, "thorough": 200000},
            required=["nt:segwit-nonfinal-seq", "nt:trail-1byte-in-tx", "nt:trail-same-tx", "nt:in-block", "nt:block-dup-tx", "nt:trail-in-tx", "nt:coinbase-shaped-segwit", "nt:coinbase-shaped-legacy", "nt:after-related-tx", "nt:script>=253", "nt:wit-item>=253", "nt:wit-item-3000..65533", "nt:n_in>=253", "nt:script>=65536", "nt:tx-bytes>1000000", "nt:out-script-reads-as-address-or-key"],
        )
    ]


def targets(tier):
    ts = _targets(tier)
    if tier == "thorough":
        # coverage-guided add-on (atheris/libFuzzer through Hypothesis' fuzz_one_input); skipped with a class label if atheris is missing
        from vf import fuzz

        for name in ['ids']:
            ts.append(fuzz.campaign_target(PROPERTY, name, campaigns=16, runs=8000))
    return ts
