"""C13 — script assembly/disassembly are inverse with minimal, well-formed pushes; template builders emit the intended scripts."""
import hashlib

from hypothesis import strategies as st

from vf import gen_tx
from vf.core import Fails, Target, attempt, bx, hx, raised, attempt_owned, attempt_twice
from vf.ref import scriptref as sr

PROPERTY = "C13"
LEVEL = "exploration"
RULE = (
    "asm-disasm: sequences (0..40 items) over every defined non-push opcode name (aliases included) mixed with non-empty data items "
    "whose length is drawn from {1,2,75,76,77,255,256,257,520,65535,65536,70000}+-1 or 1..100; oracle: independent minimal-push "
    "assembler and GetOp tokenizer with a hard-coded opcode table; decode(assemble(items)) == items up to aliases; "
    "disasm-asm: canonical bytes from the reference assembler re-assemble to themselves; push-lengths: every data length 1..600 "
    "(thorough: also 65530..65540, 69990..70000); witness: stacks of 0..20 (thorough up to 260) items with lengths over "
    "{0,1,75,76,252..256,65535,65536,70000} serialise as CompactSize count + CompactSize-prefixed items and decode back with "
    "trailing bytes; builders: each template builder over its argument range (m-of-n for all 1<=m<=n<=16, sigs 8..73, "
    "redeem/witness scripts 1..600, null data 0..80, witness versions 0..16) equals the reference assembly of the intended items. "
    "Non-trivial: an item > 75 bytes, a witness item >= 253 or empty stack, a builder argument > 75 bytes, m-of-n with n >= 2."
)
ASSUMPTIONS = [
    "vf/ref/scriptref.py opcode table and push rules follow script.h; minimality is the length rule stated in the property",
    "non-canonical input bytes, undefined opcode bytes, OP_* names inside witness stacks and empty data items in non-witness scripts are outside the domain",
]
SELFCHECKS = [sr.selfcheck]

NAMES = sorted(n for n, b in sr.OPCODES.items() if b not in sr.PUSH_OPS)
DATA_LENS = [1, 2, 3, 74, 75, 76, 77, 78, 254, 255, 256, 257, 258, 519, 520, 521]
DATA_LENS_BIG = [65534, 65535, 65536, 65537, 69999, 70000]


def _len_class(n):
    if n > 65535:
        return "pushdata4"
    if n > 255:
        return "pushdata2"
    if n > 75:
        return "pushdata1"
    return "direct"


def _items(case_items):
    """JSON items -> (lib args, ref items)"""
    args, ref = [], []
    for it in case_items:
        if it.startswith("OP_"):
            args.append(it)
            ref.append(("op", sr.OPCODES[it]))
        else:
            d = gen_tx.expand(it)
            args.append(d.hex())
            ref.append(("data", d))
    return args, ref


def check_asm(case):
    import bits.script

    args, ref = _items(case["items"])
    f = Fails()
    cls = set()
    worst = "direct"
    for kind, v in ref:
        if kind == "data":
            c = _len_class(len(v))
            cls.add("nt:" + c if c != "direct" else "direct-push")
            if ["direct", "pushdata1", "pushdata2", "pushdata4"].index(c) > ["direct", "pushdata1", "pushdata2", "pushdata4"].index(worst):
                worst = c
        else:
            cls.add("op")
    if not ref:
        cls.add("empty-script")
    if case.get("lookalike"):
        cls.add("nt:template-look-alike")
    want = sr.assemble(ref)
    if len(args) % 2 and all(kind == "data" for kind, _ in ref):
        # history: the same argument list first goes through the witness form of the assembler, and the script's bytes
        # through the witness form of the disassembler
        attempt(bits.script.script, list(args), witness=True)
        attempt(bits.script.decode_script, want, witness=True)
        cls.add("nt:after-witness-calls-on-same-input")
    got = attempt_twice(f, f"asm/second-call-with-same-list-differs/{worst}", bits.script.script, args)
    if not f.expect(not raised(got) and got == want, f"asm/ne-reference/{worst}", repr(got)[:160]):
        return sorted(cls), f
    dec = attempt_owned(f, f"disasm/differs-after-caller-edited-earlier-result/{worst}", bits.script.decode_script, got)
    if raised(dec):
        f.add(f"disasm/raises-{dec.kind}/{worst}", dec)
        return sorted(cls), f
    ok = isinstance(dec, list) and len(dec) == len(ref)
    if ok:
        for d, (kind, v) in zip(dec, ref):
            if kind == "op":
                if not (isinstance(d, str) and sr.OPCODES.get(d) == v):
                    ok = False
                    break
            elif d != v.hex():
                ok = False
                break
    f.expect(ok, f"disasm/ne-items/{worst}", repr(dec)[:200])
    # canonical bytes -> disassemble -> assemble reproduces the bytes
    if ok:
        re = attempt(bits.script.script, dec)
        f.expect(not raised(re) and re == want, f"reasm/ne-bytes/{worst}", repr(re)[:120])
    return sorted(cls), f


def check_opbytes(case):
    """disasm-asm from bytes: every defined non-push opcode byte, and pushes, in canonical form."""
    import bits.script

    ref = []
    for it in case["items"]:
        if isinstance(it, int):
            ref.append(("op", it))
        else:
            ref.append(("data", gen_tx.expand(it)))
    b = sr.assemble(ref)
    f = Fails()
    cls = ["nt:from-bytes"] if any(k == "data" and len(v) > 75 for k, v in ref) else ["from-bytes"]
    dec = attempt_owned(f, "disasm-bytes/differs-after-caller-edited-earlier-result", bits.script.decode_script, b)
    if raised(dec):
        f.add(f"disasm-bytes/raises-{dec.kind}", dec)
        return cls, f
    re = attempt(bits.script.script, dec)
    f.expect(not raised(re) and re == b, "disasm-asm/ne-bytes", repr(re)[:160])
    if isinstance(dec, list) and len(dec) == len(ref):
        for d, (kind, v) in zip(dec, ref):
            if kind == "op" and sr.OPCODES.get(d) != v:
                f.add("disasm-bytes/wrong-opcode-name", f"{v:#x} -> {d}")
                break
    else:
        f.add("disasm-bytes/item-count", repr(dec)[:120])
    return cls, f


def check_pushlen(case):
    n = case["n"]
    c = {"items": [f"R{n}:{case.get('seed', 'a7')}"]}
    cls, f = check_asm(c)
    return cls + (["nt:boundary-len"] if n in (75, 76, 255, 256, 65535, 65536) else []), f


def check_witness(case):
    import bits.script

    items = [gen_tx.expand(x) for x in case["items"]]
    trailing = bx(case.get("trailing", ""))
    f = Fails()
    cls = []
    if not items:
        cls.append("nt:wit-empty")
    if any(len(x) == 0 for x in items):
        cls.append("nt:wit-item-0")
    if any(len(x) >= 253 for x in items):
        cls.append("nt:wit-item>=253")
    if any(len(x) >= 65536 for x in items):
        cls.append("nt:wit-item>=65536")
    if len(items) >= 253:
        cls.append("nt:wit-count>=253")
    if not cls:
        cls.append("wit-small")
    big = "item>=253" if any(len(x) >= 253 for x in items) else ("empty" if not items else ("count>=253" if len(items) >= 253 else "small"))
    want = sr.witness_stack(items)
    if len(items) % 2 and all(items):
        # history: the same argument list is first assembled as an ordinary script, and the stack's bytes are first read
        # as an ordinary script; what those calls leave behind must not show in the witness forms
        attempt(bits.script.script, [x.hex() for x in items])
        attempt(bits.script.decode_script, want + trailing)
        cls.append("nt:after-non-witness-calls-on-same-input")
    got = attempt(bits.script.script, [x.hex() for x in items], witness=True)
    f.expect(not raised(got) and got == want, f"witness-ser/ne-reference/{big}", repr(got)[:160])
    dec = attempt_owned(f, f"witness-deser/differs-after-caller-edited-earlier-result/{big}", bits.script.decode_script, want + trailing, witness=True)
    if raised(dec):
        f.add(f"witness-deser/raises-{dec.kind}/{big}", dec)
    else:
        ok = isinstance(dec, tuple) and len(dec) == 2 and isinstance(dec[0], (list, tuple)) and list(dec[0]) == [x.hex() for x in items] and dec[1] == trailing
        f.expect(ok, f"witness-deser/ne-items/{big}", repr(dec)[:200])
    # parse=True ("parse first witness script instead of decoding"): the stack's own bytes and what follows them
    par = attempt(bits.script.decode_script, want + trailing, witness=True, parse=True)
    if raised(par):
        f.add(f"witness-parse/raises-{par.kind}/{big}", par)
    else:
        ok = isinstance(par, tuple) and len(par) == 2 and par[0] == want and par[1] == trailing
        f.expect(ok, f"witness-parse/ne-stack-bytes/{big}", repr(par)[:200])
    return cls, f


# ---------------------------------------------------------------- builders


def _h160(b):
    return hashlib.new("ripemd160", hashlib.sha256(b).digest()).digest()


OP = sr.OPCODES


def _opn(n):
    return ("op", 0x00 if n == 0 else 0x50 + n)


def check_builder(case):
    import bits.script as S

    name = case["builder"]
    a = case["args"]
    f = Fails()
    cls = []

    def data(spec):
        return gen_tx.expand(spec)

    argsize = "small"
    if name == "p2pk_script_pubkey":
        pk = data(a["pk"])
        got, want = attempt(S.p2pk_script_pubkey, pk), [("data", pk), ("op", OP["OP_CHECKSIG"])]
    elif name == "p2pk_script_sig":
        sig = data(a["sig"])
        got, want = attempt(S.p2pk_script_sig, sig), [("data", sig)]
    elif name == "p2pkh_script_pubkey":
        h = data(a["h"])
        got, want = attempt(S.p2pkh_script_pubkey, h), [("op", 0x76), ("op", 0xA9), ("data", h), ("op", 0x88), ("op", 0xAC)]
    elif name == "p2pkh_script_sig":
        sig, pk = data(a["sig"]), data(a["pk"])
        got, want = attempt(S.p2pkh_script_sig, sig, pk), [("data", sig), ("data", pk)]
    elif name == "p2sh_script_pubkey":
        h = data(a["h"])
        got, want = attempt(S.p2sh_script_pubkey, h), [("op", 0xA9), ("data", h), ("op", 0x87)]
    elif name == "p2sh_script_sig":
        sigs, rs = [data(x) for x in a["sigs"]], data(a["redeem"])
        got, want = attempt(S.p2sh_script_sig, sigs, rs), [("data", s) for s in sigs] + [("data", rs)]
        argsize = "redeem>75" if len(rs) > 75 else "small"
    elif name in ("multisig_script_pubkey", "p2sh_multisig_script_pubkey"):
        m, pks = a["m"], [data(x) for x in a["pks"]]
        ms = [_opn(m)] + [("data", k) for k in pks] + [_opn(len(pks)), ("op", 0xAE)]
        if name == "multisig_script_pubkey":
            got, want = attempt(S.multisig_script_pubkey, m, pks), ms
        else:
            got, want = attempt(S.p2sh_multisig_script_pubkey, m, pks), [("op", 0xA9), ("data", _h160(sr.assemble(ms))), ("op", 0x87)]
        if len(pks) == 16 and m == 16:
            cls.append("nt:multisig-16of16")
        if len(pks) >= 2:
            cls.append("nt:multisig-n>=2")
    elif name == "multisig_script_sig":
        sigs = [data(x) for x in a["sigs"]]
        got, want = attempt(S.multisig_script_sig, sigs), [("op", 0)] + [("data", s) for s in sigs]
    elif name == "p2sh_multisig_script_sig":
        sigs, rs = [data(x) for x in a["sigs"]], data(a["redeem"])
        got, want = attempt(S.p2sh_multisig_script_sig, sigs, rs), [("op", 0)] + [("data", s) for s in sigs] + [("data", rs)]
        argsize = "redeem>75" if len(rs) > 75 else "small"
    elif name == "null_data_script_pubkey":
        d = data(a["data"])
        got = attempt(S.null_data_script_pubkey, d)
        want = [("op", 0x6A), ("data", d)] if d else [("op", 0x6A), ("op", 0)]
        argsize = "data>75" if len(d) > 75 else ("data=0" if not d else "small")
    elif name in ("p2wpkh_script_pubkey", "p2wsh_script_pubkey"):
        h, v = data(a["h"]), a["v"]
        got, want = attempt(getattr(S, name), h, witness_version=v), [_opn(v), ("data", h)]
        if v:
            cls.append("nt:witness-version>=1")
    elif name == "p2sh_p2wpkh_script_pubkey":
        h, v = data(a["h"]), a["v"]
        inner = sr.assemble([_opn(v), ("data", h)])
        got, want = attempt(S.p2sh_p2wpkh_script_pubkey, h, witness_version=v), [("op", 0xA9), ("data", _h160(inner)), ("op", 0x87)]
    elif name == "p2sh_p2wsh_script_pubkey":
        ws, v = data(a["ws"]), a["v"]
        inner = sr.assemble([_opn(v), ("data", hashlib.sha256(ws).digest())])
        got, want = attempt(S.p2sh_p2wsh_script_pubkey, ws, witness_version=v), [("op", 0xA9), ("data", _h160(inner)), ("op", 0x87)]
    elif name in ("p2sh_p2wpkh_script_sig", "p2sh_p2wsh_script_sig"):
        rs = data(a["redeem"])
        got, want = attempt(getattr(S, name), rs), [("data", rs)]
        argsize = "redeem>75" if len(rs) > 75 else "small"
    elif name in ("p2wpkh_script_sig", "p2wsh_script_sig"):
        got, want = attempt(getattr(S, name)), []
    else:
        raise AssertionError("unknown builder " + name)
    if argsize != "small":
        cls.append("nt:" + argsize)
        if name == "p2sh_script_sig":
            cls.append("nt:p2sh-sig-redeem>75")
        if name == "null_data_script_pubkey" and argsize == "data>75":
            cls.append("nt:nulldata>75")
    cls.append("builder:" + name)
    wb = sr.assemble(want)
    f.expect(not raised(got) and got == wb, f"builder/{name}/{argsize}", f"got {repr(got)[:100]} want {wb[:40].hex()}...")
    return cls, f


def enum_builders(tier):
    pk33 = "R33:02ab"
    pk65 = "R65:04cd"
    h20, h32 = "R20:11", "R32:22"
    for pk in (pk33, pk65):
        yield {"builder": "p2pk_script_pubkey", "args": {"pk": pk}}
    for n in range(8, 74):
        sig = f"R{n}:30"
        yield {"builder": "p2pk_script_sig", "args": {"sig": sig}}
        yield {"builder": "p2pkh_script_sig", "args": {"sig": sig, "pk": pk33 if n % 2 else pk65}}
        yield {"builder": "multisig_script_sig", "args": {"sigs": [sig] * (1 + n % 3)}}
    for h in (h20, "R20:00", "R20:ff"):
        yield {"builder": "p2pkh_script_pubkey", "args": {"h": h}}
        yield {"builder": "p2sh_script_pubkey", "args": {"h": h}}
    for n in range(1, 17):
        for m in range(1, n + 1):
            pks = [pk33 if (k + m) % 2 else pk65 for k in range(n)]
            yield {"builder": "multisig_script_pubkey", "args": {"m": m, "pks": pks}}
            yield {"builder": "p2sh_multisig_script_pubkey", "args": {"m": m, "pks": pks}}
    step = 1 if tier == "thorough" else 7
    # 20, 32, 33, 64, 65: script lengths that coincide with the size of a hash or a public key (in every tier)
    lens = sorted(set(list(range(1, 601, step)) + [1, 20, 32, 33, 64, 65, 74, 75, 76, 77, 254, 255, 256, 257, 519, 520, 521, 599, 600]))
    G33 = "0279be667ef9dcbbac55a06295ce870b07029bfcdb2dce28d959f2815b16f81798"
    G65 = "0479be667ef9dcbbac55a06295ce870b07029bfcdb2dce28d959f2815b16f81798483ada7726a3c4655da4fbfc0e1108a8fd17b448a68554199c47d08ffb10d4b8"
    for rs in (G33, G65, G33[2:], "00" * 20, "20" * 32, "0a" + "11" * 31 + "0a"):
        # a redeem / witness script whose bytes are a valid public key, an x coordinate, zeros, whitespace-framed
        yield {"builder": "p2sh_script_sig", "args": {"sigs": ["R71:30"], "redeem": rs}}
        yield {"builder": "p2sh_p2wpkh_script_sig", "args": {"redeem": rs}}
        yield {"builder": "p2sh_p2wsh_script_sig", "args": {"redeem": rs}}
        yield {"builder": "p2sh_p2wsh_script_pubkey", "args": {"ws": rs, "v": 0}}
        yield {"builder": "null_data_script_pubkey", "args": {"data": rs}}
    for n in lens:
        rs = f"R{n}:51ae"
        ns = n % 4
        sigs = [f"R{70 + k}:30" for k in range(ns)]
        yield {"builder": "p2sh_script_sig", "args": {"sigs": sigs, "redeem": rs}}
        yield {"builder": "p2sh_multisig_script_sig", "args": {"sigs": sigs or ["R71:30"], "redeem": rs}}
        yield {"builder": "p2sh_p2wpkh_script_sig", "args": {"redeem": rs}}
        yield {"builder": "p2sh_p2wsh_script_sig", "args": {"redeem": rs}}
        yield {"builder": "p2sh_p2wsh_script_pubkey", "args": {"ws": rs, "v": 0}}
    for n in range(0, 81):
        yield {"builder": "null_data_script_pubkey", "args": {"data": f"R{n}:6a"}}
    for v in range(0, 17):
        yield {"builder": "p2wpkh_script_pubkey", "args": {"h": h20, "v": v}}
        yield {"builder": "p2wsh_script_pubkey", "args": {"h": h32, "v": v}}
        yield {"builder": "p2sh_p2wpkh_script_pubkey", "args": {"h": h20, "v": v}}
        yield {"builder": "p2sh_p2wsh_script_pubkey", "args": {"ws": "R40:51", "v": v}}
        for ln in (2, 40):
            if v:
                yield {"builder": "p2wpkh_script_pubkey", "args": {"h": f"R{ln}:33", "v": v}}
    yield {"builder": "p2wpkh_script_sig", "args": {}}
    yield {"builder": "p2wsh_script_sig", "args": {}}


# ---------------------------------------------------------------- strategies


@st.composite
def data_item(draw, big):
    kind = draw(st.sampled_from(["short", "short", "boundary", "big" if big else "boundary"]))
    if kind == "short":
        return draw(st.binary(min_size=1, max_size=100)).hex()
    n = draw(st.sampled_from(DATA_LENS if kind == "boundary" else DATA_LENS_BIG))
    return f"R{n}:{draw(st.binary(min_size=1, max_size=3)).hex()}"


def _lookalikes(h):
    """Scripts with the total length and the outer opcodes of a standard template but another interior (h: 40 hex bytes)."""
    d = lambda a, n: h[2 * a : 2 * (a + n)]  # noqa: E731
    return [
        ["OP_HASH160", d(0, 10), d(10, 9), "OP_EQUAL"],  # 23 bytes a9 .. 87, not P2SH
        ["OP_HASH160", "OP_SWAP", "OP_HASH160", d(0, 18), "OP_EQUAL"],
        ["OP_HASH160"] + ["OP_DUP"] * 21 + ["OP_EQUAL"],
        ["OP_DUP", "OP_HASH160", d(0, 10), d(10, 9), "OP_EQUALVERIFY", "OP_CHECKSIG"],  # 25 bytes 76 a9 .. 88 ac, not P2PKH
        ["OP_DUP", "OP_HASH160"] + ["OP_NOP"] * 21 + ["OP_EQUALVERIFY", "OP_CHECKSIG"],
        ["OP_0", d(0, 9), d(9, 10)],  # 22 bytes starting 00, not a v0 program
        ["OP_0"] + ["OP_DUP"] * 21,
        ["OP_1", d(0, 15), d(15, 16)],  # 34 bytes starting 51
        [d(0, 16), d(16, 16), "OP_CHECKSIG"],  # 35 bytes ending ac, not P2PK
        ["OP_RETURN", d(0, 17), d(17, 18)],  # 38 bytes starting 6a, not the commitment
    ]


@st.composite
def asm_cases(draw, big):
    if draw(st.integers(0, 9)) == 0:
        h = draw(st.binary(min_size=40, max_size=40)).hex()
        return {"items": draw(st.sampled_from(_lookalikes(h))), "lookalike": 1}
    n = draw(st.integers(0, 40))
    items = []
    nbig = 0
    for _ in range(n):
        if draw(st.booleans()):
            items.append(draw(st.sampled_from(NAMES)))
        else:
            it = draw(data_item(big and nbig < 2))
            if it.startswith("R6") or it.startswith("R7"):
                nbig += 1
            items.append(it)
    return {"items": items}


@st.composite
def opbyte_cases(draw, big):
    n = draw(st.integers(0, 30))
    items = []
    for _ in range(n):
        if draw(st.integers(0, 2)):
            items.append(draw(st.sampled_from(sr.DEFINED_NONPUSH_BYTES)))
        else:
            items.append(draw(data_item(False)))
    return {"items": items}


@st.composite
def witness_cases(draw, big):
    wl = [0, 0, 1, 75, 76, 252, 253, 254, 255, 256]
    if big:
        wl += [65535, 65536, 70000]
    if big and draw(st.integers(0, 30)) == 0:
        n = draw(st.sampled_from([252, 253, 260]))
        one = draw(st.binary(max_size=2)).hex()
        items = [one] * n
    else:
        n = draw(st.integers(0, 20))
        items = []
        for _ in range(n):
            if draw(st.booleans()):
                items.append(draw(st.binary(max_size=40)).hex())
            else:
                items.append(f"R{draw(st.sampled_from(wl))}:{draw(st.binary(min_size=1, max_size=2)).hex()}")
    return {"items": items, "trailing": draw(st.binary(max_size=8)).hex()}


def enum_pushlens(tier):
    for n in range(1, 601):
        yield {"n": n}
    for n in (65534, 65535, 65536, 65537, 70000):  # PUSHDATA2/PUSHDATA4 boundary: cheap enough for every run
        yield {"n": n}
    if tier == "thorough":
        for n in list(range(65530, 65541)) + list(range(69990, 70001)):
            yield {"n": n}


def enum_witlens(tier):
    """CompactSize boundaries of witness item lengths and item counts: cheap enough for every run, in three stack positions."""
    lens = [0, 1, 252, 253, 254, 255, 256, 257, 65534, 65535, 65536, 65537, 69999, 70000]
    if tier == "thorough":
        lens += list(range(65530, 65541)) + list(range(69990, 70001)) + [1000, 32767, 32768, 50000]
    for n in lens:
        for pos, items in (("alone", [f"R{n}:c3"]), ("first", [f"R{n}:c3", "ab", ""]), ("last", ["", "abcd", f"R{n}:c3"])):
            for trailing in ("", "00ff"):
                yield {"items": items, "trailing": trailing}
    for cnt in (252, 253, 254, 255, 256, 300) + ((65535, 65536) if tier == "thorough" else ()):
        yield {"items": ["7f"] * cnt, "trailing": "01"}
        yield {"items": [""] * cnt, "trailing": ""}


def _targets(tier):
    big = tier == "thorough"
    return [
        Target("asm-disasm", check_asm, strategy=lambda tier: asm_cases(big), budget={"quick": 4000, "thorough": 80000},
               required=["nt:pushdata1", "nt:pushdata2", "nt:after-witness-calls-on-same-input", "nt:template-look-alike"] + (["nt:pushdata4"] if big else [])),
        Target("disasm-asm", check_opbytes, strategy=lambda tier: opbyte_cases(big), budget={"quick": 3000, "thorough": 60000}),
        Target("push-lengths", check_pushlen, enumerate_=enum_pushlens, required=["nt:pushdata1", "nt:pushdata2", "nt:pushdata4", "nt:boundary-len"], exhaustive=True),
        Target("witness", check_witness, strategy=lambda tier: witness_cases(big), budget={"quick": 3000, "thorough": 60000},
               required=["nt:wit-empty", "nt:wit-item>=253", "nt:wit-item-0", "nt:after-non-witness-calls-on-same-input"] + (["nt:wit-count>=253"] if big else [])),
        Target("witness-lengths", check_witness, enumerate_=enum_witlens,
               required=["nt:wit-item>=253", "nt:wit-item>=65536", "nt:wit-count>=253", "nt:wit-item-0"], exhaustive=True),
        Target("builders", check_builder, enumerate_=enum_builders,
               required=["nt:p2sh-sig-redeem>75", "nt:nulldata>75", "nt:multisig-16of16", "nt:witness-version>=1"], exhaustive=True),
    ]


def targets(tier):
    ts = _targets(tier)
    if tier == "thorough":
        # coverage-guided add-on (atheris/libFuzzer through Hypothesis' fuzz_one_input); skipped with a class label if atheris is missing
        from vf import fuzz

        for name in ['asm-disasm', 'witness']:
            ts.append(fuzz.campaign_target(PROPERTY, name, campaigns=16, runs=10000))
    return ts
