"""C03 — secp256k1 group law, public-key derivation and key generation."""
from hypothesis import strategies as st

from vf import gen
from vf.core import Fails, Target, attempt, bx, hx, raised, seq
from vf.env import rng, smallcurve
from vf.ref import ec

PROPERTY = "C03"
LEVEL = "exploration"
N, P = ec.N, ec.P
RULE = (
    "law-secp: points aG, bG built with the reference ladder from boundary-biased scalars (0 = identity, b = a doubling, b = n-a "
    "inverse, generic) for point_add; point_scalar_mul(k, P) with k over {0,1,2,n-1,n,n+1,2n-1,2^256-1,2^k,2^k-1,leading-zero "
    "patterns,random, and values above 2^256}; (a+b)P = aP+bP and a(bP) = (ab)P evaluated entirely in the library; point_negate and "
    "point_is_on_curve on on/off-curve coordinates. law-small: the same source retargeted to six curves y^2=x^3+7 over F_p "
    "(p=3 mod 4, prime order): ALL ordered pairs of group elements, ALL (k in [0,3n], P), associativity over all triples for the "
    "smallest curve. privkey: byte strings of length 0..40 and 32-byte boundary values through privkey_int/compute_point/keys.pub. "
    "keygen: keys.key() under a scripted random source (zero / one / max / random draws relative to the bound requested). "
    "Oracle: vf/ref/ec.py (Jacobian ladder, pow(x,-1,p)). Non-trivial: special pair (identity/doubling/inverse), boundary scalar, "
    "boundary RNG draw, invalid private key."
)
ASSUMPTIONS = ["vf/ref/ec.py is a correct independent implementation (n*G = identity, known multiples, agrees with OpenSSL)",
               "small curves execute the library's own ecmath.py source with only the curve constants replaced"]
SELFCHECKS = [ec.selfcheck]


def _pt(k):
    return ec.mul(k % N, ec.G) if k % N else None


def _scalar_class(k):
    if k in (0, 1, 2, N - 1, N, N + 1, 2 * N - 1, 2**256 - 1) or k >= N:
        return "boundary"
    if k.bit_length() <= 248:
        return "leading-zeros"
    return "generic"


BETA = 0x7AE96A2B657C07106E64479EAC3434E99CF0497512F58995C1396C28719501EE  # primitive cube root of unity mod p


def check_law(case):
    import bits.ecmath as em

    op = case["op"]
    f = Fails()
    cls = ["op:" + op]
    if op == "add":
        a, b = case["a"], case["b"]
        A, B = _pt(a), _pt(b)
        if case.get("endo") and A is not None:
            # B = (beta^e * x, +-y): a different curve point sharing A's y (or its negation) - exercises comparisons that
            # look at one coordinate only
            B = (pow(BETA, case["endo"], P) * A[0] % P, (-A[1]) % P if case.get("negy") else A[1])
            cls.append("nt:pair-same-or-negated-y-different-x")
        if case.get("high") is not None:
            # an operand with a coordinate between the group order and the field prime (not a multiple of G we know)
            hp = gen.high_coord_points()
            A = hp[case["high"] % len(hp)][1]
            if case.get("high_rel") == "same":
                B = A
            elif case.get("high_rel") == "neg":
                B = ec.neg(A)
            cls.append("nt:operand-coordinate-in-n..p")
        if A is None or B is None:
            kind = "identity"
        elif A == B:
            kind = "doubling"
        elif A == ec.neg(B):
            kind = "inverse"
        else:
            kind = "generic"
        cls.append("nt:pair-" + kind if kind != "generic" else "pair-generic")
        want = ec.add(A, B)
        if kind in ("generic", "doubling") and (a + b) % 2:
            # history: ECDSA divides by the same integers modulo the group order (ecmath.sign/verify call the shared
            # helpers with p=n); the slope's denominator is first inverted modulo n, then the addition is made
            dens = [(B[0] - A[0]) % P, (A[0] - B[0]) % P, 2 * A[1] % P, (P - 2 * A[1]) % P]
            for d in dens:
                if 0 < d < N:
                    attempt(em.div_mod_p, 1, d, N)
                    attempt(em.mul_mod_p, 1, d, N)
            cls.append("nt:after-mod-n-division-by-the-slope-denominator")
        got = attempt(em.point_add, A, B)
        f.expect(not raised(got) and got == want, f"add/ne-reference/{kind}", repr(got)[:120])
        if not raised(got) and got is not None:
            f.expect(ec.on_curve(seq(got)), f"add/result-off-curve/{kind}")
    elif op == "mul":
        k, b = case["k"], case["b"]
        Pt = _pt(b)  # b = 0 mod n: the identity as the point operand
        sc = _scalar_class(k)
        cls.append("nt:scalar-" + sc if sc != "generic" else "scalar-generic")
        if Pt is None:
            cls.append("nt:mul-identity-operand")
        want = ec.mul(k, Pt)
        got = attempt(em.point_scalar_mul, k, Pt)
        f.expect(not raised(got) and got == want, f"mul/ne-reference/{sc}", repr(got)[:120])
        if sc != "generic" or k % 3 == 0:
            # the base-point multiplication of the anchored bip32 module (BIP32's point(p)): the same group law, all scalars
            import bits.bips.bip32 as b32

            wg = ec.mul(k, ec.G)
            gg = attempt(b32.point, k)
            cls.append("nt:bip32-point/scalar-" + sc if sc != "generic" else "nt:bip32-point")
            f.expect(not raised(gg) and (gg is None if wg is None else seq(gg) == wg), f"bip32.point/ne-kG/{sc}", repr(gg)[:120])
    elif op == "distrib":
        a, b, c = case["a"], case["b"], case["c"]
        Pt = _pt(c) if c % N else ec.G
        cls.append("nt:identity-distrib")
        if (a + b + c) % 7 == 0:
            hp = gen.high_coord_points()
            Pt = hp[(a + c) % len(hp)][1]
            cls.append("nt:operand-coordinate-in-n..p")
        lhs = attempt(em.point_scalar_mul, a + b, Pt)
        r1, r2 = attempt(em.point_scalar_mul, a, Pt), attempt(em.point_scalar_mul, b, Pt)
        rhs = attempt(em.point_add, r1, r2) if not (raised(r1) or raised(r2)) else r1
        f.expect(not raised(lhs) and not raised(rhs) and lhs == rhs, "identity/(a+b)P!=aP+bP", f"{lhs!r} {rhs!r}"[:160])
        f.expect(not raised(lhs) and lhs == ec.mul(a + b, Pt), "mul/ne-reference/sum", repr(lhs)[:100])
    elif op == "assoc":
        a, b, c = case["a"], case["b"], case["c"]
        Pt = _pt(c) if c % N else ec.G
        cls.append("nt:identity-assoc")
        inner = attempt(em.point_scalar_mul, b, Pt)
        if inner is None:
            cls.append("nt:mul-identity-operand")
        lhs = attempt(em.point_scalar_mul, a, inner) if not raised(inner) else inner
        rhs = attempt(em.point_scalar_mul, a * b, Pt)
        f.expect(not raised(lhs) and not raised(rhs) and lhs == rhs, "identity/a(bP)!=(ab)P", f"{lhs!r} {rhs!r}"[:160])
        f.expect(not raised(rhs) and rhs == ec.mul(a * b, Pt), "mul/ne-reference/product", repr(rhs)[:100])
    elif op == "negcurve":
        a = case["a"]
        A = _pt(a) or ec.G
        got = attempt(em.point_negate, A)
        f.expect(got == ec.neg(A), "negate/ne-reference", repr(got)[:100])
        on = attempt(em.point_is_on_curve, A[0], A[1])
        f.expect(on is True, "on-curve/rejects-curve-point", repr(on))
        dx, dy = case["dx"], case["dy"]
        x2, y2 = (A[0] + dx) % P, (A[1] + dy) % P
        exp = ec.on_curve((x2, y2))
        cls.append("nt:off-curve" if not exp else "on-curve")
        on2 = attempt(em.point_is_on_curve, x2, y2)
        if exp:
            f.expect(on2 is True, "on-curve/rejects-curve-point", repr(on2))
        else:
            f.expect(on2 is not True, "on-curve/accepts-off-curve-point", repr(on2))
    return cls, f


def check_small(case):
    c = ec.small_curves(6)[case["curve"]]
    p, n, g = c["p"], c["n"], c["g"]
    em = smallcurve.load(p, n, g)
    elems = [None] + sorted(c["points"])
    i = case["i"]
    A = elems[i]
    f = Fails()
    cls = ["nt:small-curve-p%d" % p]
    mode = case["mode"]
    if case.get("after") == "ecdsa":
        # history: the module's own ECDSA over the same small curve first (every s and several r, digests): it works
        # modulo the group order through the helpers the group law uses modulo the field prime
        for s_ in range(1, n):
            attempt(em.verify, 1 + s_ % (n - 1), s_, g, s_ * 7 + 1)
        cls.append("nt:small-after-ecdsa-verify")
    if mode == "pairs":
        for B in elems:
            want = ec.add(A, B, p)
            got = attempt(em.point_add, A, B)
            if raised(got) or got != want:
                kind = "identity" if A is None or B is None else "doubling" if A == B else "inverse" if A == ec.neg(B, p) else "generic"
                f.add(f"small/add-ne-reference/{kind}", f"p={p} {A}+{B}: {got!r} want {want}")
                break
    elif mode == "scalars":
        for k in range(0, 3 * n + 1):
            want = ec.mul(k, A, p)
            got = attempt(em.point_scalar_mul, k, A)
            if raised(got) or got != want:
                f.add("small/mul-ne-reference", f"p={p} {k}*{A}: {got!r} want {want}")
                break
    elif mode == "assoc":
        for B in elems:
            for C in elems:
                l1 = attempt(em.point_add, A, B)
                lhs = attempt(em.point_add, l1, C) if not raised(l1) else l1
                r1 = attempt(em.point_add, B, C)
                rhs = attempt(em.point_add, A, r1) if not raised(r1) else r1
                if raised(lhs) or raised(rhs) or lhs != rhs:
                    f.add("small/associativity", f"p={p} A={A} B={B} C={C}: {lhs!r} vs {rhs!r}")
                    return cls, f
    return cls, f


def enum_small(tier):
    curves = ec.small_curves(6)
    ncur = 3 if tier == "quick" else 6
    for ci in range(ncur):
        c = curves[ci]
        for i in range(c["n"]):  # n-1 points + identity
            yield {"curve": ci, "i": i, "mode": "pairs"}
            yield {"curve": ci, "i": i, "mode": "scalars"}
            if i % 4 == 1:
                yield {"curve": ci, "i": i, "mode": "pairs", "after": "ecdsa"}
                yield {"curve": ci, "i": i, "mode": "scalars", "after": "ecdsa"}
    for i in range(curves[0]["n"]):
        yield {"curve": 0, "i": i, "mode": "assoc"}


def check_privkey(case):
    import bits
    import bits.keys

    b = bx(case["key"])
    v = int.from_bytes(b, "big")
    valid = len(b) == 32 and 1 <= v < N
    f = Fails()
    cls = []
    if valid:
        cls.append("valid-key" if v.bit_length() > 248 and v not in (1, N - 1) else "nt:valid-boundary-or-leading-zero")
        if case.get("textlike"):
            cls.append("nt:valid-key-reads-as-text")
    else:
        cls.append("nt:invalid-len" if len(b) != 32 else "nt:invalid-range")
    from bits.utils import privkey_int

    r = attempt(privkey_int, b)
    if valid:
        f.expect(r == v, "privkey_int/rejects-or-wrong-valid", repr(r))
        if case.get("point"):
            cp = attempt(bits.compute_point, b)
            want = ec.pub(v)
            if want[0] < 1 << 248:
                cls.append("nt:public-point-short-x")
            if want[1] < 1 << 248:
                cls.append("nt:public-point-short-y")
            f.expect(not raised(cp) and seq(cp) == want, "compute_point/ne-kG", repr(cp)[:100])
            for comp in (True, False):
                pk = attempt(bits.keys.pub, b, compressed=comp)
                f.expect(pk == ec.sec1_encode(want, comp), f"keys.pub/ne-sec1/{'c' if comp else 'u'}", repr(pk)[:80])
    else:
        tag = "len" if len(b) != 32 else ("zero" if v == 0 else ">=n")
        f.expect(raised(r), f"privkey_int/accepts-invalid/{tag}", repr(r))
        cp = attempt(bits.compute_point, b)
        f.expect(raised(cp), f"compute_point/accepts-invalid/{tag}", repr(cp)[:80])
        pk = attempt(bits.keys.pub, b)
        f.expect(raised(pk), f"keys.pub/accepts-invalid/{tag}", repr(pk)[:80])
    if len(b) == 32:
        # the same 32 bytes as the key field of a root extended private key (anchored bip32.py): both return forms of
        # the deserialiser take it as a private key exactly when it encodes an integer in [1, n-1]
        import bits.bips.bip32 as b32
        from vf.ref import base58 as rb58
        from vf.ref import hd as rhd

        for net in ("main", "test"):
            xk = rb58.check_encode(rhd.serialise(rhd.VER[(net, "prv")], 0, bytes(4), 0, bytes(range(32)), b"\x00" + b))
            for form, kw in (("tuple", {}), ("dict", {"return_dict": True})):
                d = attempt(b32.deserialized_extended_key, xk, **kw)
                if valid:
                    got = None if raised(d) else (d.get("key") if isinstance(d, dict) else seq(d)[-1] if seq(d) else None)
                    ok = got == v or (isinstance(got, str) and got.lower().lstrip("0") == b.hex().lstrip("0")) or got == b
                    f.expect(ok, f"xprv-{form}/rejects-or-wrong-valid", repr(d)[:160])
                else:
                    f.expect(raised(d), f"xprv-{form}/accepts-invalid/{tag}", repr(d)[:160])
        cls.append("nt:as-xprv-key-field")
    return cls, f


def check_keygen(case):
    import bits.keys

    script = case["script"]
    stub = rng.ScriptedSecrets(script)
    saved = bits.keys.secrets
    bits.keys.secrets = stub
    rng.sync(bits.keys.secrets)
    try:
        k = attempt(bits.keys.key)
    finally:
        bits.keys.secrets = saved
        rng.sync(bits.keys.secrets)
    f = Fails()
    # classify by what the random source actually returned for the first draw (relative to the bound requested)
    if stub.calls:
        _, bound, r = stub.calls[0]
        tag = "zero" if r == 0 else "one" if r == 1 else "max" if r == bound - 1 else "random"
    else:
        tag = "none"
    cls = ["nt:draw-" + tag if tag != "random" else "draw-random"]
    ok = isinstance(k, bytes) and len(k) == 32 and 1 <= int.from_bytes(k, "big") <= N - 1
    f.expect(ok, f"keygen/out-of-range/draw-{tag}", repr(k)[:80])
    if not stub.calls:
        cls.append("rng-not-consulted")
    return cls, f


@st.composite
def law_cases(draw):
    op = draw(st.sampled_from(["add", "add", "mul", "mul", "distrib", "assoc", "negcurve"]))
    s = gen.scalars_any()
    if op == "add":
        a = draw(s)
        rel = draw(st.sampled_from(["same", "neg", "zero", "other", "other", "endo"]))
        b = a if rel == "same" else (N - a % N) if rel == "neg" else 0 if rel == "zero" else draw(s)
        if rel == "endo":
            return {"op": op, "a": a if a % N else 1, "b": 1, "endo": draw(st.sampled_from([1, 2])), "negy": draw(st.booleans())}
        if draw(st.booleans()):
            a, b = b, a
        if draw(st.integers(0, 5)) == 0:
            return {"op": op, "a": a, "b": b, "high": draw(st.integers(0, 14)), "high_rel": draw(st.sampled_from(["same", "neg", "other", "other"]))}
        return {"op": op, "a": a, "b": b}
    if op == "mul":
        k = draw(st.one_of(s, st.integers(2**256, 2**258)))
        return {"op": op, "k": k, "b": draw(st.sampled_from([0, N]) | s if draw(st.integers(0, 7)) == 0 else s)}
    if op in ("distrib", "assoc"):
        return {"op": op, "a": draw(s), "b": draw(st.sampled_from([0, 1, N - 1]) | s), "c": draw(s)}
    return {"op": op, "a": draw(s), "dx": draw(st.sampled_from([0, 0, 1]) | st.integers(0, P - 1)), "dy": draw(st.sampled_from([0, 1, 2]))}


@st.composite
def privkey_cases(draw):
    kind = draw(st.sampled_from(["len", "len-near-valid", "boundary", "valid", "random32", "text-like", "short-coord"]))
    if kind == "short-coord":
        # kG with a coordinate below 2^248: its fixed-width encoding has a leading zero byte
        return {"key": draw(st.sampled_from(gen.SHORT_COORD_KEYS)).to_bytes(32, "big").hex(), "point": True}
    if kind == "text-like":
        # a valid key whose 32 bytes read as text (hex digits, whitespace, a WIF fragment): opaque bytes all the same
        return {"key": draw(gen.lookalike_keys32()).hex(), "point": True, "textlike": 1}
    if kind == "len-near-valid":
        # a valid key in a byte string of the wrong length: padded with a zero / sign / flag byte at either end, or with
        # its leading zero byte dropped (encodings other layers use for the same integer)
        k = draw(gen.scalars_valid()).to_bytes(32, "big")
        how = draw(st.sampled_from(["00+k", "0000+k", "k+00", "k+01", "01+k", "strip", "k+lf", "k+crlf", "k+cr", "k+lflflf", "sp+k", "k+sp"]))
        body = {"00+k": b"\x00" + k, "0000+k": b"\x00\x00" + k, "k+00": k + b"\x00", "k+01": k + b"\x01", "01+k": b"\x01" + k, "strip": k.lstrip(b"\x00")[:31],
                # what reading a raw key from a file or pipe leaves around it
                "k+lf": k + b"\n", "k+crlf": k + b"\r\n", "k+cr": k + b"\r", "k+lflflf": k + b"\n\n\n", "sp+k": b" " + k, "k+sp": k + b" "}[how]
        if len(body) == 32:
            body = body[1:]
        return {"key": body.hex()}
    if kind == "len":
        n = draw(st.integers(0, 40).filter(lambda n: n != 32))
        body = draw(st.sampled_from([b"\x00", b"\x01", b"\xff"])) * n if draw(st.booleans()) else draw(st.binary(min_size=n, max_size=n))
        return {"key": body.hex()}
    if kind == "boundary":
        v = draw(st.sampled_from([0, 1, 2, N - 2, N - 1, N, N + 1, 2**256 - 1, 2**255, N // 2]))
        return {"key": v.to_bytes(32, "big").hex(), "point": draw(st.integers(0, 3)) == 0}
    if kind == "valid":
        return {"key": draw(gen.scalars_valid()).to_bytes(32, "big").hex(), "point": draw(st.integers(0, 3)) == 0}
    return {"key": draw(st.binary(min_size=32, max_size=32)).hex(), "point": draw(st.integers(0, 5)) == 0}


def enum_keygen(tier):
    base = ["zero", "one", "max"]
    for a in base:
        yield {"script": [a]}
        for b in base + [12345]:
            yield {"script": [a, b]}
    yield {"script": ["zero", "zero", "zero", 7]}
    yield {"script": []}
    for k in range(40 if tier == "quick" else 400):
        yield {"script": [(0x9E3779B97F4A7C15F39CC0605CEDC8341082276BF3A27251F86C6A11D0C18E95 * (k + 1)) % 2**256]}
    for v in (N, N - 1, N - 2, N + 1, 2**256 - 1, 2**255):
        yield {"script": [v]}


def targets(tier):
    return [
        Target("law-secp", check_law, strategy=lambda tier: law_cases(), budget={"quick": 640, "thorough": 10000},
               required=["nt:pair-identity", "nt:pair-doubling", "nt:pair-inverse", "nt:pair-same-or-negated-y-different-x", "nt:scalar-boundary", "nt:identity-distrib", "nt:identity-assoc", "nt:off-curve", "nt:mul-identity-operand",
                         "nt:after-mod-n-division-by-the-slope-denominator", "nt:operand-coordinate-in-n..p", "nt:bip32-point/scalar-boundary"]),
        Target("law-small", check_small, enumerate_=enum_small, exhaustive=True, required=["nt:small-after-ecdsa-verify"]),
        Target("privkey", check_privkey, strategy=lambda tier: privkey_cases(), budget={"quick": 1500, "thorough": 30000},
               required=["nt:invalid-len", "nt:invalid-range", "nt:valid-boundary-or-leading-zero", "nt:valid-key-reads-as-text", "nt:public-point-short-x", "nt:public-point-short-y"]),
        Target("keygen", check_keygen, enumerate_=enum_keygen, required=["nt:draw-zero || rng-not-consulted", "nt:draw-max || rng-not-consulted", "nt:draw-one || rng-not-consulted"], shards=2),
    ]
