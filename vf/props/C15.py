"""C15 — blocks are well-formed: merkle root, coinbase rules, block round trip."""
import hashlib

from hypothesis import strategies as st

from vf import gen_tx
from vf.core import Fails, Target, attempt, bx, hx, raised
from vf.ref import base58 as rb58
from vf.ref import chain, txref

PROPERTY = "C15"
LEVEL = "exploration"
RULE = (
    "merkle: txid lists of EVERY length 1..300 (thorough 1..2048) built from hashed seeds, plus lists with repeated ids; oracle: "
    "pairwise HASH256 duplicating the last node at every odd level; input list must not be mutated. coinbase: EVERY height "
    "0..70000 plus boundaries 16/17/127/128/255/256/32767/32768/2^23-1/2^23/2^31-1 and k*210000+{-1,0,1}, k*150+{-1,0,1} (k<=70), "
    "regtest on/off, extra script 0..110 bytes, reward None / explicit <= subsidy / explicit > subsidy, witness root None/32 bytes; the "
    "result is parsed by the reference parser: one input with null outpoint, script starts with CScript()<<height, <= 100 bytes "
    "else refused, default value == subsidy(height, 210000|150), reward > subsidy refused, commitment output 6a24aa21a9ed||root "
    "and reserved-value witness iff a root is supplied; one case in six uses the call form WITHOUT a height (explicit reward): script as "
    "given, <= 100 bytes else refused, value as given, commitment iff a root is supplied (a refusal of that form is allowed). block: header fields over full ranges + 1..50 generated legacy/segwit txs "
    "(duplicates allowed): block_header/block_header_deser inverse, block_deser(block_ser) returns the same header, tx count, "
    "order, txid/wtxid/raw. mine-block: integrations.mine_block against a scripted RPC; the submitted block's merkle root, "
    "BIP34 height, subsidy and BIP141 commitment equal the reference values. Non-trivial: list length with an odd inner level; "
    "height at an encoding or halving boundary; block with >= 2 txs or a segwit tx."
)
ASSUMPTIONS = ["vf/ref/chain.py (merkle of block 170, subsidy table, CScriptNum vectors) and vf/ref/txref.py"]
SELFCHECKS = [chain.selfcheck, txref.selfcheck]


def _ids(n, seed, dup):
    ids = [hashlib.sha256(f"{seed}/{i}".encode()).digest() for i in range(n)]
    if dup == "last-two" and n >= 2:
        ids[-1] = ids[-2]
    elif dup == "all":
        ids = [ids[0]] * n
    elif dup == "first-two" and n >= 2:
        ids[1] = ids[0]
    return ids


def _odd_inner(n):
    lv = n
    first = True
    while lv > 1:
        if lv & 1 and not first:
            return True
        lv = (lv + 1) // 2
        first = False
    return False


def check_merkle(case):
    import bits.blockchain as bc

    n = case["n"]
    ids = _ids(n, case.get("seed", 0), case.get("dup", ""))
    f = Fails()
    cls = []
    if _odd_inner(n):
        cls.append("nt:odd-inner-level")
    if n == 5:
        cls.append("nt:merkle-len-5")
    if n & 1 and n > 1:
        cls.append("nt:odd-leaf-level")
    if case.get("dup"):
        cls.append("nt:repeated-ids")
    if not cls:
        cls.append("even-levels")
    snapshot = list(ids)
    if n >= 2 and case.get("seed", 0) % 2:
        # history: lists of the same length / sharing a prefix are hashed first in the same process
        cls.append("nt:after-related-lists")
        attempt(bc.merkle_root, list(ids[:-1]) + [hashlib.sha256(ids[-1]).digest()])
        attempt(bc.merkle_root, list(ids[:-1]))
    got = attempt(bc.merkle_root, ids)
    shape = "odd-inner-level" if _odd_inner(n) else ("odd-leaf-level" if n & 1 and n > 1 else "even-levels" if n > 1 else "single")
    f.expect(not raised(got) and got == chain.merkle_root(snapshot), f"merkle/ne-reference/{shape}", f"n={n}: {got!r}"[:160])
    f.expect(ids == snapshot, "merkle/input-list-mutated", f"n={n} len now {len(ids)}")
    return cls, f


def enum_merkle(tier):
    top = 300 if tier == "quick" else 2048
    for n in range(1, top + 1):
        yield {"n": n, "seed": n % 7}
    for n in (2, 3, 4, 5, 6, 7, 9, 11, 13, 17, 33, 100, 255):
        for dup in ("last-two", "all", "first-two"):
            yield {"n": n, "seed": 3, "dup": dup}


HEIGHT_BOUNDS = [0, 1, 15, 16, 17, 126, 127, 128, 129, 254, 255, 256, 257, 32766, 32767, 32768, 32769, 65535, 65536, 8388607, 8388608, 8388609, 2**31 - 1, 2**31 - 2]


def _height_class(h, regtest):
    out = []
    if h == 0:
        out.append("nt:height-0")
    if h == 17:
        out.append("nt:height-17")
    if h == 128:
        out.append("nt:height-128")
    if h == 32768:
        out.append("nt:height-32768")
    if h in HEIGHT_BOUNDS:
        out.append("nt:height-encoding-boundary")
    iv = 150 if regtest else 210000
    if h >= iv - 1 and h % iv in (0, 1, iv - 1):
        out.append("nt:halving-150-regtest" if regtest else "nt:halving-210000")
    if not regtest and h >= 149 and h % 150 in (0, 1, 149) and h % 210000 not in (0, 1, 209999):
        out.append("nt:mainnet-at-regtest-halving")
    return out


def check_coinbase_heightless(case):
    """The call form without a height (pre-BIP34 style, explicit reward): everything the statement says that does not
    depend on a height still holds - one input spending the null outpoint, the script as given and at most 100 bytes,
    the commitment output and reserved-value witness exactly when a witness merkle root is supplied."""
    import bits.tx

    extra = bx(case.get("extra", ""))
    spk = bx(case.get("spk", "51"))
    root = bx(case["root"]) if case.get("root") else None
    reward = case["value"]
    f = Fails()
    cls = ["nt:no-height", "nt:no-height/with-commitment" if root is not None else "nt:no-height/without-commitment"]
    got = attempt(bits.tx.coinbase_tx, extra, spk, block_reward=reward, witness_merkle_root_hash=root, **({"regtest": True} if case.get("regtest") else {}))
    if len(extra) > 100:
        cls.append("nt:no-height/script>100")
        f.expect(raised(got), "coinbase/not-refused/script>100/no-height", repr(got)[:80])
        return cls, f
    if raised(got):
        # the statement speaks of what holds "when a height is given"; a library that insists on a height (BIP34 made it
        # mandatory) refuses this form, which is not a violation - a transaction it does return is judged below
        cls.append("no-height/refused")
        return cls, f
    try:
        tx, end = txref.parse(got)
    except Exception as e:  # noqa: BLE001
        f.add("coinbase/unparseable/no-height", repr(e))
        return cls, f
    f.expect(end == len(got), "coinbase/trailing-bytes")
    if f.expect(len(tx["ins"]) == 1, "coinbase/input-count", len(tx["ins"])):
        i = tx["ins"][0]
        f.expect(i["txid"] == b"\x00" * 32 and i["vout"] == 0xFFFFFFFF, "coinbase/outpoint-not-null", i["txid"].hex())
        f.expect(i["script"] == extra, "coinbase/script-ne-given/no-height", i["script"][:16].hex())
        if root is not None:
            f.expect(tx["segwit"] and i["witness"] == [b"\x00" * 32], "coinbase/reserved-value-witness-missing/no-height", repr(i["witness"])[:80])
        else:
            f.expect(not tx["segwit"], "coinbase/witness-without-commitment/no-height")
    if f.expect(len(tx["outs"]) == (2 if root is not None else 1), "coinbase/output-count/no-height", len(tx["outs"])):
        o = tx["outs"][0]
        f.expect(o["script"] == spk, "coinbase/output-script")
        f.expect(o["value"] == reward, "coinbase/value-ne-expected/no-height", f"value={o['value']} want={reward}")
        if root is not None:
            c = tx["outs"][1]
            f.expect(c["value"] == 0 and c["script"] == chain.COMMITMENT_HEADER + root, "coinbase/commitment-output/no-height", c["script"].hex())
    return cls, f


def check_coinbase(case):
    import bits.tx

    if case["height"] is None:
        return check_coinbase_heightless(case)
    h = case["height"]
    regtest = case["regtest"]
    extra = bx(case.get("extra", ""))
    spk = bx(case.get("spk", "51"))
    root = bx(case["root"]) if case.get("root") else None
    iv = 150 if regtest else 210000
    sub = chain.subsidy(h, iv)
    rmode = case.get("reward", "none")
    reward = None if rmode == "none" else (sub if rmode == "eq" else max(1, sub // 2) if rmode == "half" else sub + case.get("over", 1))
    f = Fails()
    cls = _height_class(h, regtest) or ["height-plain"]
    prefix = chain.push_int(h)
    script = prefix + extra
    if len(script) > 100:
        cls.append("nt:script-101" if len(script) == 101 else "nt:script>100")
    if len(script) == 100:
        cls.append("nt:script-100")
    if root is not None:
        cls.append("nt:with-commitment")
    cls.append("reward:" + rmode)
    net = "regtest" if regtest else "mainnet"
    if (h + len(extra)) % 2:
        # history: a coinbase for the same height on the other halving schedule, with the commitment the other way
        # round and a default claim, is built first; the call under test must not see anything of it
        attempt(bits.tx.coinbase_tx, b"\x00", spk, block_height=h, regtest=not regtest, witness_merkle_root_hash=None if root is not None else bytes(32))
        cls.append("nt:after-same-height-other-schedule")
    got = attempt(bits.tx.coinbase_tx, extra, spk, block_reward=reward, block_height=h, regtest=regtest, witness_merkle_root_hash=root)
    if reward is not None and reward > sub:
        cls.append("nt:reward>subsidy")
    must_refuse = len(script) > 100 or (reward is not None and reward > sub)
    if must_refuse:
        why = "script>100" if len(script) > 100 else "reward>subsidy"
        hz = "height-0" if h == 0 else "height>0"
        f.expect(raised(got), f"coinbase/not-refused/{why}/{hz}", repr(got)[:80])
        return cls, f
    hcls = "height-0" if h == 0 else "height<=16" if h <= 16 else "height>16"
    if raised(got):
        f.add(f"coinbase/raises-{got.kind}/{hcls}/{net}", got)
        return cls, f
    try:
        tx, end = txref.parse(got)
    except Exception as e:  # noqa: BLE001
        f.add(f"coinbase/unparseable/{hcls}", repr(e))
        return cls, f
    f.expect(end == len(got), "coinbase/trailing-bytes")
    if f.expect(len(tx["ins"]) == 1, "coinbase/input-count", len(tx["ins"])):
        i = tx["ins"][0]
        f.expect(i["txid"] == b"\x00" * 32 and i["vout"] == 0xFFFFFFFF, "coinbase/outpoint-not-null", i["txid"].hex())
        f.expect(i["script"][: len(prefix)] == prefix and i["script"] == script, f"coinbase/bip34-height-push/{hcls}", i["script"][:8].hex() + " want " + prefix.hex())
        f.expect(len(i["script"]) <= 100, "coinbase/script>100")
        if root is not None:
            f.expect(tx["segwit"] and i["witness"] == [b"\x00" * 32], "coinbase/reserved-value-witness-missing", repr(i["witness"])[:80])
        else:
            f.expect(not tx["segwit"], "coinbase/witness-without-commitment")
    if f.expect(len(tx["outs"]) == (2 if root is not None else 1), "coinbase/output-count", len(tx["outs"])):
        o = tx["outs"][0]
        f.expect(o["script"] == spk, "coinbase/output-script")
        want = sub if reward is None else reward
        halv = "at-or-after-halving" if h >= iv else "before-halving"
        f.expect(o["value"] <= sub, f"coinbase/claims-more-than-subsidy/{net}/{halv}", f"h={h} value={o['value']} subsidy={sub}")
        f.expect(o["value"] == want, f"coinbase/value-ne-expected/{net}/{halv}/reward-{rmode}", f"h={h} value={o['value']} want={want}")
        if root is not None:
            c = tx["outs"][1]
            f.expect(c["value"] == 0 and c["script"] == chain.COMMITMENT_HEADER + root, "coinbase/commitment-output", c["script"].hex())
    return cls, f


def enum_coinbase(tier):
    heights = set(range(0, 70001)) | set(HEIGHT_BOUNDS)
    for k in range(0, 71):
        for d in (-1, 0, 1):
            for iv in (210000, 150):
                if k * iv + d >= 0:
                    heights.add(k * iv + d)
    step = 1 if tier == "thorough" else 1
    for h in sorted(heights):
        if h > 2000 and h % step:
            continue
        for regtest in (False, True):
            yield {"height": h, "regtest": regtest}


@st.composite
def coinbase_cases(draw):
    hk = draw(st.sampled_from(["bound", "halving", "small", "any", "any", "none"]))
    regtest = draw(st.booleans())
    if hk == "none":
        # no height: the reward is given explicitly
        n = draw(st.sampled_from([0, 1, 4, 40, 99, 100, 101, 110]) | st.integers(0, 100))
        case = {
            "height": None, "regtest": regtest, "extra": (draw(st.binary(min_size=1, max_size=2)) * 60)[:n].hex(), "spk": draw(st.binary(min_size=1, max_size=40)).hex(),
            "value": draw(st.sampled_from([1, 50 * 10**8, 25 * 10**8, 10**8]) | st.integers(1, 50 * 10**8)),
        }
        if draw(st.booleans()):
            case["root"] = draw(st.binary(min_size=32, max_size=32)).hex()
        return case
    if hk == "bound":
        h = draw(st.sampled_from(HEIGHT_BOUNDS))
    elif hk == "halving":
        iv = draw(st.sampled_from([150, 210000]))
        h = max(0, draw(st.integers(0, 70)) * iv + draw(st.sampled_from([-1, 0, 1])))
    elif hk == "small":
        h = draw(st.integers(0, 70000))
    else:
        h = draw(st.integers(0, 2**31 - 1))
    plen = len(chain.push_int(h))
    ek = draw(st.sampled_from(["short", "fit", "fit-1", "over1", "over", "empty"]))
    n = {"short": draw(st.integers(0, 40)), "fit": 100 - plen, "fit-1": 99 - plen, "over1": 101 - plen, "over": draw(st.integers(102, 115)) - plen, "empty": 0}[ek]
    case = {
        "height": h,
        "regtest": regtest,
        "extra": (draw(st.binary(min_size=1, max_size=2)) * 60)[:n].hex(),
        "spk": draw(st.binary(min_size=1, max_size=40)).hex(),
        "reward": draw(st.sampled_from(["none", "none", "eq", "half", "over"])),
        "over": draw(st.sampled_from([1, 2, 10**8])),
    }
    if draw(st.booleans()):
        case["root"] = draw(st.binary(min_size=32, max_size=32)).hex()
    return case


def check_block(case):
    import bits.blockchain as bc

    hd = case["header"]
    f = Fails()
    txs = [gen_tx.to_ref(t) for t in case["txs"]]
    for k in case.get("dups", []):
        txs.append(txs[k % len(txs)])
    cls = []
    if len(txs) >= 2:
        cls.append("nt:block>=2-txs")
    if any(t["segwit"] for t in txs):
        cls.append("nt:block-with-segwit-tx")
    if case.get("dups"):
        cls.append("nt:block-dup-tx")
    t0 = txs[0]
    if len(t0["ins"]) == 1 and t0["ins"][0]["txid"] == bytes(32) and t0["ins"][0]["vout"] == 0xFFFFFFFF:
        cls.append("nt:block-starts-with-coinbase")
        if hd["version"] >= 2:
            cls.append("nt:block-version>=2-with-coinbase")
        if t0["segwit"]:
            cls.append("nt:block-coinbase-with-witness")
    feats = {x for t in txs for x in gen_tx.features(t)}
    for x in ("wit-item>=253", "script>=253", "script>=65536", "wit-item>=65536"):
        if x in feats:
            cls.append("nt:block-tx-" + x)
    if not cls:
        cls.append("single-legacy-tx")
    prev, mr, nbits = bx(hd["prev"]), bx(hd["merkle"]), bx(hd["bits"])
    want_hdr = hd["version"].to_bytes(4, "little") + prev + mr + hd["time"].to_bytes(4, "little") + nbits + hd["nonce"].to_bytes(4, "little")
    got_hdr = attempt(bc.block_header, hd["version"], prev, mr, hd["time"], nbits, hd["nonce"])
    if not f.expect(got_hdr == want_hdr and len(want_hdr) == 80, "header/ser-ne-reference", repr(got_hdr)[:80]):
        return cls, f
    hdd = attempt(bc.block_header_deser, got_hdr)
    want_fields = {"version": hd["version"], "prev_blockheaderhash": prev.hex(), "merkle_root_hash": mr.hex(), "nTime": hd["time"], "nBits": nbits.hex(), "nNonce": hd["nonce"]}
    f.expect(hdd == want_fields, "header/deser-ne-fields", repr(hdd)[:200])
    raws = [txref.serialize(t) for t in txs]
    blk = attempt(bc.block_ser, got_hdr, raws)
    want_blk = want_hdr + txref.compact_size(len(raws)) + b"".join(raws)
    if not f.expect(blk == want_blk, "block/ser-ne-reference", f"len {len(blk) if isinstance(blk, bytes) else blk}"):
        return cls, f
    bd = attempt(bc.block_deser, blk)
    if raised(bd):
        f.add(f"block/deser-raises-{bd.kind}", bd)
        return cls, f
    if not isinstance(bd, dict):
        f.add("block/deser-header-field", f"not a dict: {bd!r}"[:120])
        return cls, f
    for k, v in want_fields.items():
        if bd.get(k) != v:
            f.add("block/deser-header-field", f"{k}: {bd.get(k)!r}")
            break
    got_txs = bd.get("txns", [])
    if not isinstance(got_txs, (list, tuple)):
        f.add("block/tx-count", f"no list of transactions: {got_txs!r}"[:120])
    elif f.expect(len(got_txs) == len(txs), "block/tx-count", f"{len(got_txs)} vs {len(txs)}"):
        for i, (g, t, rw) in enumerate(zip(got_txs, txs, raws)):
            if not isinstance(g, dict):
                f.add("block/tx-id-or-raw-ne-reference", f"tx {i}: not a dict: {g!r}"[:120])
                break
            ok = g.get("txid") == txref.txid(t).hex() and g.get("wtxid") == txref.wtxid(t).hex() and g.get("raw") == rw.hex()
            if not ok:
                f.add("block/tx-id-or-raw-ne-reference", f"tx {i}: txid {g.get('txid')}")
                break
    return cls, f


@st.composite
def block_cases(draw, thorough):
    n = draw(st.sampled_from([1, 1, 2, 3, 5, 8])) if not thorough else draw(st.one_of(st.integers(1, 8), st.sampled_from([20, 50])))
    txs = [draw(gen_tx.tx_case("small", max_io=2)) for _ in range(min(n, 8))]
    if draw(st.integers(0, 2)) == 0:
        # one transaction from the boundary-length grammar (scripts / witness items of 253+ and 65536+ bytes) at any position
        txs[draw(st.integers(0, len(txs) - 1))] = draw(gen_tx.tx_case("big", shapes=["few"]))
    if draw(st.booleans()):
        # what real blocks start with: a coinbase (null outpoint, height push + arbitrary miner data in its script)
        txs[0] = draw(gen_tx.coinbase_case())
    dups = [draw(st.integers(0, 7)) for _ in range(max(0, n - 8))]
    if draw(st.integers(0, 3)) == 0:
        dups.append(draw(st.integers(0, 7)))
    return {
        "header": {
            "version": draw(st.sampled_from([1, 2, 3, 4, 0x20000000, 0x3FFFE000]) | gen_tx.u32()),
            "prev": draw(st.binary(min_size=32, max_size=32)).hex(),
            "merkle": draw(st.binary(min_size=32, max_size=32)).hex(),
            "time": draw(gen_tx.u32()),
            "bits": draw(st.binary(min_size=4, max_size=4)).hex(),
            "nonce": draw(gen_tx.u32()),
        },
        "txs": txs,
        "dups": dups,
    }


def check_mine(case):
    """integrations.mine_block against a scripted RPC node (regtest difficulty)."""
    import bits.integrations as integ
    import bits.rpc

    height = case["height"]
    mem = []
    for t in case["mempool"]:  # a mempool never holds two transactions with the same txid
        rt = gen_tx.to_ref(t)
        if txref.txid(rt) not in {txref.txid(x) for x in mem}:
            mem.append(rt)
    raws = [txref.serialize(t) for t in mem]
    prev_hash = bx(case["prev"])
    submitted = {}

    def rpc(method, *params, **kw):
        if method == "getdifficulty":
            return 4.6565423739069247e-10
        if method == "getblockcount":
            return height
        if method == "getblockhash":
            return prev_hash[::-1].hex() if params[0] == height else hashlib.sha256(str(params[0]).encode()).hexdigest()
        if method == "getblock":
            return {"time": case["time"], "bits": "207fffff", "hash": params[0]}
        if method == "getrawmempool":
            return [txref.txid(t)[::-1].hex() for t in mem]
        if method == "getrawtransaction":
            for t, r in zip(mem, raws):
                if txref.txid(t)[::-1].hex() == params[0]:
                    return r.hex()
            raise KeyError(params[0])
        if method == "submitblock":
            submitted["block"] = bytes.fromhex(params[0])
            return None
        raise AssertionError("unexpected rpc " + method)

    f = Fails()
    any_segwit = any(t["segwit"] for t in mem)
    cls = ["nt:mine-with-segwit" if any_segwit else ("nt:mine-with-mempool" if mem else "mine-empty")]
    saved = bits.rpc.rpc_method
    bits.rpc.rpc_method = rpc
    try:
        r = attempt(integ.mine_block, bx(case["addr"]), rpc_url="http://stub")
    finally:
        bits.rpc.rpc_method = saved
    shape = "segwit-mempool" if any_segwit else ("legacy-mempool" if mem else "empty-mempool")
    if raised(r) or "block" not in submitted:
        f.add(f"mine/raises-or-no-submit/{shape}", r)
        return cls, f
    try:
        hdr, txs = chain.parse_block(submitted["block"])
    except Exception as e:  # noqa: BLE001
        f.add(f"mine/unparseable-block/{shape}", repr(e))
        return cls, f
    f.expect(hdr["prev"] == prev_hash, "mine/prev-hash")
    f.expect(int.from_bytes(chain.hash256(submitted["block"][:80]), "little") <= 0x7FFFFF << (8 * 29), "mine/pow-not-satisfied")
    if f.expect(len(txs) == len(mem) + 1 and [rw for _, rw in txs[1:]] == raws, f"mine/txs-ne-mempool/{shape}", len(txs)):
        f.expect(hdr["merkle"] == chain.merkle_root([txref.txid(t) for t, _ in txs]), f"mine/merkle-root-ne-reference/{shape}")
        cb = txs[0][0]
        f.expect(cb["ins"][0]["script"].startswith(chain.push_int(height + 1)), "mine/bip34-height")
        f.expect(cb["outs"][0]["value"] == chain.subsidy(height + 1, 150), "mine/subsidy", cb["outs"][0]["value"])
        commits = [o for o in cb["outs"] if o["script"][:6] == chain.COMMITMENT_HEADER]
        if any_segwit:
            want = chain.witness_commitment([b"\x00" * 32] + [txref.wtxid(t) for t in mem])
            f.expect(len(commits) == 1 and commits[0]["script"][6:] == want and cb["ins"][0]["witness"] == [b"\x00" * 32], "mine/witness-commitment-ne-reference", repr([c["script"].hex() for c in commits])[:160])
        else:
            f.expect(not commits, "mine/commitment-without-segwit")
    return cls, f


@st.composite
def mine_cases(draw):
    n = draw(st.integers(0, 6))
    return {
        "height": draw(st.sampled_from([0, 1, 15, 16, 17, 127, 128, 148, 149, 150, 299, 300]) | st.integers(0, 100000)),
        "prev": draw(st.binary(min_size=32, max_size=32)).hex(),
        "time": draw(st.integers(1, 2**31)),
        "mempool": [draw(gen_tx.tx_case("small", max_io=2)) if draw(st.integers(0, 5)) else draw(gen_tx.tx_case("full", shapes=["few"])) for _ in range(n)],
        "addr": rb58.check_encode(b"\x6f" + draw(st.binary(min_size=20, max_size=20))).hex(),
    }


def targets(tier):
    thorough = tier == "thorough"
    return [
        Target("merkle", check_merkle, enumerate_=enum_merkle, required=["nt:merkle-len-5", "nt:odd-inner-level", "nt:repeated-ids"], exhaustive=True),
        Target("coinbase-heights", check_coinbase, enumerate_=enum_coinbase,
               required=["nt:height-0", "nt:height-17", "nt:height-128", "nt:height-32768", "nt:halving-210000", "nt:halving-150-regtest", "nt:mainnet-at-regtest-halving", "nt:after-same-height-other-schedule"], exhaustive=True),
        Target("coinbase", check_coinbase, strategy=lambda tier: coinbase_cases(), budget={"quick": 6000, "thorough": 120000},
               required=["nt:script-101", "nt:script-100", "nt:with-commitment", "reward:over", "reward:half", "nt:after-same-height-other-schedule", "nt:no-height/with-commitment", "nt:no-height/without-commitment", "nt:no-height/script>100"]),
        Target("block", check_block, strategy=lambda tier: block_cases(thorough), budget={"quick": 1500, "thorough": 30000},
               required=["nt:block>=2-txs", "nt:block-with-segwit-tx", "nt:block-dup-tx", "nt:block-starts-with-coinbase", "nt:block-version>=2-with-coinbase", "nt:block-coinbase-with-witness", "nt:block-tx-wit-item>=253", "nt:block-tx-script>=253", "nt:block-tx-script>=65536", "nt:block-tx-wit-item>=65536"]),
        Target("mine-block", check_mine, strategy=lambda tier: mine_cases(), budget={"quick": 300, "thorough": 6000},
               required=["nt:mine-with-segwit"]),
    ]
