"""C07 — Base58 / Base58Check are exact inverses; only checksum-valid strings accepted."""
from hypothesis import strategies as st

from vf import gen
from vf.core import Fails, Target, attempt, bx, hx, raised
from vf.ref import base58 as ref

PROPERTY = "C07"
LEVEL = "exploration"
RULE = (
    "bytes-roundtrip: byte strings 0..128 built by construction with 0..40 leading zero bytes, all-zero, all-0xff and "
    "big-endian encodings of 58^k+-1 / 256^k+-1, plus random; string-accept: alphabet strings 0..180, strings of 0..5 chars, "
    "and 1-3 edit mutations (substitute/insert/delete/transpose/truncate/extend/bit-flip with in-alphabet, near-alphabet "
    "'0OIl +/' and arbitrary bytes) of valid Base58Check encodings. Oracle: independent long-division codec + checksum rule. "
    "Non-trivial: leading zeros / empty / radix boundary input, or a string that is a real mutation (differs from its base). "
    "Distinct = distinct canonical case encodings."
)
ASSUMPTIONS = [
    "vf/ref/base58.py (byte-wise long division, validated against known addresses) and hashlib.sha256 are correct",
    "rejection means any exception; acceptance means a bytes return value",
]
SELFCHECKS = [ref.selfcheck]

NEAR = b"0OIl +/_-\n\r\t\x00\x7f\x80\xff"


def _lib():
    import bits.base58 as b58

    return b58


def check_bytes(case):
    b58 = _lib()
    data = bx(case["data"])
    f = Fails()
    cls = []
    nz = len(data) - len(data.lstrip(b"\x00"))
    if nz:
        cls.append("nt:leading-zeros")
    if not data:
        cls.append("nt:empty")
    if data and nz == len(data):
        cls.append("nt:all-zero")
    if case.get("kind") == "radix":
        cls.append("nt:radix-boundary")
    if case.get("kind") == "digits":
        cls.append("nt:value-given-by-its-base58-digits")
    if case.get("kind") == "nested":
        cls.append("nt:payload-is-base58-text")
    if case.get("kind") == "text":
        cls.append("nt:payload-reads-as-text")
    if len(data) >= 96:
        cls.append("nt:data>=96-bytes")  # encodings of more than 128 characters
    if not cls:
        cls.append("plain")
    exp = ref.encode(data)
    enc = attempt(b58.base58encode, data)
    if f.expect(not raised(enc) and enc == exp, "encode/ne-reference", f"got {enc!r} want {exp!r}"):
        dec = attempt(b58.base58decode, enc)
        f.expect(not raised(dec) and dec == data, "decode-of-encode/ne-input", f"{dec!r}")
    expc = ref.check_encode(data)
    encc = attempt(b58.base58check, data)
    if f.expect(not raised(encc) and encc == expc, "check-encode/ne-reference", f"got {encc!r} want {expc!r}"):
        decc = attempt(b58.base58check_decode, encc)
        f.expect(not raised(decc) and decc == data, "check-decode-of-encode/ne-input", f"{decc!r}")
        isb = attempt(b58.is_base58check, encc)
        f.expect(isb is True, "is_base58check/valid-not-true", f"{isb!r}")
    return cls, f


def check_string(case):
    b58 = _lib()
    s = bx(case["s"])
    f = Fails()
    cls = []
    kinds = case.get("kinds", [])
    if kinds and case.get("base") != case["s"]:
        cls.append("nt:mutated")
        for k in kinds:
            cls.append("mut:" + k)
    if len(s) <= 5:
        cls.append("nt:shorter-than-checksum" if s else "nt:empty-string")
    rd = ref.decode(s)
    in_alpha = rd is not None
    cls.append("in-alphabet" if in_alpha else "nt:non-alphabet")
    # plain base58: accepted strings re-encode to themselves
    d = attempt(b58.base58decode, s)
    if in_alpha:
        if f.expect(not raised(d) and d == rd, "decode/ne-reference", f"{d!r} vs {rd!r}"):
            e = attempt(b58.base58encode, d)
            f.expect(e == s, "encode-of-decode/ne-string", f"{e!r}")
    else:
        # a string with characters outside the alphabet is not a Base58 string
        f.expect(raised(d), "decode/accepts-non-alphabet", f"{d!r}")
    # base58check accept set
    want = ref.check_decode(s)
    got = attempt(b58.base58check_decode, s)
    if want is None:
        cls.append("expect-reject")
        f.expect(raised(got), "check-decode/accepts-invalid", f"returned {got!r}")
    else:
        cls.append("nt:expect-accept")
        f.expect(not raised(got) and got == want, "check-decode/rejects-or-wrong-valid", f"{got!r} want {want!r}")
    isb = attempt(b58.is_base58check, s)
    f.expect(isinstance(isb, bool) and isb == (want is not None), "is_base58check/ne-reference", f"{isb!r}")
    return cls, f


@st.composite
def bytes_cases(draw):
    kind = draw(st.sampled_from(["zeros+body", "allzero", "allff", "radix", "random", "random", "nested", "text", "digits", "digits"]))
    if kind == "digits":
        # a value given by its Base58 digits: the leading one to three digits from the small and the large end of the digit
        # range (1, 2, 56, 57 - e.g. "21", "2z", "zz1"), the rest all-zero, all-57 or random; any number of digits
        lead = draw(st.lists(st.sampled_from([1, 1, 2, 2, 57, 56, 0]), min_size=1, max_size=3))
        if lead[0] == 0:
            lead[0] = 1
        n = draw(st.integers(0, 170))
        rest = draw(st.sampled_from(["zeros", "max", "random", "random"]))
        tail = [0] * n if rest == "zeros" else [57] * n if rest == "max" else draw(st.lists(st.integers(0, 57), min_size=n, max_size=n))
        v = 0
        for dgt in lead + tail:
            v = v * 58 + dgt
        data = b"\x00" * draw(st.integers(0, 2)) + v.to_bytes((v.bit_length() + 7) // 8, "big")
        return {"kind": kind, "data": hx(data[:128])}
    if kind == "nested":
        # a payload that is itself Base58 / Base58Check text (an address, a WIF string, an encoding of an encoding)
        inner = draw(st.one_of(st.binary(max_size=40), st.just(b""), st.just(b"hello world"), st.binary(min_size=21, max_size=21)))
        data = ref.check_encode(inner) if draw(st.booleans()) else ref.encode(inner)
        if draw(st.integers(0, 3)) == 0:
            data = ref.check_encode(data)
        return {"kind": kind, "data": hx(data[:128])}
    if kind == "text":
        return {"kind": kind, "data": hx(draw(gen.lookalike_bytes()))}
    if kind == "zeros+body":
        z = draw(st.integers(0, 40))
        body = draw(gen.sized_binary(88))
        data = b"\x00" * z + body
    elif kind == "allzero":
        data = b"\x00" * draw(st.integers(0, 128))
    elif kind == "allff":
        data = b"\xff" * draw(st.integers(1, 128))
    elif kind == "radix":
        base = draw(st.sampled_from([58, 256]))
        k = draw(st.integers(1, 120 if base == 256 else 170))
        v = base**k + draw(st.sampled_from([-1, 0, 1]))
        data = v.to_bytes((v.bit_length() + 7) // 8, "big")[-128:]
        data = b"\x00" * draw(st.integers(0, 3)) + data
        data = data[:128]
    elif draw(st.booleans()):
        n = draw(st.integers(0, 128))  # Hypothesis' own sizes lean short: every length is as likely as any other here
        data = draw(st.binary(min_size=n, max_size=n))
    else:
        data = draw(st.binary(min_size=0, max_size=128))
    return {"kind": kind, "data": hx(data)}


@st.composite
def string_cases(draw):
    kind = draw(st.sampled_from(["alpha", "short", "mut-check", "mut-check", "mut-check", "valid", "raw", "bad-cksum-byte", "affix", "wrapped"]))
    if kind == "alpha":
        n = draw(st.integers(0, 180))
        s = bytes(draw(st.lists(st.sampled_from(list(ref.ALPHABET.encode())), min_size=n, max_size=n)))
        return {"kind": kind, "s": hx(s)}
    if kind == "short":
        n = draw(st.integers(0, 5))
        pool = list(ref.ALPHABET.encode()) + list(NEAR)
        s = bytes(draw(st.lists(st.sampled_from(pool), min_size=n, max_size=n)))
        return {"kind": kind, "s": hx(s)}
    if kind == "raw":
        return {"kind": kind, "s": hx(draw(gen.sized_binary(60)))}
    payload = draw(st.one_of(st.binary(max_size=40), st.integers(0, 6).flatmap(lambda z: st.binary(max_size=30).map(lambda b: b"\x00" * z + b))))
    base = ref.check_encode(payload)
    if kind == "valid":
        return {"kind": kind, "s": hx(base), "base": hx(base)}
    if kind == "affix":
        # a valid encoding with ONE foreign byte glued to its end or start (newline, NUL, space, look-alikes, high bytes)
        ch = bytes([draw(st.sampled_from(list(NEAR)))])
        s = base + ch if draw(st.booleans()) else ch + base
        return {"kind": kind, "s": hx(s), "base": hx(base), "kinds": ["affix:" + ("end" if s.startswith(base) else "start")]}
    if kind == "wrapped":
        # a valid encoding inside something longer: a payment-URI scheme, a label, quotes, another valid encoding in front
        pre, post = draw(st.sampled_from([(b"bitcoin:", b""), (b":", b""), (b"1:", b""), (base[:3] + b":", b""), (b"", b"?amount=1"), (b'"', b'"'), (b"<", b">"), (b"addr=", b""), (b"", b","), (base + b" ", b""), (base + b":", b"")]))
        return {"kind": kind, "s": hx(pre + base + post), "base": hx(base), "kinds": ["wrapped"]}
    if kind == "bad-cksum-byte":
        # exactly one of the four checksum bytes altered, re-encoded: in-alphabet, invalid by construction
        ck = bytearray(ref.checksum(payload))
        ck[draw(st.integers(0, 3))] ^= draw(st.integers(1, 255))
        s = ref.encode(payload + bytes(ck))
        return {"kind": kind, "s": hx(s), "base": hx(base), "kinds": ["cksum-byte"]}
    s, kinds = draw(gen.edit_mutation(base, ref.ALPHABET.encode(), NEAR, max_edits=3))
    return {"kind": kind, "s": hx(s), "base": hx(base), "kinds": kinds}


def _targets(tier):
    return [
        Target(
            "bytes-roundtrip",
            check_bytes,
            strategy=lambda tier: bytes_cases(),
            budget={"quick": 20000, "thorough": 400000},
            required=["nt:leading-zeros", "nt:empty", "nt:all-zero", "nt:radix-boundary", "nt:data>=96-bytes", "nt:payload-is-base58-text", "nt:payload-reads-as-text", "nt:value-given-by-its-base58-digits"],
        ),
        Target(
            "string-accept",
            check_string,
            strategy=lambda tier: string_cases(),
            budget={"quick": 24000, "thorough": 600000},
            required=["nt:mutated", "nt:non-alphabet", "nt:expect-accept", "expect-reject", "nt:shorter-than-checksum", "mut:affix:end", "mut:affix:start"],
        ),
    ]


def targets(tier):
    ts = _targets(tier)
    if tier == "thorough":
        # coverage-guided add-on (atheris/libFuzzer through Hypothesis' fuzz_one_input); skipped with a class label if atheris is missing
        from vf import fuzz

        for name in ['string-accept', 'bytes-roundtrip']:
            ts.append(fuzz.campaign_target(PROPERTY, name, campaigns=16, runs=30000))
    return ts
