"""C18 — the node's message queue loses / misattributes no message under any interleaving of the receive threads."""
import hashlib
import itertools
import json
import logging

from hypothesis import strategies as st

from vf.core import Fails, Target, attempt, innermost_repo_frame, raised
from vf.env import sched as S
from vf.ref import p2pwire as W

PROPERTY = "C18"
LEVEL = "exploration"
RULE = (
    "A real bits.p2p.Node runs recv_loop(peer) in real threads under a baton scheduler (vf/env/sched.py): queue "
    "operations, the handled-command membership test and socket sends are scheduling points, the schedule (list of ints) "
    "is the input, executions are deterministic. exhaustive: every assignment of message classes {handled-with-reply, "
    "handled-silent, queued} to 2 peers x 1..2 messages (144) and 3 peers x 1 message (27), concrete kinds/nonces derived "
    "per assignment, and for each assignment EVERY schedule (depth-first enumeration by prefix replay; a case is one "
    "assignment + one schedule-prefix bucket, the buckets partition the schedule tree). sampled: Hypothesis draws 2..3 peers x "
    "1..3 messages over {ping, version, verack, inv, addr, unknown command} with a schedule. walks-3x2: all 729 class "
    "assignments of 3 peers x 2 messages, each with schedules whose choices are digits of a hash (deterministic). line-preempt: the same "
    "assignments as `exhaustive`, but EVERY source line a receive thread executes inside a method of Node is a scheduling point "
    "as well (sys.settrace in the receive threads): for each starting thread, every schedule with at most 1 (quick) / 2 "
    "(thorough) context switches before a thread finishes, at any point and to any other runnable thread. line-sampled: "
    "Hypothesis draws 2..3 peers x 1..3 messages and 1..4 context switches at line granularity. Histogram labels starting "
    "with 'exec' / 'nt:exec' count executions (one label per executed schedule), 'case:' labels count cases. "
    "Non-trivial execution: while a thread is between the first and the last step of processing one handled message, "
    "another thread performs a step of a message that has to end up queued (nt:exec/queued-message-step-inside-handled-"
    "window, stated without reference to which operations the implementation uses), or specifically enqueues "
    "(nt:exec/foreign-enqueue-inside-handled-window), or specifically enqueues between that thread's own enqueue and "
    "dequeue (nt:exec/preempted-between-enqueue-and-dequeue, the shape the property text names). A case is non-trivial "
    "if it contains such an execution. Failure signatures end in @interleaving-only when the same assignment shows no "
    "such failure in any of the n! serial orders, else @serial."
)
ASSUMPTIONS = [
    "vf/ref/p2pwire.py (message envelope, ping/inv/addr/version layouts; validated against the protocol documentation's verack and version examples) is correct",
    "targets exhaustive / sampled / walks-3x2 model interleaving at the granularity named in the property: deque operations on Node._msg_queue (walking it: one step per element), the membership test on Node._registered_commands_to_handle, and socket sends are atomic steps; everything else a receive thread does is treated as thread-local there",
    "targets line-preempt / line-sampled drop that assumption for the code of Node itself: a switch can happen before any source line of a Node method (statements are atomic, as are calls into helpers outside Node); they bound the number of context switches instead",
    "the parsed payload a message should carry is what the library's own parse_payload returns for it sequentially (payload parsing is property C17's subject); version payloads use the library's own dialect (16 ASCII bytes in the address fields)",
    "commands handled automatically = version and ping (required by the statement) plus whatever else a fresh Node registers (verack)",
]
SELFCHECKS = [W.selfcheck, S.selfcheck]

NT = "nt:exec/queued-message-step-inside-handled-window"
KINDS = ("ping", "version", "verack", "inv", "addr", "unknown", "known")
# "known": other protocol commands a peer sends unasked (feefilter, sendcmpct, sendheaders, getaddr, pong, getheaders,
# getdata): commands the node does not answer itself, so by the statement they belong in the queue like unknown ones
CLASS_KINDS = {"R": ("ping", "version"), "S": ("verack",), "Q": ("inv", "addr", "unknown", "known")}
CLASS_WEIGHT = {"R": 4, "S": 3, "Q": 2}  # steps per message in the current code; only used to balance shards
MAGIC = W.REGTEST
NET_MAGIC = {"regtest": W.REGTEST, "testnet": W.TESTNET, "mainnet": W.MAINNET}


def _net_of(peers):
    """The network a case runs under, decided by its content: cases of different networks follow one another in one
    process (what a long-lived process that is pointed at another network, or a test harness, does)."""
    try:
        return ("regtest", "testnet", "mainnet", "regtest")[(int(peers[0][0][1]) >> 22) % 4]
    except (IndexError, TypeError, ValueError):
        return "regtest"
IP_ASCII = b"::ffff:127.0.0.1"  # the 16 bytes bits itself puts into the address fields


def _lib():
    import bits.p2p as p2p

    return p2p


def _h(*parts):
    return hashlib.blake2b("/".join(str(p) for p in parts).encode(), digest_size=32).digest()


# --------------------------------------------------------------------------- messages (built with the reference only)


INV_BIG = (253, 1000, 0)
ADDR_BIG = (1000, 999, 253, 0)


def _shared(salt):
    """One inv/addr message in four carries content that is NOT unique to its sender and position: several peers
    announce the same inventory / addresses, a peer repeats itself.  Each copy is a message of its own."""
    return (salt >> 16) % 4 == 0


def _count(salt, big):
    """Entries of an inv/addr message: 1 or 2, and for one message in eight one of the protocol's boundary counts."""
    sel = (salt >> 8) % (8 * len(big))
    return big[sel] if sel < len(big) else 1 + (salt & 1)


def build_message(kind, peer, idx, salt):
    """(command, payload) of the idx-th message of `peer`; content is unique per (peer, idx) except ping/verack."""
    tag = peer * 16 + idx
    if kind == "ping":
        return b"ping", W.ping_payload(salt % 2**64)
    if kind == "verack":
        return b"verack", b""
    if kind == "version":
        ua = b"/c18:%d.%d/" % (peer, idx) if (salt >> 6) % 4 else b""  # one version message in four announces no user agent
        if (salt >> 6) % 8 == 1:
            ua = ua.ljust(253 + (salt >> 9) % 4, b"x")  # 253..256 bytes: the length prefix takes three bytes
        # the announced protocol version varies (the statement does not make the verack or later pongs depend on it)
        pv = (70015, 70016, 70001, 60002, 60001, 60000, 31800, 209, 106, 0, 2**31 - 1, 2**32 - 1)[(salt >> 2) % 12]
        pl = W.version_payload(
            pv, 1 + 8 * (salt & 1), 1600000000 + tag, (0, IP_ASCII, 18444), (1, IP_ASCII, 40000 + tag),
            salt % 2**64, ua, 1 + tag, relay=bool(salt & 2),
        )
        return b"version", pl
    if kind == "inv":
        if _shared(salt):
            # the same announcement as other peers make (or as this peer made before): one of two fixed payloads
            w = (salt >> 18) % 2
            return b"inv", W.inv_payload([(1 + j % 2, _h("inv", "shared", w, j)) for j in range(1 + w)])
        n = _count(salt, INV_BIG)
        return b"inv", W.inv_payload([(1 + ((salt >> 1) + j) % 2, _h("inv", peer, idx, salt, j)) for j in range(n)])
    if kind == "addr":
        if _shared(salt):
            w = (salt >> 18) % 2
            return b"addr", W.addr_payload([(1700000000 + j, 1, _h("addr", "shared", w, j)[:16], 8333 + j) for j in range(1 + w)])
        n = _count(salt, ADDR_BIG)  # 1000 is the most one addr message may carry
        ents = [(1700000000 + tag + j, 1, _h("addr", peer, idx, salt, j)[:16], 8333 + tag + j) for j in range(n)]
        return b"addr", W.addr_payload(ents)
    if kind == "known":
        d = _h("known", peer, idx, salt)
        which = (salt >> 4) % 7
        if which == 0:
            return b"feefilter", d[:8]
        if which == 1:
            return b"sendcmpct", bytes([salt & 1]) + (1 + (salt >> 1) % 2).to_bytes(8, "little")
        if which == 2:
            return b"sendheaders", b""
        if which == 3:
            return b"getaddr", b""
        if which == 4:
            return b"pong", d[:8]
        if which == 5:
            n = (salt >> 8) % 3
            return b"getheaders", (70015).to_bytes(4, "little") + W.compact_size(n) + b"".join(_h("gh", peer, idx, salt, j) for j in range(n)) + bytes(32)
        return b"getdata", W.inv_payload([(2, d)])
    if kind == "unknown":
        d = _h("unk", peer, idx, salt)
        name = b"zq" + bytes(97 + b % 26 for b in d[:8])  # never a protocol command, no parser, no handler
        # the name's length varies over the whole 12-byte field: 10 mostly, else 2, 3, 11 or 12 (12 leaves no padding NUL)
        name = (name + b"yx")[: (10, 10, 10, 10, 12, 12, 11, 3, 2)[(salt >> 12) % 9]]
        if _digit_name(salt) and len(name) >= 3:
            # command names are printable ASCII, not letters only (sendaddrv2, addrv2): a digit at the end, one inside
            name = name[:-1] + bytes([48 + d[9] % 10])
            if len(name) >= 6:
                name = name[:4] + bytes([48 + d[10] % 10]) + name[5:]
        return name, d[8 : 8 + salt % 9]
    raise ValueError(kind)


def _digit_name(salt):
    return (salt >> 15) % 3 == 0


class _Any:
    """Compares equal to everything (a payload the oracle does not pin down)."""

    def __eq__(self, other):
        return True

    def __ne__(self, other):
        return False

    def __repr__(self):
        return "<any payload>"


ANY = _Any()


class Plan:
    """Everything about one assignment that does not depend on the schedule."""

    def __init__(self, p2p, peers):
        self.peers = peers
        self.n = len(peers)
        self.skip = None
        self.parse_raises = None
        self.net = _net_of(peers)
        self.magic = NET_MAGIC[self.net]
        # how the peers' bytes reach recv(): message by message, or as one TCP-like byte stream in which a read may run
        # past the end of a message (decided by the case's content so that a case always replays the same way)
        self.stream = bool(peers) and bool(peers[0]) and (int(peers[0][0][1]) >> 20) % 2 == 1
        probe = p2p.Node()
        self.handled_cmds = {b"version", b"ping"} | {c for c in probe._registered_commands_to_handle if isinstance(c, bytes)}
        self.wire = []  # per peer: serialised messages
        self.exp_reply = []  # per peer: concatenated reply bytes / list of (command, payload)
        self.exp_queue = []  # per peer: [(command, parsed payload)] of messages that must end up queued
        self.exp_version = []  # per peer: parsed payload of its last version message, or None
        self.handled = []  # per peer: [bool]
        for p, msgs in enumerate(peers):
            wire, reply, queued, ver, hd = [], [], [], None, []
            for i, (kind, salt) in enumerate(msgs):
                cmd, payload = build_message(kind, p, i, salt)
                wire.append(W.message(self.magic, cmd, payload))
                parsed = attempt(p2p.parse_payload, cmd, payload)
                if raised(parsed):
                    # the message is well formed (built by the reference): it must still be handled or queued once; what
                    # the queue entry's payload looks like is then left open (payload parsing is C17's subject)
                    self.parse_raises = f"parse_payload raises for {kind}: {parsed!r}"
                    parsed = ANY
                hd.append(cmd in self.handled_cmds)
                if cmd == b"ping":
                    reply.append((b"pong", payload))
                elif cmd == b"version":
                    reply.append((b"verack", b""))
                    ver = parsed
                if cmd not in self.handled_cmds:
                    queued.append((cmd, parsed))
            self.wire.append(wire)
            self.exp_reply.append(reply)
            self.exp_queue.append(queued)
            self.exp_version.append(ver)
            self.handled.append(hd)
        self.exp_bytes = [b"".join(W.message(self.magic, c, pl) for c, pl in r) for r in self.exp_reply]
        self._serial = None

    def serial_sigs(self, p2p):
        """Signatures that already show when the peers are served one after the other (all n! orders): a failure with
        such a signature does not need an interleaving; any other failure does."""
        if self._serial is None:
            sigs = set()
            for order in itertools.permutations(range(self.n)):
                ex = S.run_node(p2p, self.wire, (), list(order), stream=self.stream)
                sigs.update(sig for sig, _ in judge(self, ex))
            self._serial = sigs
        return self._serial


# --------------------------------------------------------------------------- shape of an execution


def features(trace, handled):
    """Class labels of one execution from its step trace [(thread, op, message index)]."""
    first, last = {}, {}
    for k, (t, op, m) in enumerate(trace):
        key = (t, m)
        if key not in first:
            first[key] = k
        last[key] = k
    interleaved = race = mid = False
    for key, f in first.items():
        t = key[0]
        is_handled = 0 <= key[1] < len(handled[t]) and handled[t][key[1]]
        for k in range(f + 1, last[key]):
            t2, op2, m2 = trace[k]
            if t2 != t:
                interleaved = True
                if is_handled:
                    if op2 in S.ENQUEUE_OPS:
                        race = True
                    if 0 <= m2 < len(handled[t2]) and not handled[t2][m2]:
                        mid = True
    # enqueue .. dequeue of one thread with a foreign enqueue in between (the shape the current code is exposed to)
    open_, seen, shape = {}, {}, False
    for t, op, m in trace:
        if op in S.ENQUEUE_OPS:
            for u in open_:
                if u != t and open_[u]:
                    seen[u] = True
            open_[t], seen[t] = True, False
        elif op in S.DEQUEUE_OPS:
            if open_.get(t) and seen.get(t):
                shape = True
            open_[t] = False
    labels = ["exec"]
    if mid:
        labels.append(NT)
    if race:
        labels.append("nt:exec/foreign-enqueue-inside-handled-window")
    if shape:
        labels.append("nt:exec/preempted-between-enqueue-and-dequeue")
    if not interleaved:
        labels.append("exec/serial")
    elif not (race or mid):
        labels.append("exec/interleaved-outside-handled-windows")
    return labels


def _preemptions(trace):
    remaining = {}
    for t, _, _ in trace:
        remaining[t] = remaining.get(t, 0) + 1
    n = 0
    for k, (t, _, _) in enumerate(trace):
        remaining[t] -= 1
        if k + 1 < len(trace) and trace[k + 1][0] != t and remaining[t] > 0:
            n += 1
    return n


def render(trace):
    return " ".join(f"{t}{'.' + str(m) if m else ''}:{op.replace('q.', '')}" for t, op, m in trace)


# --------------------------------------------------------------------------- oracle


def _take(pool, item):
    for k, x in enumerate(pool):
        if x == item:
            del pool[k]
            return True
    return False


def judge(plan, ex):
    """Failures of one finished execution: [(signature, detail)], at most one entry per signature."""
    f = []
    node, sc = ex.node, ex.sched
    n = plan.n

    def add(sig, detail=""):
        if all(sig != s0 for s0, _ in f):
            f.append((sig, detail))

    # ---- a new node starts with a queue of its own ("nothing else" in the queue than what its peers sent)
    if getattr(ex, "stale", None):
        add("queue/new-node-holds-messages-queued-by-an-earlier-node", repr(ex.stale)[:160])

    # ---- threads
    if sc.deadlocked:
        add("thread/deadlock", "all unfinished receive threads are blocked on node locks")
    for p in range(n):
        exc = sc.errors[p]
        if exc is not None:
            _, where = innermost_repo_frame(exc)
            add(f"thread/died/{type(exc).__name__}/{where}", f"peer {p}: {type(exc).__name__}: {exc}")
        elif not sc.deadlocked and ex.socks[p].recv_after_drain == 0:
            add("thread/exited-before-reading-all-messages", f"peer {p}")

    # ---- replies: socket p carries exactly p's replies, written by p's own receive thread
    for p in range(n):
        sock = node._peer_sockets.get(p)
        if sock is not ex.socks[p]:
            add("reply/peer-socket-replaced", f"peer {p}")
            sock = ex.socks[p]
        got = b"".join(d for _, d in sock.written)
        foreign = sorted({w for w, _ in sock.written if w != p}, key=str)
        if foreign:
            add("reply/sent-to-wrong-peer", f"socket of peer {p} written while handling a message of peer(s) {foreign}")
        if got == plan.exp_bytes[p]:
            continue
        if foreign:
            continue  # the misdirected bytes explain the difference; one signature for one cause
        want = plan.exp_reply[p]
        try:
            msgs = W.split_stream(got, plan.magic)
        except W.WireError as e:
            add("reply/malformed", f"peer {p}: {e}: {got.hex()[:120]}")
            continue
        if len(msgs) < len(want):
            mis = [c for c, _ in want]
            for c, _ in msgs:
                if c in mis:
                    mis.remove(c)
            add(f"reply/missing-{mis[0].decode() if mis else 'reply'}", f"peer {p}: got {msgs} want {want}")
        elif len(msgs) > len(want):
            add("reply/unexpected-or-duplicated", f"peer {p}: got {msgs} want {want}")
        else:
            k = next(i for i in range(len(want)) if msgs[i] != want[i])
            if msgs[k][0] != want[k][0]:
                if sorted(msgs) == sorted(want):
                    add("reply/out-of-sending-order", f"peer {p}: got {msgs} want {want}")
                else:
                    add(f"reply/wrong-command-for-{'ping' if want[k][0] == b'pong' else 'version'}", f"peer {p}: got {msgs[k]} want {want[k]}")
            elif want[k][0] == b"pong":
                add("reply/pong-nonce-differs-from-ping", f"peer {p}: got {msgs[k][1].hex()} want {want[k][1].hex()}")
            else:
                add("reply/wrong-payload", f"peer {p}: got {msgs[k]} want {want[k]}")

    # ---- stored version payload
    for p in range(n):
        data = node._peer_data.get(p)
        got = data.get(b"version") if isinstance(data, dict) else None
        want = plan.exp_version[p]
        if want is None:
            if got is not None:
                add("version-data/stored-for-peer-that-sent-none", f"peer {p}: {got}")
        elif got != want:
            others = [q for q in range(n) if q != p and plan.exp_version[q] is not None and plan.exp_version[q] == got]
            if got is None:
                add("version-data/not-stored", f"peer {p}")
            elif others:
                add("version-data/misattributed", f"peer {p} holds the version payload of peer {others[0]}")
            else:
                add("version-data/ne-sent-payload", f"peer {p}: {got} want {want}")

    # ---- queue
    q = node._msg_queue
    items = q.snapshot() if isinstance(q, S.ParkDeque) else list(q)
    per = [[] for _ in range(n)]
    for it in items:
        if not (isinstance(it, tuple) and len(it) == 3 and isinstance(it[0], int) and not isinstance(it[0], bool) and 0 <= it[0] < n):
            add("queue/malformed-item", repr(it)[:200])
            continue
        per[it[0]].append((it[1], it[2]))
    for p in range(n):
        want = plan.exp_queue[p]
        got = per[p]
        if got == want:
            continue
        stale = [x for x in got if x[0] in plan.handled_cmds]
        rest = [x for x in got if x[0] not in plan.handled_cmds]
        if stale:
            add("queue/handled-message-left-queued", f"peer {p}: {[c for c, _ in stale]} still queued")
        pool = list(rest)
        missing = [x for x in want if not _take(pool, x)]
        extra = pool
        for x in missing:
            elsewhere = [r for r in range(n) if r != p and x in per[r] and x not in plan.exp_queue[r]]
            if elsewhere:
                add("queue/misattributed", f"message {x[0]} of peer {p} is queued under peer {elsewhere[0]}")
            else:
                add("queue/lost-queued-message", f"peer {p}: {x[0]} not in queue; queue commands: {[(i[0], i[1]) for i in items if isinstance(i, tuple) and len(i) == 3]}")
        for x in extra:
            if x in want:
                add("queue/duplicated", f"peer {p}: {x[0]} queued more than once")
            elif any(x in plan.exp_queue[r] for r in range(n) if r != p):
                pass  # reported as misattributed from the owner's side
            else:
                add("queue/unexpected-item", f"peer {p}: {x}"[:200])
        if not stale and not missing and not extra and rest != want:
            add("queue/per-peer-order", f"peer {p}: got {[c for c, _ in rest]} want {[c for c, _ in want]}")
    return f


# --------------------------------------------------------------------------- running


class _Magic:
    """regtest magic for the duration of a case, and the bits.p2p logger silenced (recv_loop logs ~12 records per
    message at DEBUG, which no handler prints but which cost more than the execution itself); both module-level
    settings are restored afterwards."""

    def __init__(self, p2p, keep_logging=False, net="regtest"):
        self.p2p = p2p
        self.net = net
        self.keep_logging = keep_logging  # a share of the cases runs with the module's own logger level (code behind
        # isEnabledFor / debug-only branches is then executed as it is by default)

    def __enter__(self):
        self.saved = self.p2p.MAGIC_START_BYTES
        self.level = self.p2p.log.level
        self.p2p.set_magic_start_bytes(self.net)
        if not self.keep_logging:
            self.p2p.log.setLevel(logging.CRITICAL + 10)

    def __exit__(self, *exc):
        self.p2p.MAGIC_START_BYTES = self.saved
        self.p2p.log.setLevel(self.level)
        return False


def _norm_peers(peers):
    return [[(str(k), int(s)) for k, s in msgs] for msgs in peers]


def run_one(p2p, plan, schedule, preempt=None, lines=False):
    ex = S.run_node(p2p, plan.wire, schedule, preempt=preempt, lines=lines, stream=plan.stream)
    labels = features(ex.sched.trace, plan.handled)
    fails = judge(plan, ex)
    if fails:
        serial = plan.serial_sigs(p2p)
        fails = [(sig + ("@serial" if sig in serial else "@interleaving-only"), d) for sig, d in fails]
    return ex, labels, fails


def _case_labels(peers):
    out = [f"case:peers-{len(peers)}", "case:msgs-" + "x".join(str(len(m)) for m in peers)]
    for k in sorted({k for m in peers for k, _ in m}):
        out.append("kind:" + k)
    out.append("net:" + _net_of(peers))
    if peers and peers[0] and (int(peers[0][0][1]) >> 20) % 2 == 1:
        out.append("nt:case/byte-stream-delivery")
    else:
        out.append("case/per-message-delivery")
    shared = []
    for m in peers:
        for k, salt in m:
            if k == "unknown" and (salt >> 12) % 9 in (4, 5):
                out.append("nt:case/unknown-command-fills-12-bytes")
            if k == "unknown" and _digit_name(salt) and (salt >> 12) % 9 != 8:
                out.append("nt:case/unknown-command-with-digits")
            if k in ("inv", "addr") and _shared(salt):
                shared.append((k, (salt >> 18) % 2))
            elif k in ("inv", "addr") and (salt >> 8) % (8 * len(ADDR_BIG if k == "addr" else INV_BIG)) < len(ADDR_BIG if k == "addr" else INV_BIG):
                out.append(f"nt:case/{k}-boundary-count")
                if k == "addr" and (salt >> 8) % 32 == 0:
                    out.append("nt:case/addr-1000-entries")
    if len(shared) != len(set(shared)):
        out.append("nt:case/same-inv-or-addr-content-sent-more-than-once")
    return out


def check_schedule(case):
    """One assignment, one schedule (target `sampled`; also the format to replay a single schedule by hand)."""
    p2p = _lib()
    peers = _norm_peers(case["peers"])
    schedule = [int(c) for c in case["schedule"]]
    with _Magic(p2p, keep_logging=bool(case.get("log")), net=_net_of(peers)):
        plan = Plan(p2p, peers)
        if plan.skip:
            return ["skip:library-parse-raises"], []
        ex, labels, fails = run_one(p2p, plan, schedule)
    classes = _case_labels(peers) + labels
    if case.get("log"):
        classes.append("nt:exec/library-logging-at-its-own-level")
    classes.append(f"exec/preemptions-{min(_preemptions(ex.sched.trace), 4)}{'+' if _preemptions(ex.sched.trace) >= 4 else ''}")
    f = Fails()
    seen = set()
    for sig, detail in fails:
        if sig not in seen:
            seen.add(sig)
            f.add(sig, f"{detail} | choices={ex.sched.choices} trace={render(ex.sched.trace)}")
    return classes, f


EARLY_STOP = 1500  # executions of one bucket after which an already-failing bucket is abandoned
BUCKET_CAP = 150000  # executions of one bucket (the pinned tree's largest has a few thousand)


def explore(p2p, plan, prefix, classes, found):
    """Depth-first enumeration of every schedule whose canonical choice sequence starts with `prefix` (padded with 0s
    when the execution is shorter). Returns the number of executions."""
    d = len(prefix)
    sched = list(prefix)
    nexec = 0
    while True:
        ex, labels, fails = run_one(p2p, plan, sched)
        counts, choices = ex.sched.counts, ex.sched.choices
        L = len(counts)
        if nexec == 0:
            # does this bucket exist? (its prefix must be a canonical choice sequence of the tree)
            for i in range(d):
                if (i < L and prefix[i] >= counts[i]) or (i >= L and prefix[i] != 0):
                    return 0
        nexec += 1
        classes.extend(labels)
        if fails:
            pre = _preemptions(ex.sched.trace)
            for sig, detail in fails:
                cur = found.get(sig)
                if cur is None:
                    found[sig] = [1, pre, detail, list(choices), render(ex.sched.trace)]
                else:
                    cur[0] += 1
                    if pre < cur[1]:
                        cur[1:] = [pre, detail, list(choices), render(ex.sched.trace)]
        sched = S.next_schedule(choices, counts, d)
        if sched is None:
            return nexec
        if (found and nexec >= EARLY_STOP) or nexec >= BUCKET_CAP:
            # a tree with (many) more scheduling points than the pinned one: stop this bucket. With failures in hand the
            # verdict is already decided; without, the label makes the lost exhaustiveness visible in the evidence.
            classes.append("exec/bucket-truncated-after-failures" if found else "exec/bucket-truncated-at-cap")
            return nexec


def check_exhaustive(case):
    p2p = _lib()
    peers = _norm_peers(case["peers"])
    prefix = [int(c) for c in case.get("prefix", [])]
    classes = []
    found = {}
    with _Magic(p2p, net=_net_of(peers)):
        plan = Plan(p2p, peers)
        if plan.skip:
            return ["skip:library-parse-raises"], []
        nexec = explore(p2p, plan, prefix, classes, found)
    if nexec == 0:
        return ["case:empty-prefix-bucket"], []
    classes.extend(_case_labels(peers))
    f = Fails()
    for sig in sorted(found):
        cnt, pre, detail, choices, tr = found[sig]
        f.add(sig, f"{cnt}/{nexec} schedules of this bucket; e.g. choices={choices} trace={tr} :: {detail}")
    return classes, f


def check_walks(case):
    """One assignment, `count` schedules whose choices are digits of a hash of (case, k): deterministic sampling of a
    scope too large to enumerate."""
    p2p = _lib()
    peers = _norm_peers(case["peers"])
    classes = []
    found = {}
    with _Magic(p2p, net=_net_of(peers)):
        plan = Plan(p2p, peers)
        if plan.skip:
            return ["skip:library-parse-raises"], []
        distinct = set()
        for k in range(int(case["first"]), int(case["first"]) + int(case["count"])):
            digest = hashlib.blake2b(json.dumps([case["peers"], k]).encode(), digest_size=48).digest()
            sched = [b % 6 for b in digest]
            ex, labels, fails = run_one(p2p, plan, sched)
            classes.extend(labels)
            distinct.add(tuple(ex.sched.choices))
            for sig, detail in fails:
                cur = found.get(sig)
                if cur is None:
                    found[sig] = [1, detail, list(ex.sched.choices), render(ex.sched.trace)]
                else:
                    cur[0] += 1
    classes.extend(_case_labels(peers))
    classes.extend(["exec/distinct-schedule-within-case"] * len(distinct))
    f = Fails()
    for sig in sorted(found):
        cnt, detail, choices, tr = found[sig]
        f.add(sig, f"{cnt}/{case['count']} sampled schedules; e.g. choices={choices} trace={tr} :: {detail}")
    return classes, f


def explore_preempt(p2p, plan, first, depth, classes, found):
    """Line granularity: every schedule in which thread `first` starts and at most `depth` context switches happen before
    a thread has finished (each at any scheduling point - source line of a Node method, queue/membership/socket
    operation - and to any other runnable thread); between switches the running thread keeps running. Returns the
    number of executions."""
    stack = [({0: first}, 1, depth)]
    nexec = 0
    while stack:
        pre, lo, d = stack.pop()
        ex, labels, fails = run_one(p2p, plan, (), preempt=pre, lines=True)
        nexec += 1
        classes.extend(labels)
        classes.append(f"exec/switches-{len(pre) - 1}")
        counts, choices = ex.sched.counts, ex.sched.choices
        for sig, detail in fails:
            cur = found.get(sig)
            if cur is None:
                found[sig] = [1, len(pre), detail, dict(pre), render(ex.sched.trace)[-600:]]
            else:
                cur[0] += 1
                if len(pre) < cur[1]:
                    cur[1:] = [len(pre), detail, dict(pre), render(ex.sched.trace)[-600:]]
        if found and nexec >= EARLY_STOP:
            classes.append("exec/bucket-truncated-after-failures")
            break
        if d > 0:
            for s in range(lo, len(counts)):
                for c in range(counts[s]):
                    if c != choices[s]:
                        nxt = dict(pre)
                        nxt[s] = c
                        stack.append((nxt, s + 1, d - 1))
    return nexec


def check_line_preempt(case):
    p2p = _lib()
    peers = _norm_peers(case["peers"])
    classes, found = [], {}
    with _Magic(p2p, net=_net_of(peers)):
        plan = Plan(p2p, peers)
        if plan.skip:
            return ["skip:library-parse-raises"], []
        nexec = explore_preempt(p2p, plan, int(case["first"]), int(case["depth"]), classes, found)
    classes.extend(_case_labels(peers))
    f = Fails()
    for sig in sorted(found):
        cnt, _, detail, pre, tr = found[sig]
        f.add(sig, f"{cnt}/{nexec} schedules; e.g. first={case['first']} switches(step->choice)={ {k: v for k, v in pre.items() if k} } :: {detail} | ...{tr}")
    return classes, f


def check_line_sampled(case):
    """One assignment, one schedule given by its context switches (line granularity)."""
    p2p = _lib()
    peers = _norm_peers(case["peers"])
    pre = {0: int(case["first"])}
    for s, c in case["switches"]:
        pre[int(s)] = int(c)
    with _Magic(p2p, net=_net_of(peers)):
        plan = Plan(p2p, peers)
        if plan.skip:
            return ["skip:library-parse-raises"], []
        ex, labels, fails = run_one(p2p, plan, (), preempt=pre, lines=True)
    classes = _case_labels(peers) + labels
    n = _preemptions(ex.sched.trace)
    classes.append(f"exec/preemptions-{min(n, 4)}{'+' if n >= 4 else ''}")
    f = Fails()
    seen = set()
    for sig, detail in fails:
        if sig not in seen:
            seen.add(sig)
            f.add(sig, f"{detail} | switches={pre} trace=...{render(ex.sched.trace)[-600:]}")
    return classes, f


# --------------------------------------------------------------------------- case generation


def _concrete(assignment, a_index):
    """Concrete kinds and nonces for an assignment of classes, derived from its index."""
    peers = []
    j = 0
    for p, word in enumerate(assignment):
        msgs = []
        for i, cl in enumerate(word):
            kinds = CLASS_KINDS[cl]
            kind = kinds[(a_index + j) % len(kinds)]
            salt = int.from_bytes(_h("salt", a_index, p, i)[:8], "big")
            msgs.append([kind, salt])
            j += 1
        peers.append(msgs)
    return peers


def _words(alphabet, lo, hi):
    return ["".join(w) for n in range(lo, hi + 1) for w in itertools.product(alphabet, repeat=n)]


def _prefixes(npeers, depth):
    return [list(p) for p in itertools.product(range(npeers), repeat=depth)]


def _balanced(cases):
    # heavy assignments first so that `index % nshards` spreads them over the shards
    return [c for _, _, c in sorted(((-c.pop("_w"), k, c) for k, c in enumerate(cases)), key=lambda x: (x[0], x[1]))]


def exhaustive_cases(tier):
    cases = []
    a = 0
    for words in itertools.product(_words("RSQ", 1, 2), repeat=2):  # 12 x 12 = 144
        w = sum(CLASS_WEIGHT[c] for wd in words for c in wd)
        for pre in _prefixes(2, 3):
            cases.append({"scope": "2x1..2", "classes": "|".join(words), "peers": _concrete(words, a), "prefix": pre, "_w": w})
        a += 1
    for words in itertools.product(_words("RSQ", 1, 1), repeat=3):  # 27
        w = 3 * sum(CLASS_WEIGHT[c] for wd in words for c in wd)
        for pre in _prefixes(3, 2):
            cases.append({"scope": "3x1", "classes": "|".join(words), "peers": _concrete(words, a), "prefix": pre, "_w": w})
        a += 1
    return _balanced(cases)


def exhaustive_2x3_cases(tier):
    cases = []
    a = 1000
    for words in itertools.product(_words("RQ", 3, 3), repeat=2):  # 8 x 8 = 64
        w = sum(CLASS_WEIGHT[c] for wd in words for c in wd)
        for pre in _prefixes(2, 8):
            cases.append({"scope": "2x3", "classes": "|".join(words), "peers": _concrete(words, a), "prefix": pre, "_w": w})
        a += 1
    return _balanced(cases)


def line_cases(tier):
    """Assignments of the exhaustive scope x starting thread; depth = number of context switches enumerated."""
    cases = []
    a = 0
    for words in itertools.product(_words("RSQ", 1, 2), repeat=2):  # 144
        for first in range(2):
            cases.append({"scope": "2x1..2", "classes": "|".join(words), "peers": _concrete(words, a), "first": first, "depth": 1 if tier == "quick" else 2,
                          "_w": sum(CLASS_WEIGHT[c] for wd in words for c in wd)})
        a += 1
    for words in itertools.product(_words("RSQ", 1, 1), repeat=3):  # 27
        for first in range(3):
            cases.append({"scope": "3x1", "classes": "|".join(words), "peers": _concrete(words, a), "first": first, "depth": 1 if tier == "quick" else 2,
                          "_w": 2 * sum(CLASS_WEIGHT[c] for wd in words for c in wd)})
        a += 1
    return _balanced(cases)


@st.composite
def line_sampled_cases(draw):
    n = draw(st.integers(2, 3))
    peers = [draw(st.lists(_MSG, min_size=1, max_size=3)) for _ in range(n)]
    k = draw(st.integers(1, 4))
    switches = sorted({draw(st.integers(1, 60 * n)): draw(st.integers(0, n - 1)) for _ in range(k)}.items())
    return {"peers": peers, "first": draw(st.integers(0, n - 1)), "switches": [list(x) for x in switches]}


def walks_3x2_cases(tier):
    """3 peers x 2 messages: all 729 class assignments, hash-derived schedules (too many to enumerate)."""
    cases = []
    a = 2000
    per, chunks = (100, 1) if tier == "quick" else (343, 4)
    for words in itertools.product(_words("RSQ", 2, 2), repeat=3):  # 9^3 = 729
        peers = _concrete(words, a)
        for c in range(chunks):
            cases.append({"scope": "3x2", "classes": "|".join(words), "peers": peers, "first": c * per, "count": per})
        a += 1
    return cases


_SALTS = st.one_of(st.sampled_from([0, 1, 0xFF, 0x100, 2**32, 2**63, 2**64 - 1]), st.integers(0, 2**64 - 1))
_MSG = st.tuples(st.sampled_from(KINDS), _SALTS).map(list)


@st.composite
def sampled_cases(draw):
    n = draw(st.integers(2, 3))
    peers = [draw(st.lists(_MSG, min_size=1, max_size=3)) for _ in range(n)]
    schedule = draw(st.lists(st.integers(0, 5), max_size=12 * n))
    return {"peers": peers, "schedule": schedule, "log": draw(st.integers(0, 5)) == 0}


def targets(tier):
    ts = [
        Target(
            "exhaustive",
            check_exhaustive,
            enumerate_=exhaustive_cases,
            required=[NT, "exec", "exec/serial", "case:peers-2", "case:peers-3"] + ["kind:" + k for k in KINDS],
            exhaustive=True,
        ),
        Target(
            "sampled",
            check_schedule,
            strategy=lambda tier: sampled_cases(),
            budget={"quick": 4000, "thorough": 50000},
            required=[NT, "nt:exec/library-logging-at-its-own-level", "case:peers-2", "case:peers-3", "nt:case/addr-boundary-count", "nt:case/inv-boundary-count",
                      "nt:case/addr-1000-entries", "nt:case/unknown-command-fills-12-bytes", "nt:case/unknown-command-with-digits", "nt:case/byte-stream-delivery", "case/per-message-delivery", "nt:case/same-inv-or-addr-content-sent-more-than-once", "net:mainnet", "net:testnet", "net:regtest"] + ["kind:" + k for k in KINDS],
        ),
        Target(
            "walks-3x2",
            check_walks,
            enumerate_=walks_3x2_cases,
            required=[NT, "exec", "case:msgs-2x2x2"],
        ),
    ]
    ts.append(
        Target(
            "line-preempt",
            check_line_preempt,
            enumerate_=line_cases,
            required=[NT, "exec", "exec/switches-0", "exec/switches-1", "case:peers-2", "case:peers-3"] + ["kind:" + k for k in KINDS],
            exhaustive=True,
        )
    )
    ts.append(
        Target(
            "line-sampled",
            check_line_sampled,
            strategy=lambda tier: line_sampled_cases(),
            budget={"quick": 4000, "thorough": 60000},
            required=[NT, "case:peers-2", "case:peers-3"],
        )
    )
    if tier == "thorough":
        ts.append(
            Target(
                "exhaustive-2x3",
                check_exhaustive,
                enumerate_=exhaustive_2x3_cases,
                required=[NT, "exec", "case:msgs-3x3"],
                exhaustive=True,
            )
        )
    return ts


def evidence_extra(tier):
    scopes = ["2 peers x 1..2 messages (144 class assignments)", "3 peers x 1 message (27 class assignments)"]
    line = "target line-preempt: the same assignments at source-line granularity, every schedule with <= %d context switches per starting thread. " % (1 if tier == "quick" else 2)
    if tier == "thorough":
        scopes.append("2 peers x 3 messages over classes {handled-with-reply, queued} (64 class assignments)")
    return {
        "exhaustive": True,
        "exhaustive_scope": "every schedule of: " + "; ".join(scopes)
        + ". Executions = class_histogram['<target>/exec']; every execution is a distinct schedule (depth-first enumeration "
        "of the choice tree, buckets partition it). " + line + "Scopes beyond that (targets sampled, walks-3x2, line-sampled) are sampled.",
    }
