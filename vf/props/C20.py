"""C20 — CLI conversion is lossless; precedence: explicit flag > config file (TOML instead of JSON) > default."""
import hashlib
import importlib.util
import io
import itertools
import json

from hypothesis import strategies as st

from vf import gen
from vf.core import Fails, Target, attempt, bx, hx, raised
from vf.env.cli import FAKE_SIG, FAKE_TX, accepted_options, run_cli
from vf.ref import base58 as b58ref
from vf.ref import conv
from vf.ref import ec

PROPERTY = "C20"
LEVEL = "exploration"
RULE = (
    "precedence (complete enumeration, both tiers): for every (subcommand, option) pair of the frozen accept table "
    "(base command + 20 subcommands x log_level/network/input_format/output_format/rpc_*; pairs a subcommand only reads "
    "from file/default run the file-layer part) x command line {not given, given (short and long spelling alternating)} x config.json "
    "{no file, file without the key, file with the key} x config.toml {same} x every injective assignment of the "
    "option's candidate values (the default value included) to the layers that carry one; every case with a file is run "
    "twice, without and with unknown keys (foo, update, load_config, subcommand, in_file, decode, nested table) in the "
    "files. bits.__main__.main() runs in-process, options after the subcommand name; the effective value is observed "
    "through behaviour (log handler level, bech32 HRP / WIF version / xprv-tprv / p2p magic, which reading of stdin "
    "explains the output, shape of the output, kwargs reaching the rpc/send/mine stubs); four pairs whose option has no "
    "behavioural effect are observed on the Config object. Expected value: independent layer rule in vf/ref/conv.py. "
    "Non-trivial: at least two layers (default counted) carry different values. conversion: byte strings 0..64 (empty, "
    "leading zero bytes, all-zero, all-0xff, random) x ordered format pairs through write_bytes/read_bytes and through "
    "`bits -1A -0B` then `bits -1B -0A`, judged by an independent codec; hex digit strings of odd length and bit strings "
    "of length not divisible by 8 with surrounding newlines must read as the left-zero-padded value. Distinct = distinct "
    "canonical case encodings."
)
ASSUMPTIONS = [
    "vf/ref/conv.py (digit-by-digit codec and layer rule, self-checked on hand vectors) is correct",
    "options are passed after the subcommand name (argparse copies subparser defaults over earlier ones; out of scope)",
    "a config.toml that exists but lacks the key yields the built-in default, not config.json's value (README: TOML 'will be used instead')",
    "rpc_* unset is compared modulo falsiness (argparse leaves None, the built-in default is '')",
    "testnet and regtest are one observation class for wif and mnemonic --to-master-key (same version bytes)",
    "network/external effects are replaced by recording stubs (rpc_method, send_tx, mine_block, p2p.Node, getpass, keys.key, sig)",
]


def _fixtures_selfcheck():
    """the public constants the observers rely on are what they claim to be"""
    h = hashlib.sha256(hashlib.sha256(GENESIS_BLOCK[:80]).digest()).digest()[::-1].hex()
    assert h == "000000000019d6689c085ae165831e934ff763ae46a2a6c172b3f1b60a8ce26f", h
    t = hashlib.sha256(hashlib.sha256(GENESIS_TX).digest()).digest()
    assert t == GENESIS_BLOCK[36:68] and len(GENESIS_BLOCK) == 285
    # BIP173 example: witness program 751e76e8199196d454941c45d1b3a323f1433bd6 behind the version character
    assert _bech32_data(b"bc1" + b"w508d6qejxtdg4y5r3zarvary0c5xw7k" + b"v8f3t4") == bytes.fromhex("751e76e8199196d454941c45d1b3a323f1433bd6")
    assert classify_shape(b"\x01\x10\xab", 3, 3) == "raw" and classify_shape(b"0110ab\n", 3, 3) == "hex"
    assert classify_shape(b"000000010001000010101011\n", 3, 3) == "bin" and classify_shape(b"0110ab", 4, 4) == "unrecognised"


SELFCHECKS = [conv.selfcheck, b58ref.selfcheck, _fixtures_selfcheck]

TOML_OK = importlib.util.find_spec("tomllib") is not None

OPTIONS = (
    "log_level",
    "network",
    "input_format",
    "output_format",
    "rpc_url",
    "rpc_user",
    "rpc_password",
    "rpc_datadir",
)
DEFAULT = {
    "log_level": "error",
    "network": "mainnet",
    "input_format": "hex",
    "output_format": "hex",
    "rpc_url": "",
    "rpc_user": "",
    "rpc_password": "",
    "rpc_datadir": "",
}
CANDIDATES = {
    "log_level": ["debug", "info", "warning", "error"],
    "network": ["testnet", "regtest", "mainnet"],
    "input_format": ["raw", "bin", "hex"],
    "output_format": ["raw", "bin", "hex"],
    # free-form values are case-sensitive and may contain spaces: two candidates differ by letter case only
    "rpc_url": ["http://node-a.example:8332/wallet/main", "http://node-a.example:8332/wallet/Main", "http://node-c.example:18443", ""],
    "rpc_user": ["alice", "Alice", "carol b", ""],
    "rpc_password": ["pw-one", "PW-One", "pw three", ""],
    "rpc_datadir": ["/var/lib/btc-a", "/var/lib/BTC-a", "/var/lib/btc c", ""],
}
FLAGS = {
    "log_level": ("-L", "--log-level"),
    "network": ("-N", "--network"),
    "input_format": ("-1", "--input-format"),
    "output_format": ("-0", "--output-format"),
    "rpc_url": ("-rpc-url", "--rpc-url"),
    "rpc_user": ("-rpc-user", "--rpc-user"),
    "rpc_password": ("-rpc-password", "--rpc-password"),
    "rpc_datadir": ("-rpc-datadir", "--rpc-datadir"),
}
_RPC = ("rpc_url", "rpc_user", "rpc_password", "rpc_datadir")

# ---------------------------------------------------------------- frozen accept table (pinned tree 499bf74)
# subcommand ("" = base command) -> options its (sub)parser accepts on the command line
_L, _N, _I, _O = "log_level", "network", "input_format", "output_format"
CLI_ACCEPT = {
    "": (_L, _I, _O),
    "key": (_L, _O),
    "pubkey": (_L, _I, _O),
    "wif": (_L, _N, _I),
    "addr": (_L, _N, _I),
    "mnemonic": (_L, _N, _I, _O),
    "hd": (_L,),
    "script": (_L,),
    "sig": (_L, _I, _O),
    "ripemd160": (_L, _I, _O),
    "sha256": (_L, _I, _O),
    "hash160": (_L, _I, _O),
    "hash256": (_L, _I, _O),
    "base58": (_L, _I),
    "bech32": (_L, _I, _O),
    "tx": (_L, _I, _O),
    "send": (_L, _O),
    "p2p": (_L, _N),
    "blockchain": (_L, _N, _I, _O),
    "mine": (_L,),
    "rpc": (_L, _N) + _RPC,
}
# options a subcommand reads from the configuration although its parser has no flag for it (file-layer part only)
FILE_ONLY = {
    "script": (_O,),
    "base58": (_O,),
    "send": _RPC,
    "mine": _RPC,
}
# accepted pairs whose option has no effect on the subcommand's behaviour on the pinned tree: observed on the Config object
CONFIG_ATTR_ONLY = {("blockchain", _N), ("rpc", _N), ("bech32", _O), ("tx", _O)}
PEM_SUBS = ("key", "pubkey")


def candidates(sub, opt):
    c = list(CANDIDATES[opt])
    if opt == _O and sub in PEM_SUBS:
        c = c + ["pem"]
    return c


# ---------------------------------------------------------------- fixed inputs (public vectors / arbitrary constants)
G33 = bytes.fromhex("0279be667ef9dcbbac55a06295ce870b07029bfcdb2dce28d959f2815b16f81798")
KEY32 = bytes(range(1, 33))
H20 = bytes.fromhex("8f112233445566778899aabbccddeeff01020304")
B3 = bytes.fromhex("0110ab")
ENT16 = b"\x7f" * 16
MNEMONIC = b"legal winner thank year wave sausage worth useful legal winner thank yellow"
XPRV = b"xprv9s21ZrQH143K3QTDL4LXw2F7HEK3wJUD2nW2nRk4stbPy6cq3jPPqjiChkVvvNKmPGJxWUtg6LnF5kejMRNNU3TGtRBeJgk33yuGBxrMPHi"
GENESIS_TX = bytes.fromhex(
    "01000000010000000000000000000000000000000000000000000000000000000000000000ffffffff4d04ffff001d0104455468652054"
    "696d65732030332f4a616e2f32303039204368616e63656c6c6f72206f6e206272696e6b206f66207365636f6e64206261696c6f757420"
    "666f722062616e6b73ffffffff0100f2052a01000000434104678afdb0fe5548271967f1a67130b7105cd6a828e03909a67962e0ea1f61"
    "deb649f6bc3f4cef38c4f35504e51ec112de5c384df7ba0b8d578a4c702b6bf11d5fac00000000"
)
GENESIS_BLOCK = (
    bytes.fromhex(
        "0100000000000000000000000000000000000000000000000000000000000000000000003ba3edfd7a7b12b27ac72c3e67768f617fc81bc3"
        "888a51323a9fb8aa4b1e5e4a29ab5f49ffff001d1dac2b7c01"
    )
    + GENESIS_TX
)
MAGIC = {bytes.fromhex("f9beb4d9"): "mainnet", bytes.fromhex("0b110907"): "testnet", bytes.fromhex("fabfb5da"): "regtest"}
HRP = {b"bc": "mainnet", b"tb": "testnet", b"bcrt": "regtest"}
BECH32_CHARS = b"qpzry9x8gf2tvdw0s3jn54khce6mua7l"
HEXH = lambda b: conv.render(b, "hex")  # noqa: E731

# argv that makes each subcommand run offline (for log_level, which main() applies before dispatch) + its stdin
RUNNABLE = {
    "": ([], b"00\n"),
    "key": (["key"], b""),
    "pubkey": (["pubkey", "-X"], HEXH(G33)),
    "wif": (["wif"], HEXH(KEY32)),
    "addr": (["addr"], HEXH(H20)),
    "mnemonic": (["mnemonic", "--from-entropy"], HEXH(ENT16)),
    "hd": (["hd", "m"], XPRV),
    "script": (["script", "OP_DUP"], b""),
    "sig": (["sig", "aabb"], HEXH(KEY32)),
    "ripemd160": (["ripemd160"], b"00\n"),
    "sha256": (["sha256"], b"00\n"),
    "hash160": (["hash160"], b"00\n"),
    "hash256": (["hash256"], b"00\n"),
    "base58": (["base58"], b"616263\n"),
    "bech32": (["bech32", "--hrp", "xx"], HEXH(H20)),
    "tx": (["tx", "--decode"], HEXH(GENESIS_TX)),
    "send": (["send", "a", "b"], b""),
    "p2p": (["p2p"], b""),
    "blockchain": (["blockchain", "0", "-H"], b""),
    "mine": (["mine", "--recv-addr", "abc", "--limit", "1"], b""),
    "rpc": (["rpc", "getblockcount"], b""),
}


# ---------------------------------------------------------------- observers: what value was in effect?


def _strip_nl(b):
    return b.rstrip(b"\r\n")


def classify_shape(out, lo, hi):
    """Which of raw/hex/bin/pem renders a payload of lo..hi bytes as `out`?  Decided by length and alphabet only."""
    if out.startswith(b"-----BEGIN "):
        return "pem"
    hits = []
    if lo <= len(out) <= hi:
        hits.append("raw")
    body = _strip_nl(out)
    if body and len(body) % 2 == 0 and lo <= len(body) // 2 <= hi and all(c in b"0123456789abcdefABCDEF" for c in body):
        hits.append("hex")
    if body and len(body) % 8 == 0 and lo <= len(body) // 8 <= hi and all(c in b"01" for c in body):
        hits.append("bin")
    if len(hits) == 1:
        return hits[0]
    return "unrecognised"


def _b58c(out):
    return b58ref.check_decode(_strip_nl(out))


def _bech32_data(out):
    """data part of a bech32 string regrouped to bytes (checksum not needed to see which bytes were encoded)"""
    s = _strip_nl(out)
    if b"1" not in s:
        return None
    body = s[s.rindex(b"1") + 1 : -6]
    acc = bits_ = 0
    res = bytearray()
    for ch in body:
        v = BECH32_CHARS.find(bytes([ch]))
        if v < 0:
            return None
        acc = (acc << 5) | v
        bits_ += 5
        while bits_ >= 8:
            bits_ -= 8
            res.append((acc >> bits_) & 0xFF)
    return bytes(res)


def _sha256d(b):
    return hashlib.sha256(hashlib.sha256(b).digest()).digest()


def _m_hexout(res, data):
    return res.ok and _strip_nl(res.stdout).lower() == data.hex().encode()


def _m_hash(name):
    def h(b):
        if name == "sha256":
            return hashlib.sha256(b).digest()
        if name == "hash256":
            return _sha256d(b)
        if name == "ripemd160":
            return hashlib.new("ripemd160", b).digest()
        return hashlib.new("ripemd160", hashlib.sha256(b).digest()).digest()

    return lambda res, data: res.ok and _strip_nl(res.stdout).lower() == h(data).hex().encode()


def _m_wif(res, data):
    d = _b58c(res.stdout)
    return res.ok and d is not None and d[1:33] == data and len(data) == 32


def _m_addr(res, data):
    d = _b58c(res.stdout)
    return res.ok and d is not None and d[1:] == data


def _m_mnemonic(res, data):
    return res.ok and data == ENT16 and res.stdout.strip() == MNEMONIC


def _m_sig(res, data):
    calls = res.calls.get("sig")
    return bool(calls) and len(calls[0][0]) >= 1 and calls[0][0][0] == data


def _m_base58(res, data):
    return res.ok and b58ref.decode(_strip_nl(res.stdout)) == data and len(data) > 0


def _m_bech32(res, data):
    return res.ok and _bech32_data(res.stdout) == data


def _m_tx(res, data):
    if not res.ok:
        return False
    try:
        txid = json.loads(res.stdout.decode())["txid"]
    except Exception:  # noqa: BLE001
        return False
    h = _sha256d(data)
    return txid in (h.hex(), h[::-1].hex())


# input_format: (fixed argv, payload, matcher "does the output show that `data` was read?")
IN_SCEN = {
    "": (["-0x"], B3, _m_hexout),
    "blockchain": (["blockchain", "-0x"], GENESIS_BLOCK, _m_hexout),
    "pubkey": (["pubkey", "-X", "-0x"], G33, _m_hexout),
    "wif": (["wif"], KEY32, _m_wif),
    "addr": (["addr"], H20, _m_addr),
    "mnemonic": (["mnemonic", "--from-entropy"], ENT16, _m_mnemonic),
    "sig": (["sig", "aabb"], KEY32, _m_sig),
    "ripemd160": (["ripemd160", "-0x"], B3, _m_hash("ripemd160")),
    "sha256": (["sha256", "-0x"], B3, _m_hash("sha256")),
    "hash160": (["hash160", "-0x"], B3, _m_hash("hash160")),
    "hash256": (["hash256", "-0x"], B3, _m_hash("hash256")),
    "base58": (["base58"], H20, _m_base58),
    "bech32": (["bech32", "--hrp", "xx"], H20, _m_bech32),
    "tx": (["tx", "--decode"], GENESIS_TX, _m_tx),
}
# output_format: (fixed argv, stdin, payload length lo, hi)
OUT_SCEN = {
    "": (["-1x"], b"0110ab\n", 3, 3),
    "key": (["key"], b"", 32, 32),
    "pubkey": (["pubkey", "-X"], HEXH(G33), 33, 33),
    "mnemonic": (["mnemonic", "--to-entropy"], MNEMONIC + b"\n", 16, 16),
    "sig": (["sig", "aabb"], HEXH(KEY32), None, None),
    "ripemd160": (["ripemd160"], b"00\n", 20, 20),
    "sha256": (["sha256"], b"00\n", 32, 32),
    "hash160": (["hash160"], b"00\n", 20, 20),
    "hash256": (["hash256"], b"00\n", 32, 32),
    "send": (["send", "a", "b"], b"", len(FAKE_TX), len(FAKE_TX)),
    "blockchain": (["blockchain", "0", "-H"], b"", 80, 80),
    "script": (["script", "OP_DUP"], b"", 1, 1),
    "base58": (["base58", "--decode"], b"ZiCa", 3, 3),
}
NET_SCEN = {
    "addr": (["addr", "--witness-version", "0"], HEXH(H20)),
    "wif": (["wif"], HEXH(KEY32)),
    "mnemonic": (["mnemonic", "--to-master-key"], MNEMONIC + b"\n"),
    "p2p": (["p2p"], b""),
}
RPC_STUB = {"rpc": "rpc_method", "send": "send_tx", "mine": "mine_block"}


# Further ways to run a subcommand in which another branch of main() consults the option (variant 0 is the table above).
def _m_base58check(res, data):
    return res.ok and _b58c(res.stdout) == data and len(data) > 0


def _m_pub_of_priv(res, data):
    if not (res.ok and len(data) == 32 and 0 < int.from_bytes(data, "big") < ec.N):
        return False
    x, y = ec.mul(int.from_bytes(data, "big"), ec.G)
    return _strip_nl(res.stdout).lower() == (bytes([2 + (y & 1)]) + x.to_bytes(32, "big")).hex().encode()


def _m_sigverify(res, data):
    calls = res.calls.get("sig_verify")
    return bool(calls) and len(calls[0][0]) >= 2 and calls[0][0][1] == data


def _m_bech32_v1(res, data):
    s = _strip_nl(res.stdout)
    if not res.ok or b"1" not in s:
        return False
    i = s.rindex(b"1")
    return s[i + 1 : i + 2] == b"p" and _bech32_data(s[: i + 1] + s[i + 2 :]) == data


B58CHECK_ABC = b58ref.check_encode(b"abc")
IN_VARIANTS = {
    "base58": [("--check", ["base58", "--check"], H20, _m_base58check)],
    "pubkey": [("private-key-input", ["pubkey", "-X", "-0x"], KEY32, _m_pub_of_priv)],
    "sig": [("--verify", ["sig", "--verify", "--signature", "3006020101020101", "aabb"], G33, _m_sigverify)],
    "bech32": [("--witness-version", ["bech32", "--hrp", "xx", "--witness-version", "1"], H20, _m_bech32_v1)],
}
OUT_VARIANTS = {
    "mnemonic": [("--to-seed", ["mnemonic", "--to-seed"], MNEMONIC + b"\n", 64, 64)],
    "base58": [("--decode --check", ["base58", "--decode", "--check"], B58CHECK_ABC, 3, 3)],
    "pubkey": [("private-key-input", ["pubkey", "-X"], HEXH(KEY32), 33, 33)],
}
NET_VARIANTS = {
    "addr": [("base58-address", ["addr"], HEXH(H20))],
}


def variants(sub, opt):
    """labels of the ways (sub, opt) is exercised; index 0 (None) is the main scenario"""
    tab = {_I: IN_VARIANTS, _O: OUT_VARIANTS, _N: NET_VARIANTS}.get(opt, {})
    return [None] + [v[0] for v in tab.get(sub, [])]


def _coarse_net(v):
    return "mainnet" if v == "mainnet" else "testnet|regtest"


class Scenario:
    """How to run `sub` so that the effective value of `opt` shows, and how to read it off the result."""

    def __init__(self, sub, opt, variant=None):
        self.sub, self.opt, self.variant = sub, opt, variant
        self.kind = None
        self.cls = lambda v: v
        if variant is not None:
            tab = {_I: IN_VARIANTS, _O: OUT_VARIANTS, _N: NET_VARIANTS}[opt]
            row = next(v for v in tab[sub] if v[0] == variant)
            if opt == _I:
                self.kind = "stdin-reading"
                _, self.argv, self.payload, self.match = row
            elif opt == _O:
                self.kind = "output-shape"
                _, self.argv, self._stdin, self.lo, self.hi = row
            else:
                self.kind = "network-encoding"
                _, self.argv, self._stdin = row
                self.cls = _coarse_net
            return
        if (sub, opt) in CONFIG_ATTR_ONLY:
            self.kind = "config-attr"
            self.argv, self._stdin = RUNNABLE[sub]
        elif opt == _L:
            self.kind = "handler-level"
            self.argv, self._stdin = RUNNABLE[sub]
        elif opt == _N:
            self.kind = "network-encoding"
            self.argv, self._stdin = NET_SCEN[sub]
            if sub in ("wif", "mnemonic"):
                self.cls = _coarse_net
        elif opt == _I:
            self.kind = "stdin-reading"
            self.argv, self.payload, self.match = IN_SCEN[sub]
        elif opt == _O:
            self.kind = "output-shape"
            self.argv, self._stdin, self.lo, self.hi = OUT_SCEN[sub]
        elif opt in _RPC:
            self.kind = "stub-kwargs"
            self.argv, self._stdin = RUNNABLE[sub]
            self.cls = lambda v: v or ""
        else:
            raise KeyError((sub, opt))

    def stdin(self, expected):
        if self.kind == "stdin-reading":
            return conv.render(self.payload, expected)
        return self._stdin

    def observe(self, res, expected, stdin):
        """-> string naming the value (class) that was in effect, or a description of why none can be read"""
        sub, opt, k = self.sub, self.opt, self.kind
        if k == "config-attr":
            if res.config_attrs is None or opt not in res.config_attrs:
                return None  # not observable on this tree
            return str(res.config_attrs[opt])
        if k == "handler-level":
            return res.log_level
        if k == "stub-kwargs":
            calls = res.calls.get(RPC_STUB[sub])
            if not calls or opt not in calls[0][1]:
                return "no-call"
            return calls[0][1][opt] or ""
        if k == "network-encoding":
            if sub == "p2p":
                return MAGIC.get(res.magic, "unrecognised")
            if not res.ok:
                return "no-output"
            if sub == "addr" and self.variant == "base58-address":
                d = _b58c(res.stdout)
                if d is None:
                    return "unrecognised"
                return {0x00: "mainnet", 0x6F: "testnet|regtest"}.get(d[0], "unrecognised")
            if sub == "addr":
                return HRP.get(res.stdout.split(b"1")[0], "unrecognised")
            if sub == "wif":
                d = _b58c(res.stdout)
                if d is None:
                    return "unrecognised"
                return {0x80: "mainnet", 0xEF: "testnet|regtest"}.get(d[0], "unrecognised")
            if sub == "mnemonic":
                return {b"xprv": "mainnet", b"tprv": "testnet|regtest"}.get(res.stdout[:4], "unrecognised")
        if k == "output-shape":
            if not res.ok:
                return "no-output"
            lo, hi = self.lo, self.hi
            if lo is None:  # sig: stubbed signature has a known length, a real DER signature + sighash byte 68..74
                lo, hi = (len(FAKE_SIG), len(FAKE_SIG)) if res.calls.get("sig") else (68, 74)
            return classify_shape(res.stdout, lo, hi)
        if k == "stdin-reading":
            for fmt in [expected] + [f for f in conv.FORMATS if f != expected]:
                data = conv.read(stdin, fmt)
                if data is not None and self.match(res, data):
                    return fmt
            return "no-output" if not res.ok else "unrecognised"
        raise AssertionError(k)


# ---------------------------------------------------------------- config files and command-line forms

UNKNOWN_KEYS = [
    ("foo", "bar"),
    ("answer", 42),
    ("update", "x"),
    ("load_config", "y"),
    ("subcommand", "key"),
    ("in_file", "/nonexistent/in"),
    ("config_dir", "/nonexistent/dir"),
    ("decode", True),
    ("print", True),
]


def _toml_val(v):
    if isinstance(v, bool):
        return "true" if v else "false"
    if isinstance(v, int):
        return str(v)
    return json.dumps(v)  # ASCII JSON string == TOML basic string


def build_files(case, unknown):
    """{"config.json": bytes, "config.toml": bytes} for the case's file layers"""
    opt = case["opt"]
    nested_v = candidates(case["sub"], opt)[0]
    files = {}
    for name in ("json", "toml"):
        spec = case[name]
        if spec is None:
            continue
        top = []
        if spec[0] == "v":
            top.append((opt, spec[1]))
        nested = None
        if unknown:
            top = UNKNOWN_KEYS[:4] + top + UNKNOWN_KEYS[4:]
            nested = [(opt, nested_v), ("note", "nested tables are not options")]
        if name == "json":
            d = dict(top)
            if nested:
                d["extra"] = dict(nested)
            files["config.json"] = json.dumps(d, indent=1).encode()
        else:
            lines = [f"{k} = {_toml_val(v)}" for k, v in top]
            if nested:
                lines.append("[extra]")
                lines += [f"{k} = {_toml_val(v)}" for k, v in nested]
            files["config.toml"] = ("\n".join(lines) + "\n").encode()
    return files


def cli_flags(opt, value, form):
    short, long_ = FLAGS[opt]
    if opt in (_I, _O):
        if form == "short":
            return [short + {"raw": "", "hex": "x", "bin": "b", "pem": "pem"}[value]]
        return [long_, value]
    return [short if form == "short" else long_, value]


# ---------------------------------------------------------------- precedence target


def _layer(spec):
    return None if spec is None else tuple(spec)


def layer_classes(case, exp, layer):
    opt = case["opt"]
    default = DEFAULT[opt]
    cli, js, tm = case["cli"], case["json"], case["toml"]
    jv = js[1] if js and js[0] == "v" else None
    tv = tm[1] if tm and tm[0] == "v" else None
    cls = [f"expect:{layer}", f"opt:{opt}", f"sub:{case['sub'] or 'base'}"]
    filevals = [v for v in (jv, tv) if v is not None]
    if cli is not None:
        cls.append("cli:" + case["form"])
        if any(v != cli for v in filevals):
            cls.append("nt:cli-over-file")
        if cli != default:
            cls.append("nt:cli-over-default")
        elif any(v != cli for v in filevals):
            cls.append("nt:explicit-default-value-over-file")
    else:
        if tm is not None and TOML_OK:
            if tv is not None:
                if jv is not None:
                    cls.append("nt:toml-over-json")
                if tv != default:
                    cls.append("nt:file-over-default")
            elif jv is not None and jv != default:
                cls.append("nt:toml-without-key-shadows-json")
        elif jv is not None and jv != default:
            cls.append("nt:file-over-default")
    if js is not None and js[0] == "no-key":
        cls.append("json:file-without-key")
    if tm is not None and tm[0] == "no-key":
        cls.append("toml:file-without-key")
    if not any(c.startswith("nt:") for c in cls):
        cls.append("single-value")
    return cls


def check_precedence(case):
    sub, opt = case["sub"], case["opt"]
    f = Fails()
    scen = Scenario(sub, opt, case.get("variant"))
    exp, layer = conv.effective(DEFAULT[opt], case["cli"], _layer(case["toml"]), _layer(case["json"]), TOML_OK)
    cls = layer_classes(case, exp, layer)
    cls.append("obs:" + scen.kind)
    name = sub or "base"
    if case.get("variant"):
        name += "[" + case["variant"] + "]"
        cls.append("nt:variant/" + name)
    argv = list(scen.argv)
    if case["cli"] is not None and case.get("pos") == "before":
        # long spelling only: the bare short form for raw (`-0`) would swallow the subcommand name as its value
        argv = cli_flags(opt, case["cli"], "long") + argv
        cls.append("nt:flag-before-subcommand")
    elif case["cli"] is not None:
        argv += cli_flags(opt, case["cli"], case["form"])
    stdin = scen.stdin(exp)
    want = scen.cls(exp)
    has_file = case["json"] is not None or case["toml"] is not None

    def which_layer(obs):
        """which layer's value is the observed one (the built-in default wins ties: it needs no explanation)"""
        if scen.cls(DEFAULT[opt]) == obs:
            return "default"
        present = [("cli", case["cli"])]
        for nm in ("toml", "json"):
            spec = case[nm]
            present.append((nm, spec[1] if spec and spec[0] == "v" else None))
        for nm, v in present:
            if v is not None and scen.cls(v) == obs:
                return nm
        return "other"  # a value of no layer, or no readable output at all (the detail says which)

    def clause(got):
        if layer == "cli":
            return "explicit-flag-not-in-effect"
        if got == "json" and layer in ("toml", "default"):
            return "json-used-despite-toml"
        if layer in ("toml", "json"):
            return "config-file-not-in-effect"
        return "default-not-in-effect"

    # a second option given explicitly with its own default value: by the property itself that changes nothing, for
    # that option or for this one (options are independent)
    other = next((o for o in (_L, _N, _I, _O) if o != opt and o in CLI_ACCEPT.get(sub, ())), None)
    if other is not None:
        argv2 = argv + cli_flags(other, DEFAULT[other], "long")
        res = run_cli(argv2, stdin, build_files(case, False))
        if res.exc is not None:
            raise res.exc
        obs = scen.observe(res, exp, stdin)
        if obs is not None:
            cls.append("nt:other-option-explicit")
            if obs != want:
                f.add(
                    f"precedence/{name}/{opt}/{clause(which_layer(obs))}/with-another-option-explicit",
                    f"argv={argv2} files={ {k: v.decode() for k, v in build_files(case, False).items()} } "
                    f"effective={obs!r} (layer: {which_layer(obs)}) expected={want!r} (layer: {layer}) :: {res.brief()}",
                )

    # ... and every other option the subcommand takes given explicitly at once (free-form ones with a non-empty value)
    others = [o for o in CLI_ACCEPT.get(sub, ()) if o != opt]
    if len(others) >= 2:
        argv3 = list(argv)
        for o in others:
            argv3 += cli_flags(o, DEFAULT[o] if o in (_L, _N, _I, _O) else CANDIDATES[o][0], "long")
        res = run_cli(argv3, stdin, build_files(case, False))
        if res.exc is not None:
            raise res.exc
        obs = scen.observe(res, exp, stdin)
        if obs is not None:
            cls.append("nt:all-other-options-explicit")
            if obs != want:
                f.add(
                    f"precedence/{name}/{opt}/{clause(which_layer(obs))}/with-all-other-options-explicit",
                    f"argv={argv3} files={ {k: v.decode() for k, v in build_files(case, False).items()} } "
                    f"effective={obs!r} (layer: {which_layer(obs)}) expected={want!r} (layer: {layer}) :: {res.brief()}",
                )

    clean_ok = None
    for unknown in (False, True) if has_file else (False,):
        res = run_cli(argv, stdin, build_files(case, unknown))
        if res.exc is not None:
            # an exception escaping main() that is not SystemExit: re-raise so the runner attributes it (lib vs harness)
            raise res.exc
        obs = scen.observe(res, exp, stdin)
        if obs is None:
            cls.append("unobservable")
            break
        good = obs == want
        if not unknown:
            clean_ok = good
            if not good:
                if case["cli"] is not None and res.exit not in (None, 0):
                    f.add(f"accept/{name}/{opt}/not-accepted-on-command-line", f"argv={argv} {res.brief()}")
                else:
                    f.add(
                        f"precedence/{name}/{opt}/{clause(which_layer(obs))}",
                        f"argv={argv} files={ {k: v.decode() for k, v in build_files(case, False).items()} } "
                        f"effective={obs!r} (layer: {which_layer(obs)}) expected={want!r} (layer: {layer}) :: {res.brief()}",
                    )
        else:
            cls.append("nt:unknown-keys")
            if clean_ok and not good:
                f.add(
                    f"unknown-keys/{name}/{opt}/effective-value-changes",
                    f"argv={argv} effective={obs!r} expected={want!r} once unknown keys are added to the files :: {res.brief()}",
                )
    return cls, f


def _pairs():
    out = []
    for sub, opts in CLI_ACCEPT.items():
        for opt in opts:
            out.append((sub, opt, True))
    for sub, opts in FILE_ONLY.items():
        for opt in opts:
            # the subcommand has no flag of its own for this option; where the base parser has one, it can still be given
            # explicitly BEFORE the subcommand name (`bits -0b script ...`) and is then the value in effect
            out.append((sub, opt, "before" if opt in CLI_ACCEPT[""] else False))
    return out


FILE_STATES = ("no-file", "no-key", "v")


def enumerate_precedence(tier):
    for sub, opt, on_cli, variant in [(s_, o_, c_, v_) for s_, o_, c_ in _pairs() for v_ in variants(s_, o_)]:
        cands = candidates(sub, opt)
        n_cli = 0
        for given in (False, True) if on_cli else (False,):
            for js in FILE_STATES:
                for tm in FILE_STATES:
                    n_cli += 1  # shift the short/long alternation between layer combinations
                    slots = [s for s, on in (("cli", given), ("json", js == "v"), ("toml", tm == "v")) if on]
                    for vals in itertools.permutations(cands, len(slots)):
                        a = dict(zip(slots, vals))
                        form = None
                        if given:
                            # both spellings of the flag are exercised on every pair, alternating over the enumeration
                            form = ("short", "long")[n_cli % 2]
                            n_cli += 1
                        yield {
                            "sub": sub,
                            "opt": opt,
                            **({"variant": variant} if variant else {}),
                            **({"pos": "before"} if given and on_cli == "before" else {}),
                            "cli": a.get("cli"),
                            "form": form,
                            "json": None if js == "no-file" else (["v", a["json"]] if js == "v" else ["no-key"]),
                            "toml": None if tm == "no-file" else (["v", a["toml"]] if tm == "v" else ["no-key"]),
                        }


# ---------------------------------------------------------------- accept table target


def _introspect():
    table, detail = accepted_options(set(OPTIONS))
    return table, detail


def check_accept(case):
    f = Fails()
    table, _ = _introspect()
    sub, opt = case["sub"], case["opt"]
    ok = sub in table and opt in table[sub]
    f.expect(ok, f"accept/{sub or 'base'}/{opt}/not-accepted-on-command-line", f"setup_parser() declares {sorted(table.get(sub, []))} for {sub!r}")
    return ["nt:frozen-pair"], f


def enumerate_accept(tier):
    for sub, opt, on_cli in _pairs():
        if on_cli is True:
            yield {"sub": sub, "opt": opt}


def evidence_extra(tier):
    table, detail = _introspect()
    new = sorted(
        f"{s or 'base'}/{o}" for s, opts in table.items() for o in opts if o not in CLI_ACCEPT.get(s, ())
    )
    return {
        "accept_table_pairs": sum(len(v) for v in CLI_ACCEPT.values()),
        "file_only_pairs": sum(len(v) for v in FILE_ONLY.values()),
        "unchecked_new_pairs": new,
        "observed_on_config_object_only": sorted(f"{s}/{o}" for s, o in CONFIG_ATTR_ONLY),
        "toml_supported": TOML_OK,
        "conversion_is_sampled": "the conversion target is generated (not exhaustive); precedence and accept-table are complete enumerations",
    }


# ---------------------------------------------------------------- conversion target


def _wrap(b=b""):
    return io.TextIOWrapper(io.BytesIO(b), encoding="utf-8")


def lib_write(data, fmt):
    import bits

    w = _wrap()
    bits.write_bytes(data, w, output_format=fmt)
    w.flush()
    out = w.buffer.getvalue()
    w.detach()
    return out


def lib_read(stream, fmt):
    import bits

    return bits.read_bytes(_wrap(stream), input_format=fmt)


_SHORT = {"raw": "", "hex": "x", "bin": "b"}


def cli_convert(stream, a, b):
    return run_cli(["-1" + _SHORT[a], "-0" + _SHORT[b]], stream)


def check_conversion(case):
    if case["mode"] == "text":
        return check_text(case)
    x = bx(case["data"])
    a, b = case["a"], case["b"]
    f = Fails()
    cls = [f"pair:{a}>{b}"]
    if not x:
        ic = "empty"
        cls.append("nt:empty")
    elif x[0] == 0:
        ic = "leading-zero"
        cls.append("nt:leading-zero-byte")
    else:
        ic = "plain"
    if x and set(x) == {0xFF}:
        cls.append("nt:all-ff")
    if x and set(x) == {0}:
        cls.append("nt:all-zero")
    if len(x) == 64:
        cls.append("nt:len-64")
    if case.get("kind") == "looks-like-prefix":
        cls.append("nt:digits-look-like-a-prefix")
    if len(cls) == 1:
        cls.append("plain")
    # direct: every format's writer must emit a representation of x and the reader must invert it
    direct_ok = {}
    for fmt in conv.FORMATS:
        ok = True
        w = attempt(lib_write, x, fmt)
        if raised(w) or conv.read(w, fmt) != x:
            f.add(f"conversion/{ic}/write-{fmt}", f"write_bytes({len(x)} bytes, {fmt}) -> {w!r}; decodes to {None if raised(w) else conv.read(w, fmt)!r}")
            ok = False
        else:
            r = attempt(lib_read, w, fmt)
            if raised(r) or r != x:
                f.add(f"conversion/{ic}/read-{fmt}", f"read_bytes({w!r}, {fmt}) -> {r!r}, written from {x.hex()!r}")
                ok = False
        canon = conv.render(x, fmt)
        r = attempt(lib_read, canon, fmt)
        if raised(r) or r != x:
            f.add(f"conversion/{ic}/read-{fmt}", f"read_bytes({canon!r}, {fmt}) -> {r!r} want {x.hex()!r}")
            ok = False
        direct_ok[fmt] = ok
    # through the command line: A -> B -> A
    if direct_ok[a] and direct_ok[b]:
        r1 = cli_convert(conv.render(x, a), a, b)
        if r1.exc is not None:
            raise r1.exc
        mid = r1.stdout
        if f.expect(r1.ok and conv.read(mid, b) == x, f"conversion/{ic}/cli-{a}-to-{b}", f"x={x.hex()} :: {r1.brief()}"):
            r2 = cli_convert(mid, b, a)
            if r2.exc is not None:
                raise r2.exc
            f.expect(r2.ok and conv.read(r2.stdout, a) == x, f"conversion/{ic}/cli-{b}-back-to-{a}", f"x={x.hex()} mid={mid[:80]!r} :: {r2.brief()}")
    else:
        cls.append("cli-skipped:direct-failure")
    return cls, f


def check_text(case):
    fmt, digits = case["fmt"], case["digits"]
    stream = (case["pre"] + digits + case["post"]).encode()
    f = Fails()
    unit = 2 if fmt == "hex" else 8
    cls = [f"text:{fmt}"]
    if len(digits) % unit:
        tc = "odd-nibbles" if fmt == "hex" else "partial-byte"
        cls.append("nt:" + tc)
    else:
        tc = "aligned"
    if case["pre"] or case["post"]:
        cls.append("nt:surrounding-newlines")
    if any(c in "ABCDEF" for c in digits):
        cls.append("upper-case-hex")
    want = conv.read(stream, fmt)
    assert want is not None and len(want) == -(-len(digits) // unit)
    r = attempt(lib_read, stream, fmt)
    if f.expect(not raised(r) and r == want, f"conversion/text-{fmt}-{tc}/read", f"read_bytes({stream!r}) -> {r!r} want {want.hex()}"):
        res = cli_convert(stream, fmt, "raw")
        if res.exc is not None:
            raise res.exc
        f.expect(res.ok and res.stdout == want, f"conversion/text-{fmt}-{tc}/cli", f"stdin={stream!r} want {want.hex()} :: {res.brief()}")
        # the same text through every text output format (its own included): the output represents the padded bytes
        for out in ("hex", "bin"):
            res = cli_convert(stream, fmt, out)
            if res.exc is not None:
                raise res.exc
            cls.append(f"text:{fmt}>{out}")
            got = conv.read(res.stdout, out) if res.ok else None
            whole = res.ok and len(res.stdout.strip()) % (2 if out == "hex" else 8) == 0
            f.expect(
                res.ok and got == want and whole,
                f"conversion/text-{fmt}-{tc}/cli-to-{out}" + ("" if got == want else "/other-bytes") ,
                f"stdin={stream!r} want {want.hex()} :: {res.brief()}",
            )
    return cls, f


NEWLINES = ["", "\n", "\n\n", "\r\n", "\n\r\n"]
FORMAT_PAIRS = [(a, b) for a in conv.FORMATS for b in conv.FORMATS]


@st.composite
def conversion_cases(draw):
    mode = draw(st.sampled_from(["bytes", "bytes", "text"]))
    if mode == "bytes":
        kind = draw(st.sampled_from(["empty", "zeros+body", "allzero", "allff", "random", "random", "len64", "looks-like-prefix"]))
        if kind == "empty":
            data = b""
        elif kind == "zeros+body":
            z = draw(st.integers(1, 8))
            data = (b"\x00" * z + draw(st.binary(max_size=56)))[:64]
        elif kind == "allzero":
            data = b"\x00" * draw(st.integers(1, 64))
        elif kind == "allff":
            data = b"\xff" * draw(st.integers(1, 64))
        elif kind == "len64":
            data = draw(st.binary(min_size=64, max_size=64))
        elif kind == "looks-like-prefix":
            # bytes whose hex / binary text starts like a radix prefix or a sign ("0b...", "0B", "0e1", "00x"): plain digits here
            head = draw(st.sampled_from([b"\x0b", b"\x0b\x0b", b"\x0b\x10", b"\x0e\x10", b"\x00\x0b", b"\xb0\x0b", b"\x0d\x0a", b"\x0a"]))
            data = (head + draw(st.binary(max_size=24)))[:64]
        else:
            data = draw(gen.sized_binary(64))
        pair = draw(st.sampled_from(FORMAT_PAIRS))
        return {
            "mode": "bytes",
            "kind": kind,
            "data": hx(data),
            "a": pair[0],
            "b": pair[1],
        }
    fmt = draw(st.sampled_from(["hex", "bin"]))
    unit, maxd = (2, 128) if fmt == "hex" else (8, 512)
    shape = draw(st.sampled_from(["unaligned", "unaligned", "unaligned", "aligned", "short"]))
    if shape == "short":
        n = draw(st.integers(1, unit - 1))
    elif shape == "aligned":
        n = unit * draw(st.integers(1, maxd // unit))
    else:
        n = unit * draw(st.integers(0, maxd // unit - 1)) + draw(st.integers(1, unit - 1))
    alphabet = "01" if fmt == "bin" else draw(st.sampled_from(["0123456789abcdef", "0123456789abcdef", "0123456789ABCDEF", "0123456789abcdefABCDEF"]))
    fill = draw(st.sampled_from(["random", "random", "zeros", "ones", "lead-zeros"]))
    if fill == "zeros":
        digits = "0" * n
    elif fill == "ones":
        digits = ("1" if fmt == "bin" else "f") * n
    else:
        digits = "".join(draw(st.lists(st.sampled_from(alphabet), min_size=n, max_size=n)))
        if fill == "lead-zeros":
            z = draw(st.integers(1, n))
            digits = "0" * z + digits[z:]
    return {
        "mode": "text",
        "fmt": fmt,
        "digits": digits,
        "pre": draw(st.sampled_from(NEWLINES)),
        "post": draw(st.sampled_from(NEWLINES)),
    }


def targets(tier):
    return [
        Target(
            "conversion",
            check_conversion,
            strategy=lambda tier: conversion_cases(),
            budget={"quick": 4800, "thorough": 100000},
            required=[
                "nt:empty",
                "nt:leading-zero-byte",
                "nt:all-ff",
                "nt:all-zero",
                "nt:len-64",
                "nt:digits-look-like-a-prefix",
                "nt:odd-nibbles",
                "nt:partial-byte",
                "nt:surrounding-newlines",
                "text:hex>hex",
                "text:bin>bin",
            ]
            + [f"pair:{a}>{b}" for a in conv.FORMATS for b in conv.FORMATS],
        ),
        Target(
            "precedence",
            check_precedence,
            enumerate_=enumerate_precedence,
            exhaustive=True,
            required=[
                "nt:flag-before-subcommand", "nt:all-other-options-explicit", "nt:variant/base58[--check]", "nt:variant/base58[--decode --check]", "nt:variant/mnemonic[--to-seed]", "nt:variant/sig[--verify]",
                "nt:variant/pubkey[private-key-input]", "nt:variant/bech32[--witness-version]", "nt:variant/addr[base58-address]",
                "nt:cli-over-file",
                "nt:cli-over-default",
                "nt:explicit-default-value-over-file",
                "nt:toml-over-json",
                "nt:toml-without-key-shadows-json",
                "nt:file-over-default",
                "nt:unknown-keys",
                "expect:cli",
                "expect:toml",
                "expect:json",
                "expect:default",
                "cli:short",
                "cli:long",
            ]
            + [f"opt:{o}" for o in OPTIONS]
            + [f"sub:{s or 'base'}" for s in CLI_ACCEPT]
            + ["obs:handler-level", "obs:network-encoding", "obs:stdin-reading", "obs:output-shape", "obs:stub-kwargs", "obs:config-attr"],
        ),
        Target(
            "accept-table",
            check_accept,
            enumerate_=enumerate_accept,
            exhaustive=True,
            shards=1,
            required=["nt:frozen-pair"],
        ),
    ]
