"""C19 — block file store keeps every block, in order, in bounded append-only files; a crash leaves a prefix."""
import hashlib
import importlib
import importlib.machinery
import itertools
import os
import shutil
import tempfile

from hypothesis import strategies as st

from vf.core import Fails, Raised, Target, attempt, bx, canon
from vf.env import faultfs
from vf.env.faultfs import Crash, FaultFS
from vf.ref import blockstore as ref

PROPERTY = "C19"
LEVEL = "fault_enumeration"
RULE = (
    "A case is a history given as a value: file limit L in 64..512 (bits.p2p.MAX_BLOCKFILE_SIZE), a network magic, an initial "
    "data directory (absent / empty / pre-populated by the reference model with 1..15 files, first file number 0, 1 or 7) and "
    "1..6 steps-groups of [restart] + write-batch of 0..4 blocks. Block sizes are drawn while simulating the model, relative to "
    "the space left in the model's current file: record fits exactly / 1 byte to spare / exceeds by 1 / tiny (0..3) / L-8 "
    "(fills a file alone) / uniform; never > L-8. 'restart' = importlib.reload(bits.p2p) and re-patching; every run of a history "
    "also starts with a reload (fresh process). Target history "
    "compares the directory with the greedy reference model after every batch (stream, limit, split, append-only); target "
    "small-alphabet enumerates all histories of <=3 batches x <=2 blocks over 4 relative size classes from 2 initial states, "
    "without and with restarts between all batches; target crash dry-runs a history, numbers the fault points of its last "
    "batch (before/after each open, each write: before, after 1/4/7/8/len-1 bytes, after all bytes, before/after each close) "
    "and re-runs the whole history once per point with Crash(BaseException) raised there, then checks prefix-of-stream, "
    "earlier blocks intact, pre-existing files only extended, no file > L. Non-trivial: a history with a rollover, a restart "
    "followed by a non-empty batch, a crash enumeration whose last batch writes a record / rolls over. Distinct = distinct "
    "canonical case encodings."
)
ASSUMPTIONS = [
    "vf/ref/blockstore.py (record format and greedy split written from the statement, self-checked on literal bytes) is correct",
    "write_blocks_to_disk persists only through the name `open` in bits.p2p's globals (checked: a run whose files change "
    "without any write() reaching the double is a harness error, not a pass)",
    "unbuffered files model a killed process: bytes handed to write() before the crash point are on disk, later ones are not",
    "the first file of an empty store is blk00000.dat (library docstring); empty files are tolerated wherever they do not "
    "change the record stream or the split of non-empty files",
    "a single record larger than L (block > L-8) is outside the statement and never generated",
]
SELFCHECKS = [ref.selfcheck, faultfs.selfcheck]

MAGICS = ["f9beb4d9", "0b110907", "fabfb5da"]
SIZE_CLASSES = ["fit", "fit", "spare1", "over1", "over1", "full", "mid", "tiny0", "tiny1", "tiny2", "tiny3"]

# ---------------------------------------------------------------- library handling

_CODE_CACHE = {}


def _p2p():
    import bits.p2p as p2p

    return p2p


def _reload(mod):
    """importlib.reload with the compile step memoised on the exact source bytes (7 ms -> 0.4 ms per restart)."""
    cls = importlib.machinery.SourceFileLoader
    orig = cls.source_to_code

    def cached(self, data, path, *a, **k):
        key = (hashlib.blake2b(bytes(data)).digest(), str(path))
        code = _CODE_CACHE.get(key)
        if code is None:
            code = _CODE_CACHE[key] = orig(self, data, path, *a, **k)
        return code

    cls.source_to_code = cached
    try:
        return importlib.reload(mod)
    finally:
        cls.source_to_code = orig


class Lib:
    """bits.p2p with open / MAX_BLOCKFILE_SIZE / MAGIC_START_BYTES patched; restores everything on exit."""

    def __init__(self, limit, magic, fs):
        self.limit, self.magic, self.fs = limit, magic, fs
        self.mod = _p2p()

    def _patch(self):
        self.mod.MAX_BLOCKFILE_SIZE = self.limit
        self.mod.MAGIC_START_BYTES = self.magic
        self.mod.open = self.fs.open

    def __enter__(self):
        # a history starts in a fresh process: no module state may leak in from the previous run or case
        if "open" in vars(self.mod):
            del self.mod.open
        self.mod = _reload(self.mod)
        self.saved = (self.mod.MAX_BLOCKFILE_SIZE, self.mod.MAGIC_START_BYTES)
        self._patch()
        return self

    def restart(self):
        if "open" in vars(self.mod):
            del self.mod.open
        self.mod = _reload(self.mod)
        self._patch()

    def write(self, blocks, datadir):
        return self.mod.write_blocks_to_disk(blocks, datadir)

    def __exit__(self, *exc):
        if "open" in vars(self.mod):
            del self.mod.open
        self.mod.MAX_BLOCKFILE_SIZE, self.mod.MAGIC_START_BYTES = self.saved
        self.fs.close_all()
        return False


# ---------------------------------------------------------------- case -> concrete data


def block_bytes(fill, magic, idx, size):
    """content of the idx-th block ever written in a case; distinct per idx (for size > 0)"""
    if size == 0:
        return b""
    if fill == "magic":
        unit = magic + bytes([idx & 0xFF]) + magic[:3]
    else:
        unit = hashlib.blake2b(b"C19/%d" % idx, digest_size=32).digest()
    return (unit * (size // len(unit) + 1))[:size]


class Plan:
    """the case replayed on the reference model only: blocks, per-step model snapshots, class labels"""

    def __init__(self, case):
        self.L = L = int(case["L"])
        self.magic = magic = bx(case["magic"])
        self.fill = case.get("fill", "hash")
        init = case["init"]
        self.init_dir = init["dir"]
        if not (64 <= L <= 512) or len(magic) != 4 or self.init_dir not in ("absent", "empty", "prepop"):
            raise ValueError("case outside the generated domain")
        base = int(init.get("base", 0)) if self.init_dir == "prepop" else 0
        model = ref.Model(L, magic, base)
        idx = 0
        cls = set()

        def mk(size):
            nonlocal idx
            if not (0 <= size <= L - ref.OVERHEAD):
                raise ValueError("block size outside 0..L-8: the statement does not cover records larger than a file")
            b = block_bytes(self.fill, magic, idx, size)
            idx += 1
            return b

        if self.init_dir == "prepop":
            sizes = list(init["blocks"])
            if not sizes:
                raise ValueError("prepop needs >= 1 block")
            for s in sizes:
                model.add(mk(s))
            cls.add("init:prepop")
            if len(model.files) > 10:
                cls.add("prepopulated>10")
            if base:
                cls.add("init-first-file-number>0")
        else:
            cls.add("init:" + self.init_dir)
        self.init_model = model.copy()
        # steps
        self.steps = []  # ("restart",) | ("write", blocks)
        pending_restart = False
        nwrites = 0
        for step in case["steps"]:
            if step[0] == "restart":
                self.steps.append(("restart",))
                pending_restart = True
                continue
            if step[0] != "write":
                raise ValueError("unknown step")
            blocks = [mk(s) for s in step[1]]
            before = model.copy()
            info = model.write_batch(blocks)
            rolls = sum(1 for _, r in info if r)
            self.steps.append(("write", blocks))
            self.last_rolls = rolls
            nwrites += 1
            if not blocks:
                cls.add("empty-batch")
            for (left, rolled), b in zip(info, blocks):
                need = len(b) + ref.OVERHEAD
                if need == left:
                    cls.add("fits-exactly")
                elif need == left - 1:
                    cls.add("spare-1")
                elif need == left + 1:
                    cls.add("exceeds-by-1")
                if len(b) == L - ref.OVERHEAD:
                    cls.add("block-fills-file-alone")
                if len(b) == 0:
                    cls.add("zero-length-block")
            if rolls:
                cls.add("nt:rollover")
                if rolls >= 2:
                    cls.add("double-rollover-in-batch")
                if pending_restart:
                    cls.add("rollover-after-restart")
                if before.files and len(before.files) != before.current + 1:
                    cls.add("rollover-with-file-count!=next-number")
            if pending_restart and blocks:
                cls.add("nt:restart-then-append")
            pending_restart = False
            if max(model.files) >= 10:
                cls.add("file-number>=10")
        if not nwrites:
            raise ValueError("history without a write batch")
        self.final = model
        self.classes = cls
        self.last_write = max(i for i, s in enumerate(self.steps) if s[0] == "write")


def observe(datadir):
    files, odd = {}, []
    if os.path.isdir(datadir):
        for name in sorted(os.listdir(datadir)):
            p = os.path.join(datadir, name)
            n = ref.fileno_of(name)
            if n is not None and os.path.isfile(p):
                with open(p, "rb") as fh:
                    files[n] = fh.read()
            elif name.endswith(".dat"):
                odd.append(name)
    return files, odd


def materialize(plan, datadir):
    """(re)create the initial directory state.  datadir may hold the leftovers of a previous run of the same case:
    files that still have their initial bytes are kept (verified by reading them), everything else is rewritten"""
    want = plan.init_model.files if plan.init_dir == "prepop" else {}
    keep = set()
    if os.path.isdir(datadir):
        for name in os.listdir(datadir):
            p = os.path.join(datadir, name)
            if os.path.isdir(p) and not os.path.islink(p):
                shutil.rmtree(p)
                continue
            n = ref.fileno_of(name)
            if n in want and os.path.isfile(p) and not os.path.islink(p):
                with open(p, "rb") as fh:
                    if fh.read() == want[n]:
                        keep.add(n)
                        continue
            os.unlink(p)
    if plan.init_dir == "absent":
        if os.path.isdir(datadir):
            os.rmdir(datadir)
        return
    os.makedirs(datadir, exist_ok=True)
    for n, data in want.items():
        if n not in keep:
            with open(os.path.join(datadir, ref.filename(n)), "wb") as fh:
                fh.write(data)


def _subseq_missing(short, long_):
    """indexes of long_ not matched when short is embedded greedily as a subsequence; None if not a subsequence"""
    missing, j = [], 0
    for i, x in enumerate(long_):
        if j < len(short) and short[j] == x:
            j += 1
        else:
            missing.append(i)
    return missing if j == len(short) else None


def compare(before, after, info, obs, odd):
    """first violated clause after a completed batch, as (signature, detail), or None.
    before/after: reference models around the batch; info: per-block (space_left, rolled_over)."""
    L, magic = after.L, after.magic
    # bytes already written are never modified
    for n, old in before.files.items():
        new = obs.get(n)
        if new is None:
            if old:
                return "append-only/pre-existing-file-removed", f"blk{n:05d}.dat gone"
        elif not new.startswith(old):
            how = "truncated-or-overwritten" if len(new) < len(old) else "rewritten"
            return "append-only/pre-existing-bytes-modified", f"blk{n:05d}.dat {how}: {len(old)} -> {len(new)} bytes"
    if odd:
        return "naming/dat-file-not-blkNNNNN", f"{odd[:3]}"
    want = after.stream()
    got = b"".join(obs[k] for k in sorted(obs))
    if got != want:
        parsed = ref.parse_stream(got, magic)
        if parsed is None:
            return "stream/malformed-record", f"files do not parse as magic|len_le32|block records ({len(got)} bytes, want {len(want)})"
        exp = after.blocks
        nb = len(before.blocks)
        miss = _subseq_missing(parsed, exp)
        if miss:
            trig = {nb + i for i, (_, rolled) in enumerate(info) if rolled}
            if miss[0] in trig:
                return "stream/block-dropped-at-rollover", f"block {miss[0]} of {len(exp)}, which triggered a new file, is in no file ({len(miss)} missing)"
            if all(i < nb for i in miss):
                return "stream/earlier-blocks-lost", f"{len(miss)} block(s) of earlier batches missing"
            return "stream/block-missing", f"blocks {miss[:6]} of {len(exp)} missing"
        if _subseq_missing(exp, parsed):
            return "stream/extra-or-duplicate-record", f"{len(parsed)} records for {len(exp)} blocks"
        if sorted(parsed) == sorted(exp):
            return "stream/order", "records are a permutation of the blocks written"
        return "stream/ne-model", f"{len(parsed)} records, {len(exp)} expected"
    for n in sorted(obs):
        if len(obs[n]) > L:
            return "limit/file-exceeds-max", f"blk{n:05d}.dat has {len(obs[n])} > {L} bytes"
    nums = sorted(obs)
    if nums and nums != list(range(nums[0], nums[-1] + 1)):
        return "split/numbering-not-consecutive", f"files {nums[:20]}"
    g = {n: b for n, b in obs.items() if b}
    w = {n: b for n, b in after.files.items() if b}
    if g != w:
        if not before.files and obs and min(obs) != after.base and [g[k] for k in sorted(g)] == [w[k] for k in sorted(w)]:
            return "naming/first-file-not-blk00000", f"first file number {min(g)}"
        for n in sorted(set(g) | set(w)):
            a, b = g.get(n, b""), w.get(n, b"")
            if a != b:
                if len(a) < len(b):
                    return "split/new-file-although-record-fits", f"blk{n:05d}.dat has {len(a)} bytes, greedy split puts {len(b)} (L={L})"
                return "split/ne-model", f"blk{n:05d}.dat has {len(a)} bytes, model {len(b)}"
    return None


def raise_sig(res, info):
    ctx = "batch-with-rollover" if any(r for _, r in info) else "batch-without-rollover"
    return f"write/raises-{res.kind}/{ctx}", repr(res)


def run_history(plan, datadir, crash_at=None, arm_last=False, bufsize=0):
    """Replay the case against the library in datadir, the reference model running alongside.
    Returns dict(failure=(sig, detail)|None, fs=FaultFS, obs=files, odd=names, last=(before, after, info)|None)."""
    fs = FaultFS(crash_at=crash_at, bufsize=bufsize)
    materialize(plan, datadir)
    out = {"failure": None, "fs": fs, "last": None}
    live = plan.init_model.copy()
    with Lib(plan.L, plan.magic, fs) as lib:
        for i, step in enumerate(plan.steps):
            if step[0] == "restart":
                lib.restart()
                continue
            blocks = step[1]
            before = live.copy()
            info = live.write_batch(blocks)
            last = i == plan.last_write
            if last:
                out["last"] = (before, live.copy(), info)
                fs.armed = arm_last or crash_at is not None
            if last and crash_at is not None:
                try:
                    lib.write(list(blocks), datadir)
                    # the failing file operation was swallowed: the call tells its caller that the batch was written
                    out["returned_normally"] = fs.crashed is not None
                except Crash:
                    pass
                except Exception:  # noqa: BLE001 - judged on what is on disk at the crash point
                    pass
                fs.armed = False
                break
            res = attempt(lib.write, list(blocks), datadir)
            fs.armed = False
            obs, odd = observe(datadir)
            if isinstance(res, Raised):
                out["failure"] = raise_sig(res, info)
                break
            bad = compare(before, live, info, obs, odd)
            if bad:
                out["failure"] = bad
                break
            # empty files are tolerated (compare ignores them): adopt the observed file set so that
            # "the highest-numbered existing file" means the same to the model in the next batch
            live.files = dict(obs)
    out["obs"], out["odd"] = observe(datadir)
    return out


# ---------------------------------------------------------------- checks


class _Tmp:
    def __enter__(self):
        self.path = tempfile.mkdtemp(prefix="vf_C19_", dir="/tmp")
        return self.path

    def __exit__(self, *exc):
        shutil.rmtree(self.path, ignore_errors=True)
        return False


def _datadir(plan, root):
    # the temp directory itself is the data directory, except when the case starts without one
    return os.path.join(root, "data") if plan.init_dir == "absent" else root


def check_history(case):
    plan = Plan(case)
    f = Fails()
    cls = sorted(plan.classes)
    with _Tmp() as root:
        out = run_history(plan, _datadir(plan, root))
    if out["failure"]:
        f.add(*out["failure"])
    return cls, f


def _point_kind(desc):
    op, when, _, _ = desc
    return f"{when}-{op}" if when != "partial" else "mid-write"


def judge_crash(plan, before, after, obs, odd):
    """first violated clause of the crash sentence, or None; before/after: reference model around the last batch"""
    for n, old in before.files.items():
        new = obs.get(n)
        if new is None:
            if old:
                return "pre-existing-file-removed", f"blk{n:05d}.dat gone"
        elif not new.startswith(old):
            return "pre-existing-bytes-modified", f"blk{n:05d}.dat: {len(old)} -> {len(new)} bytes, not an extension"
    if odd:
        return "dat-file-not-blkNNNNN", f"{odd[:3]}"
    got = b"".join(obs[k] for k in sorted(obs))
    r_before, r_full = before.stream(), after.stream()
    if not got.startswith(r_before):
        return "earlier-blocks-lost", f"{len(got)} bytes on disk do not start with the {len(r_before)} bytes of earlier batches"
    if not r_full.startswith(got):
        return "not-a-prefix-of-record-stream", f"{len(got)} bytes on disk are not a prefix of the {len(r_full)}-byte stream"
    for n in sorted(obs):
        if len(obs[n]) > plan.L:
            return "file-exceeds-max", f"blk{n:05d}.dat has {len(obs[n])} > {plan.L}"
    return None


def check_crash(case):
    plan = Plan(case)
    f = Fails()
    cls = set(plan.classes)
    blocks = plan.steps[plan.last_write][1]
    if blocks:
        cls.add("nt:crash-mid-record")  # every record has >= 8 bytes, so every write has partial points
    if plan.last_rolls:
        cls.add("nt:crash-at-rollover")
    with _Tmp() as root:
        d = _datadir(plan, root)
        dry = run_history(plan, d, arm_last=True)
        if dry["failure"]:
            f.add(*dry["failure"])
            cls.add("enumeration-skipped:history-fails-without-crash")
            return sorted(cls), f
        points = dry["fs"].points
        before, after, info = dry["last"]
        rolls = sum(1 for _, r in info if r)
        # vacuity guards: the double must have seen the operations the model implies
        nwrite = sum(1 for p in points if p[0] == "write" and p[1] == "before")
        nopen = sum(1 for p in points if p[0] == "open" and p[1] == "before")
        if blocks and after.stream() != before.stream() and nwrite == 0:
            raise RuntimeError("C19 harness: files changed but no write() went through bits.p2p.open — fault injection bypassed")
        if rolls and nopen < 1:
            # (a batch whose first record rolls over needs no open() of the old file at all)
            raise RuntimeError("C19 harness: model rolled over but no open() call was seen — fault injection bypassed")
        if any(p[1] == "partial" for p in points):
            cls.add("enumerated:mid-write-points")
        opens = [i for i, p in enumerate(points) if p[0] == "open" and p[1] == "after"]
        if len(opens) >= 2:
            cls.add("enumerated:rollover-open-points")
            if any(i + 1 < len(points) and points[i + 1][:2] == ("write", "before") for i in opens[1:]):
                cls.add("enumerated:between-rollover-open-and-write")
        n = len(points)
        cls.add("fault-points:" + ("1-8" if n <= 8 else "9-16" if n <= 16 else "17-32" if n <= 32 else "33+"))
        seen = set()
        for i in range(n):
            out = run_history(plan, d, crash_at=i)
            fs = out["fs"]
            if fs.crashed is None or tuple(fs.crashed) != tuple(points[i]):
                raise RuntimeError(f"C19 harness: fault point {i} {points[i]} not reproduced (got {fs.crashed}); run is not deterministic")
            bad = judge_crash(plan, before, after, out["obs"], out["odd"])
            if bad and bad[0] not in seen:
                seen.add(bad[0])
                f.add(f"crash/{bad[0]}/first-at-{_point_kind(points[i])}", f"point {i}/{n} {points[i]}: {bad[1]}")
            if out.get("returned_normally") and not bad and "swallowed" not in seen:
                # a file operation failed (the same fault as an I/O error or an interrupt) and the call still returned
                # normally: its caller takes every block of the batch as written, so they all have to be there
                miss = compare(before, after, info, out["obs"], out["odd"])
                if miss:
                    seen.add("swallowed")
                    f.add(f"fault/call-returns-normally-with-records-missing/first-at-{_point_kind(points[i])}", f"point {i}/{n} {points[i]}: {miss[1]}")
        # the same batch under the buffered model (what reaches the disk is decided by flush/close, a crash discards
        # unflushed buffers): Python's default buffer, and one small enough for larger records to go straight through
        for bufsize in (8192, max(9, plan.L // 3)):
            dryb = run_history(plan, d, arm_last=True, bufsize=bufsize)
            if dryb["failure"]:
                f.add(dryb["failure"][0] + "/buffered-model", dryb["failure"][1])
                break
            pts = dryb["fs"].points
            cls.add("nt:crash-buffered-model")
            for i in range(len(pts)):
                out = run_history(plan, d, crash_at=i, bufsize=bufsize)
                fs = out["fs"]
                if fs.crashed is None or tuple(fs.crashed) != tuple(pts[i]):
                    raise RuntimeError(f"C19 harness: fault point {i} {pts[i]} not reproduced under bufsize {bufsize} (got {fs.crashed})")
                bad = judge_crash(plan, before, after, out["obs"], out["odd"])
                if bad and ("buffered/" + bad[0]) not in seen:
                    seen.add("buffered/" + bad[0])
                    f.add(f"crash-buffered/{bad[0]}/first-at-{_point_kind(pts[i])}", f"bufsize {bufsize}, point {i}/{len(pts)} {pts[i]}: {bad[1]}")
    return sorted(cls), f


# ---------------------------------------------------------------- generation


class Sim:
    """sizes-only twin of the reference model, used while drawing"""

    def __init__(self, L):
        self.L = L
        self.left = L
        self.nfiles = 0

    def add(self, size):
        need = size + ref.OVERHEAD
        if self.nfiles == 0:
            self.nfiles = 1
        if need <= self.left:
            self.left -= need
        else:
            self.left = self.L - need
            self.nfiles += 1


def resolve(cls, left, L, tiny=1, mid=None):
    """concrete size for a relative size class; infeasible classes fall back to tiny"""
    if cls == "fit" and left >= 8:
        return left - 8
    if cls == "spare1" and left >= 9:
        return left - 9
    if cls == "over1" and 7 <= left <= L - 1:
        return left - 7
    if cls == "full":
        return L - 8
    if cls == "mid" and mid is not None:
        return mid
    return tiny


@st.composite
def draw_size(draw, sim):
    cls = draw(st.sampled_from(SIZE_CLASSES))
    if cls.startswith("tiny"):
        return int(cls[4:])
    mid = draw(st.integers(0, sim.L - 8)) if cls == "mid" else None
    return resolve(cls, sim.left, sim.L, 1, mid)


@st.composite
def histories(draw, max_batches=6, crash=False):
    L = draw(st.one_of(st.sampled_from([64, 65, 71, 72, 73, 128, 255, 256, 512]), st.integers(64, 512)))
    magic = draw(st.sampled_from(MAGICS))
    fill = draw(st.sampled_from(["hash", "hash", "magic"]))
    kind = draw(st.sampled_from(["absent", "empty", "prepop", "prepop", "prepop"]))
    sim = Sim(L)
    init = {"dir": kind}
    if kind == "prepop":
        nfiles = draw(st.one_of(st.sampled_from([1, 2, 9, 10, 11, 12, 15]), st.integers(1, 15)))
        init["base"] = draw(st.sampled_from([0, 0, 0, 1, 7]))
        sizes = []
        for fno in range(nfiles):
            if fno == 0:
                s = draw(draw_size(sim))
            else:
                lo = max(0, sim.left - 7)  # smallest block whose record does not fit the space left
                s = draw(st.sampled_from([lo, L - 8, None]))
                if s is None:
                    s = draw(st.integers(lo, L - 8))
            sizes.append(s)
            sim.add(s)
            for _ in range(draw(st.integers(0, 2))):
                if sim.left < 8:
                    break
                c = draw(st.sampled_from(["fit", "spare1", "tiny", "mid"]))
                s = resolve(c, sim.left, L, min(draw(st.integers(0, 3)), sim.left - 8), draw(st.integers(0, sim.left - 8)))
                sizes.append(s)
                sim.add(s)
        assert sim.nfiles == nfiles
        init["blocks"] = sizes
    steps = []
    nb = draw(st.integers(1, 3 if crash else max_batches))
    for b in range(nb):
        if b > 0 and draw(st.booleans()):
            steps.append(["restart"])
        lastb = b == nb - 1
        k = draw(st.integers(1 if (crash and lastb) else 0, 4))
        sizes = []
        for _ in range(k):
            s = draw(draw_size(sim))
            sizes.append(s)
            sim.add(s)
        steps.append(["write", sizes])
    return {"L": L, "magic": magic, "fill": fill, "init": init, "steps": steps}


ALPHABET = ["fit", "spare1", "over1", "tiny"]


def small_alphabet(tier):
    """all histories of <= 3 batches x <= 2 blocks over 4 relative size classes, from two initial states,
    without restarts and with a restart between all batches; duplicates after class resolution removed"""
    L = 64
    inits = [
        {"dir": "absent"},
        # 10 full files + an 11th with 20 of 64 bytes used: rollovers go to two-digit numbers
        {"dir": "prepop", "base": 0, "blocks": [L - 8] * 10 + [12]},
    ]
    batches = [()] + [(a,) for a in ALPHABET] + [(a, b) for a in ALPHABET for b in ALPHABET]
    seen = set()
    for init in inits:
        for nb in (1, 2, 3):
            for combo in itertools.product(batches, repeat=nb):
                for restarts in ((False, True) if nb > 1 else (False,)):
                    sim = Sim(L)
                    for s in init.get("blocks", []):
                        sim.add(s)
                    steps = []
                    for bi, batch in enumerate(combo):
                        if bi and restarts:
                            steps.append(["restart"])
                        sizes = []
                        for c in batch:
                            s = resolve(c, sim.left, L, 1)
                            sizes.append(s)
                            sim.add(s)
                        steps.append(["write", sizes])
                    case = {"L": L, "magic": MAGICS[0], "fill": "hash", "init": init, "steps": steps}
                    key = canon(case)
                    if key in seen:
                        continue
                    seen.add(key)
                    yield case


def targets(tier):
    return [
        Target(
            "history",
            check_history,
            strategy=lambda tier: histories(),
            budget={"quick": 3000, "thorough": 60000},
            required=[
                "nt:rollover",
                "fits-exactly",
                "exceeds-by-1",
                "spare-1",
                "nt:restart-then-append",
                "prepopulated>10",
                "init:absent",
                "init:empty",
                "double-rollover-in-batch",
                "rollover-after-restart",
                "rollover-with-file-count!=next-number",
            ],
        ),
        Target(
            "small-alphabet",
            check_history,
            enumerate_=small_alphabet,
            required=["nt:rollover", "fits-exactly", "exceeds-by-1", "nt:restart-then-append", "prepopulated>10"],
            exhaustive=True,
        ),
        Target(
            "crash",
            check_crash,
            strategy=lambda tier: histories(crash=True),
            budget={"quick": 300, "thorough": 5000},
            required=["nt:crash-mid-record", "nt:crash-at-rollover", "nt:crash-buffered-model", "nt:rollover", "nt:restart-then-append", "prepopulated>10"],
        ),
    ]
