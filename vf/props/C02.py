"""C02 — ECDSA verification accepts exactly what the verification equation accepts; low-S normaliser is sound."""
import hashlib

from hypothesis import strategies as st

from vf import gen
from vf.core import Fails, Target, attempt, bx, hexof, hx, raised, seq
from vf.env import smallcurve
from vf.ref import der, ec

PROPERTY = "C02"
LEVEL = "exploration"
N, P = ec.N, ec.P
RULE = (
    "verify-secp: a valid (P,z,r,s) from the REFERENCE signer, then one mutation: bit flip in z/r/s/Px/Py; r or s replaced by "
    "{0,1,n-1,n,n+1,r+n}; s->n-s and z->z+n (must still be accepted); unrelated key; z=-r*d so that u1G+u2P is the identity; none. "
    "sigverify-bytes: the same through sig_verify(sig||flag, pubkey bytes, msg, preimage) with mutations of message, sighash byte, "
    "public-key bytes (prefix, hybrid, x off curve, x>=p, wrong length) and DER bytes (value, tag and length bytes). low-s: "
    "ensure_sig_low_s over s in [1,n-1] emphasising s=n-t with t short / top-bit-set. small-curve: ALL (P != O, z in [0,n+1], "
    "r,s in [0,n+1]) on the retargeted n=31 curve (n=79 in thorough). Oracle: accept_lib == accept_ref where accept_lib is exactly "
    "'returned True'/'OK' and anything else (exception, other string) is rejection. Non-trivial: any real mutation, or an "
    "expected-accept under a non-identity mutation."
)
ASSUMPTIONS = [
    "vf/ref/ec.py verifier decides the verification equation; vf/ref/der.py decodes strict DER",
    "for structurally damaged DER the (r,s) denoted by the bytes is taken from the library's own decoder (the property constrains the verdict, not the parser)",
    "off-curve points are only presented through encodings/coordinate flips on secp256k1 (accidental acceptance there would be an invalid-curve forgery)",
]
SELFCHECKS = [ec.selfcheck, der.selfcheck]


def _base(case):
    d, z, k = case["d"], case["z"], case["k"]
    rs = ec.ecdsa_sign(d, z, k)
    return rs


def check_verify(case):
    import bits.ecmath as em

    d, z, k = case["d"], case["z"], case["k"]
    f = Fails()
    if case["mut"]["kind"] == "aliased-key":
        return _check_aliased_key(case, f)
    rs = ec.ecdsa_sign(d, z, k)
    if rs is None:
        return ["degenerate-nonce"], f
    r, s = rs
    pt = ec.pub(d)
    m = case["mut"]
    kind = m["kind"]
    if kind == "flip":
        bit = m["bit"] % 256
        if m["field"] == "z":
            z ^= 1 << bit
        elif m["field"] == "r":
            r ^= 1 << bit
        elif m["field"] == "s":
            s ^= 1 << bit
        elif m["field"] == "px":
            pt = (pt[0] ^ (1 << bit), pt[1])
        else:
            pt = (pt[0], pt[1] ^ (1 << bit))
        label = "flip-" + m["field"]
    elif kind == "set":
        v = {"0": 0, "1": 1, "n-1": N - 1, "n": N, "n+1": N + 1, "+n": (r if m["field"] == "r" else s) + N}[m["to"]]
        if m["field"] == "r":
            r = v
        else:
            s = v
        label = f"set-{m['field']}-{m['to']}"
    elif kind == "neg-s":
        s = N - s
        label = "s->n-s"
    elif kind == "z+n":
        if z + N < 2**256:
            z = z + N
        label = "z+n"
    elif kind == "otherkey":
        pt = ec.pub(m["d2"])
        label = "other-key"
    elif kind == "infinity":
        z = (-r * d) % N
        label = "u1G+u2P=infinity"
    else:
        label = "none"
    want = ec.ecdsa_verify(pt, z, r, s) if (0 <= pt[0] < P and 0 <= pt[1] < P) else False
    cls = ["mut:" + label, "nt:expect-accept" if (want and label != "none") else ("expect-accept" if want else "nt:expect-reject")]
    got = attempt(em.verify, r, s, pt, z)
    acc = got is True
    if want:
        f.expect(acc, f"verify/rejects-valid/{label}", repr(got)[:160])
    else:
        f.expect(not acc, f"verify/accepts-invalid/{label}", repr(got)[:160])
    return cls, f


def _check_aliased_key(case, f):
    """A public key whose x field is x0 + p for a curve point (x0, y): not a valid curve point (the coordinate is not a
    field element), although every formula that reduces mod p sees the point (x0, y). A signature that is valid for
    (x0, y) is forged without a private key: R = aG + bP, r = x(R) mod n, s = r/b, z = a*s."""
    import bits
    import bits.ecmath as em

    c = case["mut"]["c"]
    y = None
    while y is None:
        y = ec.sqrt_mod((c * c * c + 7) % P)
        if y is None:
            c += 1
    P0 = (c, y if case["mut"]["odd"] == (y & 1) else P - y)
    a, b = case["d"], case["k"]
    R = ec.add(ec.mul(a, ec.G), ec.mul(b, P0))
    if R is None or R[0] % N == 0:
        return ["degenerate-nonce"], f
    r = R[0] % N
    s_ = r * pow(b, -1, N) % N
    z = a * s_ % N
    if not ec.ecdsa_verify(P0, z, r, s_):
        raise RuntimeError("C02 harness: forged signature is not valid for the reduced key")
    cls = ["mut:aliased-key", "nt:expect-reject"]
    got = attempt(em.verify, r, s_, (c + P, P0[1]), z)
    f.expect(got is not True, "verify/accepts-invalid/aliased-key", repr(got)[:120])
    dec = attempt(bits.point, b"\x04" + (c + P).to_bytes(32, "big") + P0[1].to_bytes(32, "big"))
    if not raised(dec):
        got2 = attempt(em.verify, r, s_, dec, z)
        f.expect(got2 is not True, "verify/accepts-invalid/aliased-key-bytes", f"point() returned {dec!r}"[:160])
    return cls, f


def _digest(msg, flagbyte, preimage):
    if not preimage:
        msg = msg + flagbyte.to_bytes(4, "little")
    return int.from_bytes(hashlib.sha256(hashlib.sha256(msg).digest()).digest(), "big")


def check_bytes(case):
    import bits
    import bits.utils as U

    d, k = case["d"], case["k"]
    edge = bool(case.get("edge"))
    if edge:
        # a key whose SEC1 bytes start (after the prefix) or end with an ASCII whitespace byte or NUL
        d = gen.edge_scalar(d, ec.mul, ec.G, ec.sec1_encode)
    flag = case["flag"]
    preimage = case["preimage"]
    msg = bx(case["msg"])
    if case.get("tail"):
        # a plain message that already ends the way a pre-image does (the 4-byte hash type): still only a message
        msg = msg + flag.to_bytes(4, "little")
    if preimage:
        msg = msg + flag.to_bytes(4, "little")
    z = _digest(msg, flag, preimage)
    rs = ec.ecdsa_sign(d, z, k)
    tot = case.get("der_total")
    if tot and rs is not None and not edge:
        # a valid signature whose strict-DER encoding has a chosen total length (63..65 bytes: around the 64 bytes of
        # the fixed-width r || s form): s is picked with the byte length that gives it, the key is solved from s
        r0 = rs[0]
        lr = (r0.bit_length() + 8) // 8
        ls = tot - 6 - lr
        if 1 <= ls <= 31:
            s0 = int.from_bytes(bytes([0x5A]) * ls, "big")
            d0 = (s0 * k - z) * pow(r0, -1, N) % N
            if d0 and ec.ecdsa_verify(ec.pub(d0), z, r0, s0):
                d, rs = d0, (r0, s0)
    f = Fails()
    if rs is None:
        return ["degenerate-nonce"], f
    dersig = bytearray(der.encode(*rs))
    pk = bytearray(ec.sec1_encode(ec.pub(d), case["comp"]))
    flagbyte = flag
    m = case["mut"]
    kind = m["kind"]
    label = kind
    if kind == "msg":
        mm = bytearray(msg)
        if mm:
            mm[m["pos"] % len(mm)] ^= 1 << (m["bit"] % 8)
        else:
            mm = bytearray(b"\x00")
        msg = bytes(mm)
    elif kind == "flag":
        flagbyte = m["to"]
    elif kind == "pk-byte":
        pk[m["pos"] % len(pk)] ^= 1 << (m["bit"] % 8)
        label = "pk-prefix" if m["pos"] % len(pk) == 0 else "pk-coord"
    elif kind == "pk-prefix":
        # same coordinates under another prefix byte (other parity, uncompressed/hybrid marker, undefined values)
        cands = [b for b in (0x02, 0x03, 0x04, 0x05, 0x06, 0x07, 0x00, 0x01, 0xFF) if b != pk[0]]
        pk[0] = cands[m["pos"] % len(cands)]
        label = "pk-prefix"
    elif kind == "pk-hybrid":
        pt = ec.pub(d)
        pk = bytearray(bytes([6 + (pt[1] & 1)]) + pt[0].to_bytes(32, "big") + pt[1].to_bytes(32, "big"))
    elif kind == "pk-len":
        if m["how"] == "trunc":
            pk = pk[:-1]
        elif m["how"] == "ext":
            pk = pk + b"\x00"
        elif m["how"] == "ext-ws":  # what reading a key from a text file leaves behind
            pk = pk + (b"\n", b"\r\n", b" ", b"\t")[m["pos"] % 4]
        elif m["how"] == "pre-ws":
            pk = (b" ", b"\n")[m["pos"] % 2] + pk
        else:  # the other form's length with this form's prefix
            pt = ec.pub(d)
            pk = bytearray(bytes([pk[0]]) + pt[0].to_bytes(32, "big") + (pt[1].to_bytes(32, "big") if len(pk) == 33 else b""))
        label = "pk-len-" + m["how"]
    elif kind == "pk-x>=p":
        pk = bytearray(bytes([2 + m["bit"] % 2]) + (P + m["pos"] % 1000).to_bytes(32, "big"))
    elif kind == "pk-other":
        pk = bytearray(ec.sec1_encode(ec.pub(m["d2"]), case["comp"]))
    elif kind == "der-value":
        # value bytes only: structure intact
        lr = dersig[3]
        positions = list(range(4, 4 + lr)) + list(range(6 + lr, len(dersig)))
        dersig[positions[m["pos"] % len(positions)]] ^= 1 << (m["bit"] % 8)
    elif kind == "der-struct":
        lr = dersig[3]
        positions = [0, 1, 2, 3, 4 + lr, 5 + lr]
        dersig[positions[m["pos"] % len(positions)]] ^= 1 << (m["bit"] % 8)
    elif kind == "neg-s":
        dersig = bytearray(der.encode(rs[0], N - rs[1]))
    elif kind == "forge-x0":
        # a key with x = 0 is not on secp256k1, but under the a = 0 formulas (0, y) has order 3 for ANY y, so u2*P vanishes
        # whenever u2 = 0 (mod 3): grind the nonce until it does, then (r, s) = (x(aG), z/a) "verifies" without a secret for
        # a verifier that skips the on-curve test of the public key. The property requires rejection.
        a = k
        for _ in range(64):
            Ra = ec.mul(a % N or 1, ec.G)
            r_f = Ra[0] % N
            s_f = (z % N) * pow(a % N or 1, -1, N) % N
            if r_f and s_f and (r_f * pow(s_f, -1, N) % N) % 3 == 0:
                dersig = bytearray(der.encode(r_f, s_f))
                break
            a += 1
        form = m["pos"] % 3
        ybytes = (m["pos"] * 0x9E3779B97F4A7C15 % P or 1).to_bytes(32, "big")
        pk = bytearray((b"\x04" + bytes(32) + ybytes) if form == 0 else (bytes([2 + form % 2]) + bytes(32)))
        label = "forged-under-x0-key"
    elif kind == "forge-infinity-key":
        # the public key is an encoding of the point at infinity (SEC1's single zero octet, or nothing at all): with P = O
        # the equation loses its u2*P term, so (r, s) = (x(aG), z/a) "verifies" for any message without a secret
        a = k % N or 1
        r_f = ec.mul(a, ec.G)[0] % N
        s_f = (z % N) * pow(a, -1, N) % N
        if r_f and s_f:
            dersig = bytearray(der.encode(r_f, min(s_f, N - s_f) if m["pos"] % 2 else s_f))
        pk = bytearray([b"\x00", b"\x00", b"", b"\x00" * 33, b"\x00" * 65][m["pos"] % 5])
        label = "forged-under-infinity-key"
    elif kind == "infinity":
        # keep (r, s) and the message, swap in the key P = (-z/r)G: then u1*G + u2*P is the point at infinity
        d_inf = (-z) * pow(rs[0], -1, N) % N
        if d_inf:
            pk = bytearray(ec.sec1_encode(ec.pub(d_inf), case["comp"]))
        label = "u1G+u2P=infinity"
    sig = bytes(dersig) + bytes([flagbyte & 0xFF])
    pkb = bytes(pk)
    # expected verdict
    z2 = _digest(msg, flagbyte & 0xFF, preimage)
    pt = ec.sec1_decode(pkb)
    strict = der.decode_strict(bytes(dersig))
    if strict is not None:
        vals = strict
        libdec = attempt(U.der_decode_sig, bytes(dersig))
        f.expect(not raised(libdec) and seq(libdec) == strict, "der-decode/strict-der-decoded-differently", repr(libdec)[:120])
    else:
        libdec = attempt(U.der_decode_sig, bytes(dersig))
        vals = tuple(libdec) if (not raised(libdec) and isinstance(libdec, tuple) and len(libdec) == 2 and all(isinstance(v, int) for v in libdec)) else None
    want = pt is not None and vals is not None and ec.ecdsa_verify(pt, z2, vals[0], vals[1])
    cls = ["mut:" + label, "nt:expect-accept" if (want and kind != "none") else ("expect-accept" if want else "nt:expect-reject")]
    cls.append("preimage" if preimage else "plain")
    if case.get("tail") and not preimage:
        cls.append("nt:plain-msg-ends-in-its-hash-type")
    if tot and rs is not None and len(der.encode(*rs)) == tot:
        cls.append(f"nt:der-length-{tot}")
    if edge:
        cls.append("nt:key-bytes-with-whitespace-or-nul-at-an-end")
    if flag not in FLAGS:
        cls.append("nt:nonstandard-sighash-byte-00" if flag == 0 else "nt:nonstandard-sighash-byte")
    if case.get("prime") and kind.startswith("pk-"):
        # history: the same signature is first verified under the genuine key (both SEC1 forms) in the same process
        cls.append("nt:after-verifying-under-genuine-key")
        for c in (True, False):
            attempt(bits.sig_verify, bytes(der.encode(*rs)) + bytes([flag & 0xFF]), ec.sec1_encode(ec.pub(d), c), bx(case["msg"]) + (flag.to_bytes(4, "little") if preimage else b""), msg_preimage=preimage)
    got = attempt(bits.sig_verify, sig, pkb, msg, msg_preimage=preimage)
    acc = got == "OK"
    if want:
        f.expect(acc, f"sig_verify/rejects-valid/{label}", repr(got)[:160])
    else:
        f.expect(not acc, f"sig_verify/accepts-invalid/{label}", repr(got)[:160])
    if want or case["k"] % 2:
        # the same three byte strings in the OTHER message mode right afterwards: the digest is another one (HASH256(msg)
        # vs HASH256(msg || hash type)), so the verdict is decided afresh - an earlier answer for these bytes says nothing
        z3 = _digest(msg, flagbyte & 0xFF, not preimage)
        want3 = pt is not None and vals is not None and ec.ecdsa_verify(pt, z3, vals[0], vals[1])
        got3 = attempt(bits.sig_verify, sig, pkb, msg, msg_preimage=not preimage)
        cls.append("nt:then-same-bytes-in-other-mode" + ("/after-OK" if want else ""))
        if want3:
            f.expect(got3 == "OK", f"sig_verify/rejects-valid/other-mode-afterwards/{label}", repr(got3)[:160])
        else:
            f.expect(got3 != "OK", f"sig_verify/accepts-invalid/other-mode-afterwards/{label}", repr(got3)[:160])
    return cls, f


def check_lows(case):
    import bits.utils as U

    r, s = case["r"], case["s"]
    f = Fails()
    comp = N - s
    nb = (comp.bit_length() + 7) // 8
    cls = []
    if s > N // 2:
        cls.append("nt:high-s")
        if nb < 32:
            cls.append("nt:complement-short")
            if comp >> (8 * nb - 1):
                cls.append("nt:complement-short-topbit")
    else:
        cls.append("low-s")
    if s in (N // 2, N // 2 + 1):
        cls.append("nt:s-at-half")
    inp = der.encode(r, s)
    out = attempt(U.ensure_sig_low_s, inp)
    shape = "complement-short" if (s > N // 2 and nb < 32) else ("high-s" if s > N // 2 else "low-s")
    if raised(out):
        f.add(f"low-s/raises-{out.kind}/{shape}", out)
        return cls, f
    if s <= N // 2:
        f.expect(out == inp, "low-s/changes-already-low-signature", hexof(out))
        return cls, f
    dec = der.decode_strict(out)
    if f.expect(dec is not None, f"low-s/output-not-strict-der/{shape}", hexof(out)):
        f.expect(dec == (r, min(s, N - s)), f"low-s/wrong-values/{shape}", repr(dec))
    if case.get("verify"):
        d, z = case["verify"]["d"], case["verify"]["z"]
        # (r, s) is a genuine signature for (d, z): the normalised one must verify too (reference and library)
        import bits.ecmath as em

        cls.append("nt:verified")
        if dec is not None:
            f.expect(ec.ecdsa_verify(ec.pub(d), z, *dec), f"low-s/output-invalid-for-same-data/{shape}")
            v = attempt(em.verify, dec[0], dec[1], ec.pub(d), z)
            f.expect(v is True, f"low-s/output-rejected-by-lib/{shape}", repr(v))
    return cls, f


def check_small(case):
    c = ec.small_curves(6)[case["curve"]]
    p, n, g = c["p"], c["n"], c["g"]
    em = smallcurve.load(p, n, g)
    pts = sorted(c["points"])
    pt = pts[case["i"]]
    z = case["z"]
    f = Fails()
    cls = ["nt:small-curve-p%d" % p]
    for r in range(0, n + 2):
        for s in range(0, n + 2):
            want = ec.ecdsa_verify(pt, z, r, s, n, g, p)
            got = attempt(em.verify, r, s, pt, z)
            if (got is True) != want:
                rng_ = "in-range" if (1 <= r < n and 1 <= s < n) else "out-of-range"
                f.add(f"small/verify-{'rejects-valid' if want else 'accepts-invalid'}/{rng_}/{'digest>=n' if z >= n else 'digest<n'}",
                      f"p={p} P={pt} z={z} r={r} s={s}: {got!r}")
                return cls, f
    return cls, f


def enum_small(tier):
    curves = ec.small_curves(6)
    cis = [0] if tier == "quick" else [0, 1]
    for ci in cis:
        c = curves[ci]
        for i in range(len(c["points"])):
            for z in range(0, c["n"] + 2):
                yield {"curve": ci, "i": i, "z": z}


FLAGS = [0x01, 0x02, 0x03, 0x81, 0x82, 0x83]


@st.composite
def verify_cases(draw):
    d = draw(gen.scalars_valid())
    z = draw(st.one_of(st.sampled_from([0, 1, N - 1, N, N + 1, 2**256 - 1]), st.integers(0, 2**256 - 1)))
    k = draw(st.integers(1, N - 1))
    kind = draw(st.sampled_from(["none", "flip", "flip", "flip", "set", "set", "neg-s", "z+n", "otherkey", "infinity", "aliased-key"]))
    m = {"kind": kind}
    if kind == "aliased-key":
        m["c"] = draw(st.integers(0, 2**32 + 900))
        m["odd"] = draw(st.integers(0, 1))
    if kind == "flip":
        m["field"] = draw(st.sampled_from(["z", "r", "s", "px", "py"]))
        m["bit"] = draw(st.integers(0, 255))
    elif kind == "set":
        m["field"] = draw(st.sampled_from(["r", "s"]))
        m["to"] = draw(st.sampled_from(["0", "1", "n-1", "n", "n+1", "+n"]))
    elif kind == "otherkey":
        m["d2"] = draw(gen.scalars_valid().filter(lambda x: x != d))
    elif kind == "z+n":
        z = draw(st.integers(0, 2**256 - 1 - N))
    return {"d": d, "z": z, "k": k, "mut": m}


@st.composite
def bytes_cases(draw):
    kind = draw(st.sampled_from(["none", "msg", "flag", "pk-byte", "pk-byte", "pk-prefix", "pk-prefix", "pk-hybrid", "pk-len", "pk-x>=p", "pk-other", "der-value", "der-value", "der-struct", "der-struct", "neg-s", "infinity", "forge-x0", "forge-infinity-key"]))
    m = {"kind": kind, "pos": draw(st.integers(0, 200)), "bit": draw(st.integers(0, 7))}
    if kind == "flag":
        m["to"] = draw(st.sampled_from(FLAGS + [0, 4, 0x80, 0xFF]))
    if kind == "pk-len":
        m["how"] = draw(st.sampled_from(["trunc", "ext", "otherform", "ext-ws", "ext-ws", "pre-ws"]))
    if kind == "pk-other":
        m["d2"] = draw(gen.scalars_valid())
    if kind == "pk-byte" and draw(st.booleans()):
        m["pos"] = 0
    return {
        "d": draw(gen.scalars_valid()),
        # incl. the nonce whose r = 301ef262...: INTEGER content that starts like a DER SEQUENCE header of its own length
        "k": draw(st.sampled_from([0x5EED2B219]) | st.integers(1, N - 1) if draw(st.integers(0, 11)) == 0 else st.integers(1, N - 1)),
        # the tuple ranges over every sighash byte, not only the six standard ones (0x00 is falsy in Python)
        "flag": draw(st.sampled_from(FLAGS + [0x00, 0x00, 0x04, 0x80, 0xFF]) | st.integers(0, 255)),
        "preimage": draw(st.booleans()),
        # incl. lengths at which the message as passed (body, + 4 flag bytes in preimage mode) is 32 or 64 bytes long
        "msg": draw(st.one_of(st.binary(max_size=80), gen.lookalike_bytes(), st.sampled_from([0, 28, 32, 60, 64]).flatmap(lambda n: st.binary(min_size=n, max_size=n)))).hex(),
        "comp": draw(st.booleans()),
        "mut": m,
        "prime": draw(st.booleans()) or kind == "pk-prefix",
        "edge": draw(st.sampled_from([False, False, False, True])),
        "der_total": draw(st.sampled_from([None, None, None, None, 63, 64, 64, 65])),
        "tail": draw(st.integers(0, 7)) == 0,
    }


@st.composite
def lows_cases(draw):
    r = draw(st.one_of(st.sampled_from([1, N - 1, 0x80, 0x7F]), st.integers(1, N - 1)))
    kind = draw(st.sampled_from(["comp-short", "comp-short", "half", "high", "low", "real"]))
    case = {"r": r}
    if kind == "comp-short":
        nb = draw(st.integers(1, 31))
        t = draw(st.integers(1, (1 << (8 * nb)) - 1))
        if draw(st.booleans()):
            t |= 1 << (8 * nb - 1)
        case["s"] = N - t
    elif kind == "half":
        case["s"] = draw(st.sampled_from([N // 2, N // 2 + 1, N // 2 + 2, N // 2 - 1]))
    elif kind == "high":
        case["s"] = draw(st.integers(N // 2 + 1, N - 1))
    elif kind == "low":
        case["s"] = draw(st.integers(1, N // 2))
    else:
        d, z, k = draw(gen.scalars_valid()), draw(st.integers(0, 2**256 - 1)), draw(st.integers(1, N - 1))
        rs = ec.ecdsa_sign(d, z, k, low_s=False)
        if rs is None:
            case["s"] = N - 1
        else:
            r, s = rs
            if s <= N // 2:
                s = N - s
            case.update(r=r, s=s, verify={"d": d, "z": z})
    return case


def targets(tier):
    return [
        Target("verify-secp", check_verify, strategy=lambda tier: verify_cases(), budget={"quick": 640, "thorough": 10000},
               required=["mut:s->n-s", "mut:z+n", "mut:u1G+u2P=infinity", "mut:other-key", "mut:aliased-key", "nt:expect-accept", "nt:expect-reject", "mut:flip-px"]),
        Target("sigverify-bytes", check_bytes, strategy=lambda tier: bytes_cases(), budget={"quick": 800, "thorough": 10000},
               required=["mut:der-struct", "mut:der-value", "mut:pk-hybrid", "mut:pk-prefix", "mut:pk-len-otherform", "mut:flag", "mut:msg", "mut:u1G+u2P=infinity", "mut:forged-under-x0-key", "mut:forged-under-infinity-key", "nt:expect-accept", "nt:expect-reject", "nt:nonstandard-sighash-byte-00",
                         "nt:key-bytes-with-whitespace-or-nul-at-an-end", "mut:pk-len-ext-ws", "nt:der-length-64", "nt:der-length-63", "nt:plain-msg-ends-in-its-hash-type", "nt:then-same-bytes-in-other-mode/after-OK"]),
        Target("low-s", check_lows, strategy=lambda tier: lows_cases(), budget={"quick": 3000, "thorough": 40000},
               required=["nt:complement-short", "nt:complement-short-topbit", "nt:s-at-half", "nt:verified"]),
        Target("small-curve", check_small, enumerate_=enum_small, exhaustive=True),
    ]
