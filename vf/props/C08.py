"""C08 — an address or public key maps to exactly its standard scriptPubKey; anything else is refused."""
import hashlib

from hypothesis import strategies as st

from vf import gen
from vf.core import Fails, Target, attempt, bx, hx, raised
from vf.ref import base58 as rb58
from vf.ref import bech32 as rbech
from vf.ref import ec
from vf.ref import scriptref as sr

PROPERTY = "C08"
LEVEL = "exploration"
N, P = ec.N, ec.P
RULE = (
    "positive: payloads (20 bytes zeros/0xff/random; every witness program length the version allows: 20,32 for v0, 2..40 for "
    "v1..16; contents zeros/ones/random) x networks {mainnet,testnet,regtest} x kinds {p2pkh, p2sh, witness v0..16}: "
    "scriptpubkey(to_bitcoin_address(...)) and scriptpubkey(<address from the reference encoder>) must equal the hand-assembled "
    "template (76 a9 14 h 88 ac / a9 14 h 87 / OP_n push(program)); valid SEC1 keys (both forms) -> push(pk) ac. negative: edit "
    "mutations of valid addresses, checksum-valid Base58Check with each unknown version byte, malformed key buffers (33 bytes "
    "prefix 04, 65 bytes prefix 02/03, off-curve, x>=p, hybrid, bad prefixes), arbitrary bytes: the expectation comes from a "
    "reference classifier (valid SEC1 key | Base58Check with version in {00,6f,05,c4} | valid segwit address); anything else must "
    "raise and never return bytes. Non-trivial: witness version>=1 or program length not in {20,32}; negative near-valid classes."
)
ASSUMPTIONS = ["vf/ref/{base58,bech32,ec,scriptref}.py", "checksum-valid Base58Check with a known version byte but a payload that is not 20 bytes is left unconstrained (the property does not say)"]
SELFCHECKS = [rb58.selfcheck, rbech.selfcheck, ec.selfcheck]

HRP = {"mainnet": "bc", "testnet": "tb", "regtest": "bcrt"}
VER = {("mainnet", "p2pkh"): 0x00, ("testnet", "p2pkh"): 0x6F, ("regtest", "p2pkh"): 0x6F, ("mainnet", "p2sh"): 0x05, ("testnet", "p2sh"): 0xC4, ("regtest", "p2sh"): 0xC4}


def _opn(n):
    return ("op", 0 if n == 0 else 0x50 + n)


def template(kind, payload, witver=None):
    if kind == "p2pkh":
        return sr.assemble([("op", 0x76), ("op", 0xA9), ("data", payload), ("op", 0x88), ("op", 0xAC)])
    if kind == "p2sh":
        return sr.assemble([("op", 0xA9), ("data", payload), ("op", 0x87)])
    if kind == "witness":
        return sr.assemble([_opn(witver), ("data", payload)])
    if kind == "p2pk":
        return sr.assemble([("data", payload), ("op", 0xAC)])
    raise AssertionError(kind)


def classify(data: bytes):
    """Reference classifier -> (kind, expected script | None for unconstrained) or None when the input must be refused."""
    pt = ec.sec1_decode(data)
    if pt is not None:
        return "p2pk", template("p2pk", data)
    payload = rb58.check_decode(data)
    if payload is not None and len(payload) >= 1:
        v = payload[0]
        if v in (0x00, 0x6F):
            return "p2pkh", (template("p2pkh", payload[1:]) if len(payload) == 21 else None)
        if v in (0x05, 0xC4):
            return "p2sh", (template("p2sh", payload[1:]) if len(payload) == 21 else None)
        return None
    try:
        seg = rbech.decode_any(data)
    except Exception:  # noqa: BLE001 - non-decodable bytes
        seg = None
    if seg is not None:
        _, witver, prog = seg
        return "witness", template("witness", prog, witver)
    return None


def check_positive(case):
    import bits
    import bits.script

    kind, net = case["kind"], case["net"]
    payload = bx(case["payload"])
    f = Fails()
    cls = ["nt:program-looks-like-other-input"] if case.get("lookalike") else []
    if case.get("digits"):
        cls.append("nt:address-with-chosen-leading-base58-digits")
    if kind == "witness":
        v = case["witver"]
        want = template("witness", payload, v)
        tag = f"witness/{'v0' if v == 0 else 'v>=1'}/{'len20or32' if len(payload) in (20, 32) else 'other-len'}"
        if v >= 1:
            cls.append("nt:witness-version>=1")
        if len(payload) not in (20, 32):
            cls.append("nt:program-len-not-20-32")
        if v == 1 and len(payload) == 40:
            cls.append("nt:v1-len40")
        if v == 16 and len(payload) == 2:
            cls.append("nt:v16-len2")
        ref_addr = rbech.encode_addr(HRP[net], v, payload)
        lib_addr = attempt(bits.to_bitcoin_address, payload, network=net, witness_version=v)
    else:
        want = template(kind, payload)
        tag = kind
        cls.append("base58-" + kind)
        ref_addr = rb58.check_encode(bytes([VER[(net, kind)]]) + payload)
        lib_addr = attempt(bits.to_bitcoin_address, payload, addr_type=kind, network=net)
    if not cls or all(not c.startswith("nt:") for c in cls):
        if payload in (b"\x00" * len(payload), b"\xff" * len(payload)):
            cls.append("nt:degenerate-payload")
    # the address the library encodes (an encoder failure for short programs is the C06 root cause; reported once here too)
    if f.expect(not raised(lib_addr) and lib_addr == ref_addr, f"address-encode/ne-reference/{tag}", repr(lib_addr)[:120]):
        pass
    # the scriptPubKey for the (reference-encoded, hence valid) address
    spk = attempt(bits.script.scriptpubkey, ref_addr)
    f.expect(not raised(spk) and spk == want, f"scriptpubkey/ne-template/{tag}", f"{spk!r}"[:140])
    return cls, f


def check_key(case):
    import bits.script

    k = case["k"]
    pt = ec.mul(k, ec.G)
    f = Fails()
    cls = ["nt:valid-key"]
    if case.get("edge"):
        # next key whose compressed or uncompressed encoding starts (after the prefix) or ends with an ASCII whitespace
        # byte or NUL: binary data that text-oriented clean-up (strip) would damage
        for _ in range(2000):
            encs = [ec.sec1_encode(pt, True), ec.sec1_encode(pt, False)]
            if any(e[-1] in b"\t\n\x0b\x0c\r \x00" or e[1] in b"\t\n\x0b\x0c\r \x00" for e in encs):
                break
            k = k % (ec.N - 1) + 1
            pt = ec.mul(k, ec.G)
        cls.append("nt:key-bytes-with-whitespace-or-nul-at-an-end")
    if case.get("high") is not None:
        # a valid point with a coordinate between the group order and the field prime
        hp = gen.high_coord_points()
        pt = hp[case["high"] % len(hp)][1]
        cls.append("nt:key-coordinate-in-n..p")
    for comp in (True, False):
        pk = ec.sec1_encode(pt, comp)
        spk = attempt(bits.script.scriptpubkey, pk)
        f.expect(spk == template("p2pk", pk), f"scriptpubkey/p2pk-ne-template/{'c' if comp else 'u'}", repr(spk)[:100])
    return cls, f


def check_negative(case):
    import bits.script

    data = bx(case["data"])
    kind = case.get("kind", "raw")
    exp = classify(data)
    f = Fails()
    cls = ["nt:" + kind]
    if hashlib.sha256(data).digest()[0] & 1:
        # history: the same bytes first go through the library's other readers of such input (BIP173-only segwit
        # decoding, the generic Bech32 decoder with either constant, Base58Check, the SEC1 reader); whatever those
        # remember must not decide what scriptpubkey() then says
        import bits
        import bits.base58
        from bits.bips import bip173

        cls.append("nt:after-other-readers")
        attempt(bits.decode_segwit_addr, data, False)
        for const in (1, 0x2BC830A3):
            attempt(bip173.decode_bech32_string, data, constant=const)
        attempt(bits.base58.base58check_decode, data)
        attempt(bits.point, data)
    got = attempt(bits.script.scriptpubkey, data)
    if exp is None:
        cls.append("expect-refuse")
        f.expect(raised(got), f"scriptpubkey/maps-invalid-input/{kind}", repr(got)[:120])
    else:
        k, want = exp
        cls.append("still-valid-" + k)
        if want is not None:
            f.expect(not raised(got) and got == want, f"scriptpubkey/ne-template/{k}/from-{kind}", repr(got)[:120])
    return cls, f


def _hashes_by_address_digits(version, want, count):
    """20-byte hashes (first byte 0, so that the hash sets the magnitude of a version-0 payload) whose Base58Check
    address, after its leading '1's, starts with the given digits and has an even / odd number of digits left: the
    value's leading Base58 digits are what digit-pair tables and chunked conversions trip over.  Found by search."""
    out, i = [], 0
    while len(out) < count and i < 20000:
        h = b"\x00" + hashlib.sha256(b"C08/digits/%d" % i).digest()[:19]
        a = rb58.check_encode(bytes([version]) + h).lstrip(b"1")
        if a.startswith(want) and len(a) % 2 == len(out) % 2:
            out.append(h)
        i += 1
    return out


def enum_positive(tier):
    nets = ["mainnet", "testnet", "regtest"]
    for want in (b"21", b"2z", b"zz"):
        for h in _hashes_by_address_digits(0, want, 2):
            yield {"kind": "p2pkh", "net": "mainnet", "payload": h.hex(), "digits": 1}
    fills = [("00", "zeros"), ("ff", "ones"), ("a5", "pattern")]
    for net in nets:
        for kind in ("p2pkh", "p2sh"):
            for fill, _ in fills:
                yield {"kind": kind, "net": net, "payload": fill * 20}
        for v in range(17):
            lens = [20, 32] if v == 0 else list(range(2, 41))
            for ln in lens:
                for fill, _ in (fills if tier == "thorough" or ln in (2, 20, 32, 40) else fills[2:]):
                    yield {"kind": "witness", "net": net, "witver": v, "payload": fill * ln}
            if v:
                # programs that look like another kind of input: a compressed public key (33 bytes), an x-only key (32),
                # hex text, text with whitespace at the ends - a program is opaque and must be committed to as it is
                for k in (1, 2, 3):
                    yield {"kind": "witness", "net": net, "witver": v, "payload": ec.sec1_encode(ec.mul(k, ec.G), True).hex(), "lookalike": 1}
                yield {"kind": "witness", "net": net, "witver": v, "payload": ec.G[0].to_bytes(32, "big").hex(), "lookalike": 1}
                yield {"kind": "witness", "net": net, "witver": v, "payload": (b"00ff" * 5).hex(), "lookalike": 1}
                yield {"kind": "witness", "net": net, "witver": v, "payload": (b" " + bytes(range(1, 19)) + b"\n").hex(), "lookalike": 1}


@st.composite
def positive_random(draw):
    net = draw(st.sampled_from(["mainnet", "testnet", "regtest"]))
    kind = draw(st.sampled_from(["p2pkh", "p2sh", "witness", "witness"]))
    if kind == "witness":
        v = draw(st.integers(0, 16))
        ln = draw(st.sampled_from([20, 32])) if v == 0 else draw(st.integers(2, 40))
        return {"kind": kind, "net": net, "witver": v, "payload": draw(st.binary(min_size=ln, max_size=ln)).hex()}
    return {"kind": kind, "net": net, "payload": draw(st.binary(min_size=20, max_size=20)).hex()}


@st.composite
def negative_cases(draw):
    kind = draw(st.sampled_from(["script-shaped", "key-as-text", "raw", "mut-b58", "mut-segwit", "unknown-b58-version", "pk-wrong-len-for-prefix", "pk-off-curve", "pk-x>=p", "pk-hybrid", "pk-bad-prefix", "b58-no-checksum", "segwit-wrong-hrp", "segwit-bad-proglen", "segwit-bad-proglen", "segwit-wrong-const", "segwit-bad-version", "segwit-nonzero-pad", "segwit-overlong-pad", "pk-coord-aliased", "b58-no-version", "segwit-mixed-case"]))
    if kind == "segwit-mixed-case":
        # a valid address with the case rule broken: whole HRP in one case and whole data part in the other, or one letter flipped
        v = draw(st.integers(0, 16))
        ln = draw(st.sampled_from([20, 32])) if v == 0 else draw(st.integers(2, 40))
        a = rbech.encode_addr(draw(st.sampled_from(["bc", "tb", "bcrt"])), v, draw(st.binary(min_size=ln, max_size=ln)))
        a = a if isinstance(a, bytes) else a.encode()
        sep = a.rindex(b"1")
        how = draw(st.sampled_from(["HRP", "DATA", "one"]))
        if how == "HRP":
            a = a[:sep].upper() + a[sep:]
        elif how == "DATA":
            a = a[: sep + 1] + a[sep + 1 :].upper()
        else:
            letters = [i for i, c in enumerate(a) if chr(c).isalpha()]
            i = letters[draw(st.integers(0, len(letters) - 1))]
            a = a[:i] + a[i : i + 1].upper() + a[i + 1 :]
        return {"kind": kind, "data": a.hex()}
    if kind == "script-shaped":
        # bytes that already ARE an output script (what scriptpubkey() returns for a key or an address, also witness
        # programs of any version and length): neither a public key nor an address, so there is nothing to map them to
        h20, h32 = draw(st.binary(min_size=20, max_size=20)), draw(st.binary(min_size=32, max_size=32))
        pk = ec.sec1_encode(ec.pub(draw(gen.scalars_valid())), draw(st.booleans()))
        n = draw(st.integers(2, 40))
        prog = (h32 + h20)[:n]
        data = draw(st.sampled_from([
            bytes.fromhex("76a914") + h20 + bytes.fromhex("88ac"), bytes.fromhex("a914") + h20 + b"\x87", b"\x00\x14" + h20, b"\x00\x20" + h32, b"\x51\x20" + h32,
            bytes([len(pk)]) + pk + b"\xac", bytes([draw(st.sampled_from([0x00, 0x51, 0x52, 0x60])), n]) + prog, bytes.fromhex("6a24aa21a9ed") + h32,
        ]))
        return {"kind": kind, "data": data.hex()}
    if kind == "key-as-text":
        # the hexadecimal TEXT of a valid public key (66 or 130 characters, either case): text, not a SEC1 key
        pk = ec.sec1_encode(ec.pub(draw(gen.scalars_valid())), draw(st.booleans()))
        t = pk.hex()
        t = draw(st.sampled_from([t, t.upper(), "0x" + t, t + "\n"]))
        return {"kind": kind, "data": t.encode().hex()}
    if kind == "b58-no-version":
        # checksum-valid Base58Check strings too short to hold a known version byte: the empty payload (b"3QJmnh"),
        # or a single unknown version byte with nothing behind it
        body = draw(st.sampled_from([b"", b""]) | st.integers(0, 255).filter(lambda v: v not in (0x00, 0x6F, 0x05, 0xC4)).map(lambda v: bytes([v])))
        return {"kind": kind, "data": rb58.check_encode(body).hex()}
    if kind == "raw":
        return {"kind": kind, "data": draw(gen.sized_binary(100)).hex()}
    if kind in ("mut-b58", "unknown-b58-version", "b58-no-checksum"):
        payload = draw(st.binary(min_size=20, max_size=20))
        ver = draw(st.sampled_from([0x00, 0x6F, 0x05, 0xC4]))
        if kind == "unknown-b58-version":
            ver = draw(st.integers(0, 255).filter(lambda v: v not in (0x00, 0x6F, 0x05, 0xC4)))
        if kind == "b58-no-checksum":
            return {"kind": kind, "data": rb58.encode(bytes([ver]) + payload + draw(st.binary(min_size=4, max_size=4))).hex()}
        s = rb58.check_encode(bytes([ver]) + payload)
        if kind == "mut-b58":
            s, _ = draw(gen.edit_mutation(s, rb58.ALPHABET.encode(), b"0OIl ", max_edits=2))
        return {"kind": kind, "data": s.hex()}
    if kind in ("mut-segwit", "segwit-wrong-hrp"):
        v = draw(st.integers(0, 16))
        ln = draw(st.sampled_from([20, 32])) if v == 0 else draw(st.integers(2, 40))
        prog = draw(st.binary(min_size=ln, max_size=ln))
        if kind == "segwit-wrong-hrp":
            hrp = draw(st.sampled_from(["ltc", "b", "bcr", "tbb", "BC1"]))
            spec = rbech.BECH32 if v == 0 else rbech.BECH32M
            return {"kind": kind, "data": rbech.raw_encode(hrp.lower(), [v] + rbech.to5(prog), spec).hex()}
        s = rbech.encode_addr(draw(st.sampled_from(["bc", "tb", "bcrt"])), v, prog)
        s, _ = draw(gen.edit_mutation(s, rbech.CHARSET.encode(), b"1bio B", max_edits=2))
        return {"kind": kind, "data": s.hex()}
    if kind == "pk-coord-aliased":
        # 04 || (c+p) || y (or x || (c+p)) where the reduced coordinates ARE a curve point: only an explicit "< p" test refuses it
        c = draw(st.integers(0, 2**32 + 700))
        which = draw(st.sampled_from(["x", "y"]))
        for _ in range(200):
            if which == "x":
                y = ec.sqrt_mod((c * c * c + 7) % P)
                if y is not None:
                    y = draw(st.sampled_from([y, P - y]))
                    return {"kind": kind, "data": (b"\x04" + (c + P).to_bytes(32, "big") + y.to_bytes(32, "big")).hex()}
            else:
                a = (c * c - 7) % P
                x = pow(a, (P + 2) // 9, P)
                if pow(x, 3, P) == a:
                    return {"kind": kind, "data": (b"\x04" + x.to_bytes(32, "big") + (c + P).to_bytes(32, "big")).hex()}
            c += 1
        return {"kind": "raw", "data": ""}
    if kind.startswith("segwit-"):
        # valid characters, known HRP and a CORRECT checksum, but a BIP141/173/350 rule broken
        hrp = draw(st.sampled_from(["bc", "tb", "bcrt"]))
        v = draw(st.integers(0, 16))
        if kind == "segwit-bad-proglen":
            if v == 0 and draw(st.booleans()):
                ln = draw(st.integers(2, 40).filter(lambda n: n not in (20, 32)))
            else:
                ln = draw(st.sampled_from([0, 1, 41, 42]))
            prog = draw(st.binary(min_size=ln, max_size=ln))
            data5 = [v] + rbech.to5(prog)
            spec = rbech.BECH32 if v == 0 else rbech.BECH32M
        elif kind == "segwit-wrong-const":
            ln = draw(st.sampled_from([20, 32]))
            prog = draw(st.binary(min_size=ln, max_size=ln))
            data5 = [v] + rbech.to5(prog)
            spec = rbech.BECH32M if v == 0 else rbech.BECH32
        elif kind == "segwit-bad-version":
            v = draw(st.integers(17, 31))
            prog = draw(st.binary(min_size=20, max_size=20))
            data5 = [v] + rbech.to5(prog)
            spec = rbech.BECH32M
        elif kind == "segwit-overlong-pad":
            # one or two surplus all-zero groups before the checksum: 5 or more padding bits (BIP173: at most 4)
            ln = draw(st.sampled_from([20, 32] if v == 0 else [2, 3, 10, 13, 18, 20, 32, 40]))
            prog = draw(st.binary(min_size=ln, max_size=ln))
            data5 = [v] + rbech.to5(prog) + [0] * draw(st.sampled_from([1, 1, 2]))
            spec = rbech.BECH32 if v == 0 else rbech.BECH32M
        else:  # non-zero padding bits
            ln = draw(st.sampled_from([20, 32] if v == 0 else [2, 3, 20, 32, 38]))
            prog = draw(st.binary(min_size=ln, max_size=ln))
            d5 = rbech.to5(prog)
            if (ln * 8) % 5:
                d5[-1] |= 1
            data5 = [v] + d5
            spec = rbech.BECH32 if v == 0 else rbech.BECH32M
        sdata = rbech.raw_encode(hrp, data5, spec)
        if draw(st.booleans()):
            sdata = sdata.upper()
        return {"kind": kind, "data": sdata.hex()}
    pt = ec.mul(draw(gen.scalars_valid()), ec.G)
    x, y = pt
    if kind == "pk-wrong-len-for-prefix":
        how = draw(st.sampled_from(["65-with-02", "33-with-04", "34", "64", "66", "32", "no-prefix-64", "no-prefix-64", "no-prefix-32"]))
        if how == "65-with-02":
            b = bytes([2 + (y & 1)]) + x.to_bytes(32, "big") + draw(st.sampled_from([y.to_bytes(32, "big"), bytes(32)]))
        elif how == "33-with-04":
            b = b"\x04" + x.to_bytes(32, "big")
        elif how == "34":
            b = ec.sec1_encode(pt, True) + b"\x00"
        elif how == "no-prefix-64":  # the bare x || y other libraries hand out: a point's coordinates, but not SEC1
            b = ec.sec1_encode(pt, False)[1:]
        elif how == "no-prefix-32":
            b = ec.sec1_encode(pt, True)[1:]
        elif how == "64":
            b = ec.sec1_encode(pt, False)[:-1]
        elif how == "66":
            b = ec.sec1_encode(pt, False) + b"\x00"
        else:
            b = ec.sec1_encode(pt, True)[:-1]
    elif kind == "pk-off-curve":
        b = b"\x04" + x.to_bytes(32, "big") + ((y + draw(st.integers(1, 9))) % P).to_bytes(32, "big")
    elif kind == "pk-x>=p":
        b = bytes([2 + draw(st.integers(0, 1))]) + (P + draw(st.integers(0, 1000))).to_bytes(32, "big")
    elif kind == "pk-hybrid":
        b = bytes([6 + (y & 1)]) + x.to_bytes(32, "big") + y.to_bytes(32, "big")
    else:
        b = bytearray(ec.sec1_encode(pt, draw(st.booleans())))
        b[0] = draw(st.sampled_from([0, 1, 5, 8, 0xFF]))
        b = bytes(b)
    return {"kind": kind, "data": b.hex()}


def _targets(tier):
    return [
        Target("positive", check_positive, enumerate_=enum_positive, required=["nt:v1-len40", "nt:v16-len2", "nt:witness-version>=1", "nt:program-len-not-20-32", "nt:program-looks-like-other-input", "nt:address-with-chosen-leading-base58-digits"]),
        Target("positive-random", check_positive, strategy=lambda tier: positive_random(), budget={"quick": 3000, "thorough": 60000}),
        Target("keys", check_key, strategy=lambda tier: st.fixed_dictionaries({"k": gen.scalars_valid(), "high": st.sampled_from([None] * 7 + list(range(15))), "edge": st.sampled_from([False, False, True])}), budget={"quick": 400, "thorough": 8000},
               required=["nt:key-bytes-with-whitespace-or-nul-at-an-end", "nt:key-coordinate-in-n..p"]),
        Target("negative", check_negative, strategy=lambda tier: negative_cases(), budget={"quick": 5000, "thorough": 100000},
               required=["nt:pk-wrong-len-for-prefix", "nt:unknown-b58-version", "nt:mut-segwit", "nt:mut-b58", "nt:pk-hybrid", "expect-refuse",
                         "nt:segwit-bad-proglen", "nt:segwit-wrong-const", "nt:segwit-bad-version", "nt:segwit-nonzero-pad", "nt:segwit-overlong-pad", "nt:pk-coord-aliased", "nt:b58-no-version", "nt:segwit-mixed-case", "nt:script-shaped", "nt:key-as-text"]),
    ]


def targets(tier):
    ts = _targets(tier)
    if tier == "thorough":
        # coverage-guided add-on (atheris/libFuzzer through Hypothesis' fuzz_one_input); skipped with a class label if atheris is missing
        from vf import fuzz

        for name in ['negative']:
            ts.append(fuzz.campaign_target(PROPERTY, name, campaigns=16, runs=20000))
    return ts
