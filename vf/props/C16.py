"""C16 — send utility conserves value and produces validly signed transactions."""
import hashlib
import json
from fractions import Fraction

from hypothesis import strategies as st

from vf.core import INTERNAL_ERRORS, Fails, Target, attempt, bx, hx, raised
from vf.ref import base58 as rb58
from vf.ref import bech32 as rbech
from vf.ref import der, ec
from vf.ref import scriptref as sr
from vf.ref import txref

PROPERTY = "C16"
LEVEL = "exploration"
N = ec.N
RULE = (
    "Scripted scantxoutset results (1..6 UTXOs, random txids, vout 0..5 independent of position, satoshi amounts from "
    "{1000, 2999, 29000000 and other values whose 8-decimal float image mis-rounds under int(x*1e8), 21e14} | 546..21e14, rendered "
    "exactly as a node's JSON floats) x sender kinds {p2pk c/u, p2pkh c/u, bare multisig, p2sh multisig, p2wpkh, p2wsh, "
    "p2sh-p2wpkh, p2sh-p2wsh; m-of-n in 1..3} x recipient kinds {pubkey, p2pkh, p2sh, p2wpkh, p2wsh, v1 program, raw script} x "
    "change address present/absent x send_fraction {1, .5, .1, 1/3, random} x fee x version 1/2 x locktime x six flags x "
    "signed/unsigned. Oracle on the returned bytes (reference parser): inputs are distinct reported outpoints covering the "
    "amount; recipient value + fee in {floor(fT), ceil(fT)} (T exact satoshi sum; == T when f=1) paid to the reference "
    "scriptPubKey; outputs + fee + dropped sub-dust change == exact input sum; version/locktime as requested; signed cases: every "
    "input evaluates to true under a reference script interpreter with the reference legacy/BIP143 sighash and ECDSA verifier, "
    "signatures strict DER, low-S, ending in the requested flag. An exception from send_tx is a refusal (counted, not a "
    "violation) unless it is an internal-error type on a must-build combination. Non-trivial: >1 input, vout != position, "
    "flag != ALL, non-default version/locktime, or a mis-rounding amount."
)
ASSUMPTIONS = [
    "vf/ref/txref.py sighashes (validated on the BIP143 example incl. a real P2PK legacy signature), vf/ref/scriptref.py interpreter subset, vf/ref/ec.py",
    "refusals (any exception from send_tx) are not failures except internal-error exception types on combinations in the must-build table",
    "dust threshold: a change output is never required or forbidden at exactly the threshold; only conservation is asserted",
]
SELFCHECKS = [txref.selfcheck, ec.selfcheck, sr.selfcheck, rb58.selfcheck]

FLAGS = [0x01, 0x02, 0x03, 0x81, 0x82, 0x83]
LEGACY = ("p2pk", "p2pkh", "multisig", "p2sh")
SEGWIT = ("p2wpkh", "p2wsh", "p2sh-p2wpkh", "p2sh-p2wsh")
WIF_TYPES = ["p2pkh", "p2wpkh", "p2sh-p2wpkh", "p2pk", "multisig", "p2sh", "p2wsh", "p2sh-p2wsh"]


def h160(b):
    return hashlib.new("ripemd160", hashlib.sha256(b).digest()).digest()


def wif(key: int, typ: str, data: bytes = b"") -> bytes:
    """regtest WIF built by the reference Base58Check (same layout the integration tests produce with bits.wif_encode)."""
    return rb58.check_encode(bytes([0xEF + WIF_TYPES.index(typ)]) + key.to_bytes(32, "big") + data)


def _opn(n):
    return ("op", 0x50 + n)


def multisig_script(m, pubkeys):
    return sr.assemble([_opn(m)] + [("data", k) for k in pubkeys] + [_opn(len(pubkeys)), ("op", 0xAE)])


def p2sh_addr(script):
    return rb58.check_encode(b"\xc4" + h160(script))


def build_sender(s):
    """-> dict(addr, spk, wifs, family, kind)"""
    kind = s["kind"]
    keys = s["keys"]
    comp = s.get("comp", True)
    pubs = [ec.sec1_encode(ec.pub(k), comp if kind in ("p2pk", "p2pkh", "multisig", "p2sh") else True) for k in keys]
    m = s.get("m", 1)
    if kind == "p2pk":
        return dict(addr=pubs[0], spk=sr.assemble([("data", pubs[0]), ("op", 0xAC)]), wifs=[wif(keys[0], "p2pk")])
    if kind == "p2pkh":
        h = h160(pubs[0])
        spk = sr.assemble([("op", 0x76), ("op", 0xA9), ("data", h), ("op", 0x88), ("op", 0xAC)])
        return dict(addr=rb58.check_encode(b"\x6f" + h), spk=spk, wifs=[wif(keys[0], "p2pkh", b"\x01" if comp else b"")])
    if kind == "multisig":
        ms = multisig_script(m, pubs)
        return dict(addr=ms, spk=ms, wifs=[wif(k, "multisig") for k in keys[:m]])
    if kind == "p2sh":
        ms = multisig_script(m, pubs)
        return dict(addr=p2sh_addr(ms), spk=sr.assemble([("op", 0xA9), ("data", h160(ms)), ("op", 0x87)]), wifs=[wif(k, "p2sh", ms) for k in keys[:m]])
    if kind == "p2wpkh":
        h = h160(pubs[0])
        return dict(addr=rbech.encode_addr("bcrt", 0, h), spk=b"\x00\x14" + h, wifs=[wif(keys[0], "p2wpkh")])
    if kind == "p2wsh":
        ws = multisig_script(m, pubs)
        prog = hashlib.sha256(ws).digest()
        return dict(addr=rbech.encode_addr("bcrt", 0, prog), spk=b"\x00\x20" + prog, wifs=[wif(k, "p2wsh", ws) for k in keys[:m]])
    if kind == "p2sh-p2wpkh":
        redeem = b"\x00\x14" + h160(pubs[0])
        return dict(addr=p2sh_addr(redeem), spk=sr.assemble([("op", 0xA9), ("data", h160(redeem)), ("op", 0x87)]), wifs=[wif(keys[0], "p2sh-p2wpkh", redeem)])
    if kind == "p2sh-p2wsh":
        ws = multisig_script(m, pubs)
        redeem = b"\x00\x20" + hashlib.sha256(ws).digest()
        return dict(addr=p2sh_addr(redeem), spk=sr.assemble([("op", 0xA9), ("data", h160(redeem)), ("op", 0x87)]), wifs=[wif(k, "p2sh-p2wsh", ws) for k in keys[:m]])
    raise AssertionError(kind)


def build_recipient(r):
    """-> (addr bytes given to send_tx, expected scriptPubKey or None when the kind is one the library refuses)"""
    kind = r["kind"]
    body = bx(r["body"])
    if kind == "pubkey":
        pk = ec.sec1_encode(ec.pub(r["key"]), r.get("comp", True))
        return pk, sr.assemble([("data", pk), ("op", 0xAC)])
    if kind == "p2pkh":
        return rb58.check_encode(b"\x6f" + body[:20]), sr.assemble([("op", 0x76), ("op", 0xA9), ("data", body[:20]), ("op", 0x88), ("op", 0xAC)])
    if kind == "p2sh":
        return rb58.check_encode(b"\xc4" + body[:20]), sr.assemble([("op", 0xA9), ("data", body[:20]), ("op", 0x87)])
    if kind == "p2wpkh":
        return rbech.encode_addr("bcrt", 0, body[:20]), b"\x00\x14" + body[:20]
    if kind == "p2wsh":
        return rbech.encode_addr("bcrt", 0, body[:32]), b"\x00\x20" + body[:32]
    if kind == "v1":
        return rbech.encode_addr("bcrt", 1, body[:32]), b"\x51\x20" + body[:32]
    if kind == "raw":
        return sr.assemble([("op", 0x51), ("data", body[:20]), ("op", 0x87)]), None
    raise AssertionError(kind)


def btc_float(sat: int) -> float:
    """The float a node's JSON carries for this many satoshis."""
    return json.loads("%d.%08d" % divmod(sat, 10**8))


def misrounds(sat: int) -> bool:
    return int(btc_float(sat) * 1e8) != sat


# ---------------------------------------------------------------- reference evaluation of one input


def _is_wit(script):
    return len(script) in (22, 34) and script[0] == 0 and script[1] == len(script) - 2


def _is_p2sh(script):
    return len(script) == 23 and script[0] == 0xA9 and script[1] == 0x14 and script[22] == 0x87


def verify_input(tx, idx, spk, amount, flag, notes):
    """True iff input idx of reference tx satisfies spk under the reference rules. notes collects canonicality issues."""
    inp = tx["ins"][idx]

    def mk(mode, script_code=None):
        def checksig(sig, pk, script):
            if len(sig) < 9:
                return False
            ht = sig[-1]
            if ht != flag:
                notes.append("sighash-byte-ne-requested")
            rs = der.decode_strict(sig[:-1])
            if rs is None:
                notes.append("sig-not-strict-der")
                rs = der.decode_lenient(sig[:-1])
                if rs is None:
                    return False
            if rs[1] > N // 2:
                notes.append("sig-high-s")
            pt = ec.sec1_decode(pk)
            if pt is None:
                return False
            if mode == "legacy":
                z = txref.legacy_sighash(tx, idx, script, ht)
            else:
                z = txref.bip143_sighash(tx, idx, script_code, amount, ht)
            return ec.ecdsa_verify(pt, int.from_bytes(z, "big"), rs[0], rs[1])

        return checksig

    def exec_witness(prog, witness):
        if len(prog) == 20:
            if len(witness) != 2 or h160(witness[1]) != prog:
                return False
            code = sr.assemble([("op", 0x76), ("op", 0xA9), ("data", prog), ("op", 0x88), ("op", 0xAC)])
            st_ = sr.run(code, list(witness), mk("segwit", code))
        else:
            if not witness or hashlib.sha256(witness[-1]).digest() != prog:
                return False
            ws = witness[-1]
            st_ = sr.run(ws, list(witness[:-1]), mk("segwit", ws))
        return len(st_) == 1 and sr._truthy(st_[-1])

    try:
        toks = sr.tokenize(inp["script"])
        if any(t[0] != "push" and t[1] != 0 for t in toks):
            notes.append("scriptsig-not-push-only")
        stack = sr.run(inp["script"], [], mk("legacy"))
        if _is_wit(spk):
            if inp["script"]:
                return False
            return exec_witness(spk[2:], inp["witness"])
        if _is_p2sh(spk):
            st2 = sr.run(spk, list(stack), mk("legacy"))
            if not (st2 and sr._truthy(st2[-1])) or not stack:
                return False
            redeem = stack[-1]
            if _is_wit(redeem):
                if inp["script"] != sr.push(redeem):
                    return False
                return exec_witness(redeem[2:], inp["witness"])
            st3 = sr.run(redeem, list(stack[:-1]), mk("legacy"))
            return bool(st3) and sr._truthy(st3[-1])
        st4 = sr.run(spk, list(stack), mk("legacy"))
        return bool(st4) and sr._truthy(st4[-1])
    except (sr.ScriptError, ValueError, IndexError):
        return False


# ---------------------------------------------------------------- the check


def check(case):
    import bits.rpc
    import bits.tx

    s = build_sender(case["sender"])
    kind = case["sender"]["kind"]
    family = "legacy" if kind in LEGACY else "segwit"
    raddr, rspk = build_recipient(case["recipient"])
    change = case.get("change")
    caddr, cspk = (build_recipient(change) if change else (None, None))
    utxos = case["utxos"]
    sats = [u["sat"] for u in utxos]
    T = sum(sats)
    frac = case["fraction"]
    fee = case["fee"]
    version, locktime, flag = case["version"], case["locktime"], case["flag"]
    signed = case["signed"]
    result = {
        "success": True,
        "txouts": len(utxos),
        "total_amount": btc_float(T),
        "unspents": [{"txid": u["txid"], "vout": u["vout"], "scriptPubKey": s["spk"].hex(), "amount": btc_float(u["sat"]), "height": 100 + i} for i, u in enumerate(utxos)],
    }
    seen = []

    def rpc(method, *params, **kw):
        seen.append((method, params))
        if method == "scantxoutset":
            return json.loads(json.dumps(result))
        raise AssertionError("unexpected rpc " + method)

    cls = [f"sender:{kind}", f"recipient:{case['recipient']['kind']}", "signed" if signed else "unsigned"]
    if any(misrounds(x) for x in sats) or misrounds(T):
        cls.append("nt:float-misround")
    if any(u["vout"] != i for i, u in enumerate(utxos)):
        cls.append("nt:vout!=idx")
    if len({u["txid"] for u in utxos}) < len(utxos):
        cls.append("nt:outputs-of-same-tx")
    if flag != 1 and signed:
        cls.append("nt:flag!=ALL")
    if version != 1 or locktime != 0:
        cls.append("nt:non-default-version-locktime")
    f = Fails()
    saved = bits.rpc.rpc_method
    bits.rpc.rpc_method = rpc
    try:
        kwargs = dict(change_addr=caddr, sender_keys=list(s["wifs"]) if signed else [], sighash_flag=flag if signed else None,
                      send_fraction=frac, miner_fee=fee, version=version, locktime=locktime, rpc_url="http://stub")
        if (T + len(utxos)) % 3 == 0:
            # history: the same sender first sends (unsigned, to itself) from ANOTHER set of unspent outputs - what a wallet
            # does between two blocks; nothing of that scan or transaction may show in the call under test
            keep = json.loads(json.dumps(result))
            other = [{"txid": hashlib.sha256(bytes.fromhex(u["txid"])).hexdigest(), "vout": u["vout"] + 1, "scriptPubKey": s["spk"].hex(),
                      "amount": btc_float(u["sat"] // 2 + 1000), "height": 99} for u in utxos[:1] + utxos]
            result.update(txouts=len(other), total_amount=btc_float(sum(round(o["amount"] * 10**8) for o in other)), unspents=other)
            attempt(bits.tx.send_tx, s["addr"], s["addr"], sender_keys=[], send_fraction=0.5, miner_fee=500, rpc_url="http://stub")
            result.clear()
            result.update(keep)
            del seen[:]
            cls.append("nt:after-send-from-other-utxo-set")
        got = attempt(bits.tx.send_tx, s["addr"], raddr, **kwargs)
    finally:
        bits.rpc.rpc_method = saved
    exact = Fraction(frac) * T
    lo, hi = exact.numerator // exact.denominator, -((-exact.numerator) // exact.denominator)
    # must-build: a combination the integration tests demonstrate, with funds that cover the fee
    must_build = rspk is not None and (cspk is not None or (change is None and kind != "multisig")) and lo >= fee + 1
    if raised(got):
        cls.append("refused")
        if must_build and got.kind in INTERNAL_ERRORS:
            f.add(f"crash-on-supported-input/{got.kind}/{family}/{'signed' if signed else 'unsigned'}", got)
        elif must_build:
            cls.append("refused-supported")
        return cls, f
    cls.append(f"built:{kind}")
    try:
        tx, end = txref.parse(got)
        assert end == len(got)
    except Exception as e:  # noqa: BLE001
        f.add("structure/unparseable-transaction", repr(e))
        return cls, f
    n_in = len(tx["ins"])
    if n_in >= 2:
        cls.append("nt:n_in>=2")
    # 1. structure
    reported = {(bytes.fromhex(u["txid"])[::-1], u["vout"]): u["sat"] for u in utxos}
    ops = [(i["txid"], i["vout"]) for i in tx["ins"]]
    if not f.expect(all(o in reported for o in ops), "structure/input-not-a-reported-utxo", ops[:2]):
        return cls, f
    f.expect(len(set(ops)) == len(ops), "structure/duplicate-input")
    f.expect(tx["version"] == version and tx["locktime"] == locktime, "structure/version-or-locktime-ne-requested", f"{tx['version']},{tx['locktime']}")
    # 2. value
    I = sum(reported[o] for o in ops)
    outs = tx["outs"]
    mis = "float-misround" if "nt:float-misround" in cls else "exact-floats"
    if f.expect(1 <= len(outs) <= 2, "value/output-count", len(outs)):
        rec = outs[0]
        f.expect(rspk is None or rec["script"] == rspk, "value/recipient-script-ne-reference", rec["script"].hex())
        f.expect(rec["value"] + fee in (lo, hi), f"value/recipient-amount-ne-requested-minus-fee/{mis}", f"value={rec['value']} fee={fee} requested in [{lo},{hi}] T={T} f={frac}")
        f.expect(I >= rec["value"] + fee, "value/inputs-do-not-cover-amount", f"I={I}")
        total_out = sum(o["value"] for o in outs)
        dropped = I - total_out - fee
        if len(outs) == 2:
            want_c = cspk if change else s["spk"]
            f.expect(outs[1]["script"] == want_c, "value/change-script-ne-reference", outs[1]["script"].hex())
            f.expect(dropped == 0, f"value/outputs+fee-ne-inputs/{mis}", f"I={I} outputs={total_out} fee={fee}")
        else:
            f.expect(0 <= dropped < 1000, f"value/outputs+fee+subdust-ne-inputs/{mis}", f"I={I} outputs={total_out} fee={fee} dropped={dropped}")
    # 3. validity
    if signed:
        bad = []
        notes = []
        for idx, o in enumerate(ops):
            if not verify_input(tx, idx, s["spk"], reported[o], flag, notes):
                bad.append(idx)
        base = flag & 0x1F
        fclass = "ALL" if flag == 1 else ("ACP-only" if flag == 0x81 else "NONE-SINGLE")
        cls.append(f"nt:sign/{family}/{'n_in>=2' if n_in >= 2 else 'n_in=1'}/{fclass}")
        if base == 3 and n_in > len(outs):
            cls.append(f"nt:sign/{family}/single-with-input-index-beyond-outputs")
        if bad:
            f.add(f"input-invalid/{family}/{'n_in>=2' if n_in >= 2 else 'n_in=1'}/{fclass}", f"{kind}: inputs {bad} of {n_in} do not satisfy their scriptPubKey (flag {flag:#x}, version {version}, locktime {locktime})")
        for n in sorted(set(notes)):
            f.add(f"signature-canonical/{n}/{family}", kind)
    else:
        f.expect(all(not i["script"] and not i["witness"] for i in tx["ins"]), "structure/unsigned-tx-carries-unlocking-data")
    return cls, f


# ---------------------------------------------------------------- generator

MISROUND = [29000000, 2999, 57000000, 58000000, 113000000, 114000000, 1000, 2100000000000000, 10000001, 545, 546]


@st.composite
def cases(draw, signed=None, kinds=None):
    kind = draw(st.sampled_from(list(kinds or LEGACY + SEGWIT)))
    n = draw(st.integers(1, 3)) if kind in ("multisig", "p2sh", "p2wsh", "p2sh-p2wsh") else 1
    m = draw(st.integers(1, n))
    if kind == "p2sh" and draw(st.integers(0, 2)) == 0:
        n, m = 3, 2  # scriptSig of 252..254 bytes with compressed keys: the CompactSize boundary inside a signed transaction
    keys = [draw(st.integers(1, 2**64)) for _ in range(n)]
    sender = {"kind": kind, "keys": keys, "m": m, "comp": draw(st.booleans())}
    rk = draw(st.sampled_from(["pubkey", "p2pkh", "p2sh", "p2wpkh", "p2wsh", "v1", "raw"]))
    recipient = {"kind": rk, "body": draw(st.binary(min_size=32, max_size=32)).hex(), "key": draw(st.integers(1, 2**32)), "comp": draw(st.booleans())}
    change = None
    if draw(st.booleans()) or kind == "multisig" and draw(st.integers(0, 3)):
        change = {"kind": draw(st.sampled_from(["p2pkh", "p2wpkh", "p2sh", "pubkey"])), "body": draw(st.binary(min_size=32, max_size=32)).hex(), "key": draw(st.integers(1, 2**32)), "comp": True}
    nu = draw(st.sampled_from([1, 1, 2, 2, 3, 4, 6]))
    utxos = []
    share = draw(st.sampled_from(["distinct", "distinct", "same-tx", "mixed"]))
    for i in range(nu):
        sat = draw(st.one_of(st.sampled_from(MISROUND), st.integers(546, 10**9), st.integers(546, 21 * 10**14 // 8)))
        # the whole UTXO set stays within the money supply (21e14 sat): beyond it a node's 8-decimal float amounts
        # are no longer exactly recoverable, and such a set cannot exist
        room = 21 * 10**14 - sum(u["sat"] for u in utxos) - 546 * (nu - i - 1)
        sat = max(546, min(sat, room))
        txid = hashlib.sha256(draw(st.binary(min_size=4, max_size=4)) + bytes([i])).hexdigest()
        shape = draw(st.sampled_from(["plain"] * 6 + ["lead0", "trail0", "palindrome"]))
        if shape == "lead0":  # leading zero bytes in RPC (display) order, the usual look of a block-hash-like id
            txid = "0000" + txid[4:]
        elif shape == "trail0":
            txid = txid[:-4] + "0000"
        elif shape == "palindrome":  # byte order cannot be told apart: both orders must work anyway
            txid = txid[:32] + "".join(reversed([txid[j : j + 2] for j in range(0, 32, 2)]))
        if utxos and (share == "same-tx" or (share == "mixed" and draw(st.booleans()))):
            txid = utxos[draw(st.integers(0, len(utxos) - 1))]["txid"]  # another output of an already listed transaction
        used = {u["vout"] for u in utxos if u["txid"] == txid}
        free = [v for v in range(0, 8) if v not in used]
        vout = draw(st.sampled_from(free[:6]))
        if i not in used and draw(st.integers(0, 2)) == 0:
            vout = i
        utxos.append({"txid": txid, "vout": vout, "sat": sat})
    frac = draw(st.sampled_from([1.0, 1.0, 0.5, 0.1, 1 / 3, 0.9999]) | st.floats(min_value=0.01, max_value=1.0, allow_nan=False))
    is_signed = draw(st.booleans()) if signed is None else signed
    return {
        "sender": sender,
        "recipient": recipient,
        "change": change,
        "utxos": utxos,
        "fraction": frac,
        "fee": draw(st.sampled_from([0, 1, 500, 1000]) | st.integers(0, 100000)),
        "version": draw(st.sampled_from([1, 1, 2])),
        "locktime": draw(st.sampled_from([0, 0, 1, 500000000, 0xFFFFFFFF])),
        "flag": draw(st.sampled_from([1, 1, 1] + FLAGS)),
        "signed": is_signed,
    }


def targets(tier):
    built = [f"built:{k}" for k in LEGACY + SEGWIT]
    return [
        Target("signed", check, strategy=lambda tier: cases(signed=True), budget={"quick": 960, "thorough": 12000},
               required=built + ["nt:n_in>=2", "nt:vout!=idx", "nt:float-misround", "nt:flag!=ALL", "nt:non-default-version-locktime", "nt:outputs-of-same-tx", "nt:after-send-from-other-utxo-set"]
               + [f"nt:sign/{fam}/{n}/{fc}" for fam in ("legacy", "segwit") for n in ("n_in=1", "n_in>=2") for fc in ("ALL", "ACP-only", "NONE-SINGLE")]
               + ["nt:sign/legacy/single-with-input-index-beyond-outputs", "nt:sign/segwit/single-with-input-index-beyond-outputs"]),
        Target("unsigned", check, strategy=lambda tier: cases(signed=False), budget={"quick": 1600, "thorough": 30000},
               required=["nt:n_in>=2", "nt:float-misround", "refused", "nt:after-send-from-other-utxo-set"]),
    ]
