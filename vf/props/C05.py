"""C05 — transaction (de)serialisation is a lossless round trip; CompactSize is canonical and total on [0, 2^64-1]."""
import copy
from hypothesis import strategies as st

from vf import gen_tx
from vf.core import Fails, Target, attempt, bx, hx, raised, seq
from vf.ref import txref

PROPERTY = "C05"
LEVEL = "exploration"
RULE = (
    "tx-roundtrip: transactions from a grammar built by construction (n_in/n_out in 1..3 or 252/253/254/300; script and witness "
    "item lengths over {0,1,75,76,252,253,255,256,520,65535,65536,70000}+-1; witness stacks of 0..5 (rarely 252/253/260) items, "
    "at least one non-empty stack when segwit; full-range version/locktime/sequence/value) x trailing bytes; oracle: independent "
    "serializer/parser (vf/ref/txref.py): build==reference bytes, deser returns exactly the fields and the trailing bytes, "
    "re-serialising parsed fields reproduces the bytes. compactsize: every integer in [0, 2^16+2], 2^k-2..2^k+2 for k<=64, "
    "generated 64-bit ints, each with trailing bytes; out-of-range integers must raise. Non-trivial: a count/length >= 253, an "
    "empty witness stack, a witness item of 0 or >= 253 bytes, non-empty trailing data, or a CompactSize width boundary."
)
ASSUMPTIONS = [
    "vf/ref/txref.py (validated on the genesis coinbase, the BIP143 example incl. a real signature) is a correct BIP144 serializer",
    "only well-formed transactions are generated; behaviour on malformed or non-canonical serialisations is not asserted",
]
SELFCHECKS = [txref.selfcheck]

PRIORITY = ["wit-empty-stack", "wit-count>=253", "wit-item>=253", "wit-item-0", "n_in>=253", "n_out>=253", "script>=253", "segwit"]


def _primary(feats):
    for p in PRIORITY:
        if p in feats:
            return p
    return "plain"


def check_tx(case):
    import bits.script
    import bits.tx

    rtx = gen_tx.to_ref(case["tx"])
    trailing = bx(case.get("trailing", ""))
    feats = gen_tx.features(rtx)
    prim = _primary(feats)
    cls = ["nt:" + x for x in feats if x != "segwit"] + (["segwit"] if rtx["segwit"] else ["legacy"])
    if trailing:
        cls.append("nt:trailing")
    f = Fails()
    raw = txref.serialize(rtx)

    # (a) library serialisation == reference bytes (witness stacks serialised by the reference: isolates tx())
    built = attempt(gen_tx.build_with_lib, bits.tx, rtx, txref.ser_witness)
    f.expect(not raised(built) and built == raw, f"ser/ne-reference/{prim}", repr(built)[:200])
    if rtx["segwit"]:
        # library's own witness encoder (root cause shared with C13 when only this fails)
        built2 = attempt(gen_tx.build_with_lib, bits.tx, rtx, lambda items: bits.script.script([x.hex() for x in items], witness=True))
        f.expect(not raised(built2) and built2 == raw, f"ser-libwitness/ne-reference/{prim}", repr(built2)[:200])

    # (b) deserialisation returns exactly the fields and the leftover
    res = attempt(bits.tx.tx_deser, raw + trailing)
    if raised(res):
        f.add(f"deser/raises-{res.kind}/{prim}", res)
        return cls, f
    try:
        d, left = res
        # first divergence only: everything after a mis-parsed field is a consequence of it
        got_ins = [(i["txid"], i["vout"], i["scriptsig"], i["sequence"]) for i in d["txins"]]
        want_ins = [(i["txid"].hex(), i["vout"], i["script"].hex(), i["sequence"].to_bytes(4, "little").hex()) for i in rtx["ins"]]
        got_outs = [(o["value"], o["scriptpubkey"]) for o in d["txouts"]]
        want_outs = [(o["value"], o["script"].hex()) for o in rtx["outs"]]
        want_w = [[x.hex() for x in i["witness"]] for i in rtx["ins"]] if rtx["segwit"] else None
        got_w = d.get("witnesses") or None
        if not f.expect(d["version"] == rtx["version"], f"deser/version/{prim}", d["version"]):
            return cls, f
        if not f.expect(got_ins == want_ins, f"deser/inputs/{prim}", f"{len(got_ins)} vs {len(want_ins)}"):
            return cls, f
        if not f.expect(got_outs == want_outs, f"deser/outputs/{prim}", f"{len(got_outs)} vs {len(want_outs)}"):
            return cls, f
        if not f.expect(got_w == want_w, f"deser/witnesses/{prim}", repr(got_w)[:200]):
            return cls, f
        if not f.expect(d["locktime"] == rtx["locktime"], f"deser/locktime/{prim}", d["locktime"]):
            return cls, f
        if not f.expect(left == trailing, f"deser/leftover/{prim}", f"{left[:40]!r} vs {trailing[:40]!r}"):
            return cls, f
        # (c) re-serialise the parsed fields
        ptx = {
            "version": d["version"],
            "locktime": d["locktime"],
            "segwit": "witnesses" in d and bool(d["witnesses"]),
            "ins": [
                {"txid": bx(i["txid"]), "vout": i["vout"], "script": bx(i["scriptsig"]), "sequence": int.from_bytes(bx(i["sequence"]), "little"),
                 "witness": [bx(x) for x in (d.get("witnesses") or [[]] * len(d["txins"]))[k]]}
                for k, i in enumerate(d["txins"])
            ],
            "outs": [{"value": o["value"], "script": bx(o["scriptpubkey"])} for o in d["txouts"]],
        }
        re1 = attempt(gen_tx.build_with_lib, bits.tx, ptx, txref.ser_witness)
        f.expect(not raised(re1) and re1 == raw, f"reser/ne-original/{prim}", repr(re1)[:120])
        # (c') the other return form: include_raw=True adds the transaction's own bytes and changes nothing else
        res_raw = attempt(bits.tx.tx_deser, raw + trailing, include_raw=True)
        if raised(res_raw):
            f.add(f"deser-include-raw/raises-{res_raw.kind}/{prim}", res_raw)
        else:
            d2, left2 = res_raw
            gotraw = d2.get("raw") if isinstance(d2, dict) else None
            f.expect(gotraw == raw.hex(), f"deser-include-raw/raw-ne-serialised-transaction/{prim}",
                     f"raw of {len(gotraw) // 2 if isinstance(gotraw, str) else gotraw!r} bytes, transaction has {len(raw)}, {len(trailing)} trailing")
            rest = {k: v for k, v in d2.items() if k != "raw"} if isinstance(d2, dict) else d2
            f.expect(rest == {k: v for k, v in d.items() if k != "raw"} and left2 == trailing, f"deser-include-raw/other-fields-differ/{prim}", repr(rest)[:160])
        # (d) the caller owns what it was handed: editing that result must not change what the next parse returns
        if not f:
            snap = copy.deepcopy(d)
            for v in d.values():
                if isinstance(v, list):
                    for x in v:
                        if isinstance(x, (dict, list)):
                            x.clear()
                    v.clear()
            d.clear()
            res2 = attempt(bits.tx.tx_deser, raw + trailing)
            ok2 = (not raised(res2)) and res2[0] == snap and res2[1] == trailing
            f.expect(ok2, f"deser/differs-after-caller-edited-earlier-result/{prim}", repr(res2)[:200])
    except (KeyError, TypeError, IndexError, ValueError) as e:
        f.add(f"deser/malformed-result/{prim}", repr(e))
    return cls, f


def check_cs(case):
    import bits

    i = case["i"]
    f = Fails()
    cls = []
    if not (0 <= i <= 0xFFFFFFFFFFFFFFFF):
        cls.append("nt:out-of-range")
        r = attempt(bits.compact_size_uint, i)
        f.expect(raised(r), "compactsize/out-of-range-not-refused", f"{i} -> {r!r}")
        return cls, f
    for b in (253, 0x10000, 0x100000000):
        if b - 3 <= i <= b + 2:
            cls.append("nt:width-boundary")
    if i >= 253:
        cls.append("nt:multi-byte")
    if not cls:
        cls.append("single-byte")
    trailing = bx(case.get("t", ""))
    if trailing:
        cls.append("nt:trailing")
    want = txref.compact_size(i)
    enc = attempt(bits.compact_size_uint, i)
    if f.expect(not raised(enc) and enc == want, "compactsize/encode-ne-reference", f"{i} -> {enc!r}"):
        dec = attempt(bits.parse_compact_size_uint, enc + trailing)
        f.expect(not raised(dec) and seq(dec) == (i, trailing), "compactsize/parse-ne-input", f"{i} -> {dec!r}")
    return cls, f


def enum_cs(tier):
    trail = ["", "00", "fd", "ff00ff", "fe"]
    for i in range(0, 2**16 + 3):
        yield {"i": i, "t": trail[i % 5]}
    seen = set()
    for k in range(1, 65):
        for d in range(-2, 3):
            v = (1 << k) + d
            if 2**16 + 2 < v <= 2**64 - 1 and v not in seen:
                seen.add(v)
                yield {"i": v, "t": trail[(k + d) % 5]}
    for v in (-1, -2, -(2**63), 2**64, 2**64 + 1, 2**70, -(2**64)):
        yield {"i": v}


@st.composite
def cs_random(draw):
    k = draw(st.integers(0, 64))
    i = draw(st.integers(0, max(0, (1 << k) - 1)))
    return {"i": i, "t": draw(st.binary(max_size=12)).hex()}


@st.composite
def tx_cases(draw, profile):
    tx = draw(gen_tx.tx_case(profile))
    if draw(st.integers(0, 9)) == 0:
        tx = draw(gen_tx.coinbase_case())  # null outpoint, arbitrary miner data in the script, reserved-value witness
    tr = draw(st.sampled_from(["none", "none", "byte", "bytes", "tx-prefix"]))
    if tr == "none":
        t = b""
    elif tr == "byte":
        t = bytes([draw(st.integers(0, 255))])
    elif tr == "bytes":
        t = draw(st.binary(min_size=1, max_size=40))
    else:
        t = txref.serialize(gen_tx.to_ref(tx))[: draw(st.integers(1, 12))]
    return {"tx": tx, "trailing": hx(t)}


CORPUS = [
    # genesis coinbase, BIP143 P2WPKH example (signed), BIP143 P2SH-P2WPKH example (signed)
    "01000000010000000000000000000000000000000000000000000000000000000000000000ffffffff4d04ffff001d0104455468652054696d65732030332f4a616e2f32303039204368616e63656c6c6f72206f6e206272696e6b206f66207365636f6e64206261696c6f757420666f722062616e6b73ffffffff0100f2052a01000000434104678afdb0fe5548271967f1a67130b7105cd6a828e03909a67962e0ea1f61deb649f6bc3f4cef38c4f35504e51ec112de5c384df7ba0b8d578a4c702b6bf11d5fac00000000",
    "01000000000102fff7f7881a8099afa6940d42d1e7f6362bec38171ea3edf433541db4e4ad969f00000000494830450221008b9d1dc26ba6a9cb62127b02742fa9d754cd3bebf337f7a55d114c8e5cdd30be022040529b194ba3f9281a99f2b1c0a19c0489bc22ede944ccf4ecbab4cc618ef3ed01eeffffffef51e1b804cc89d182d279655c3aa89e815b1b309fe287d9b2b55d57b90ec68a0100000000ffffffff02202cb206000000001976a9148280b37df378db99f66f85c95a783a76ac7a6d5988ac9093510d000000001976a9143bde42dbee7e4dbe6a21b2d50ce2f0167faa815988ac000247304402203609e17b84f6a7d30c80bfa610b5b4542f32a8a0d5447a12fb1366d7f01cc44a0220573a954c4518331561406f90300e8f3358f51928d43c212a8caed02de67eebee0121025476c2e83188368da1ff3e292e7acafcdb3566bb0ad253f62fc70f07aeee635711000000",
    "01000000000101db6b1b20aa0fd7b23880be2ecbd4a98130974cf4748fb66092ac4d3ceb1a5477010000001716001479091972186c449eb1ded22b78e40d009bdf0089feffffff02b8b4eb0b000000001976a914a457b684d7f0d539a46a45bbc043f35b59d0d96388ac0008af2f000000001976a914fd270b1ee6abcaea97fea7ad0402e8bd8ad6d77c88ac02473044022047ac8e878352d3ebbde1c94ce3a10d057c24175747116f8288e5d794d12d482f0220217f36a485cae903c713331d877c1f64677e3622ad4010726870540656fe9dcb012103ad1d8e89212f0b92c74d23bb710c00662ad1470198ac48c43f7d6f93a2a2687392040000",
]


def enum_corpus(tier):
    for raw in CORPUS:
        rtx, end = txref.parse(bytes.fromhex(raw))
        case = {
            "version": rtx["version"], "locktime": rtx["locktime"], "segwit": rtx["segwit"],
            "ins": [{"txid": i["txid"].hex(), "vout": i["vout"], "script": i["script"].hex(), "sequence": i["sequence"],
                     "witness": [w.hex() for w in i["witness"]]} for i in rtx["ins"]],
            "outs": [{"value": o["value"], "script": o["script"].hex()} for o in rtx["outs"]],
        }
        for t in ("", "00", raw[:20]):
            yield {"tx": case, "trailing": t}


def _targets(tier):
    prof = "big"  # lengths of 65536 and more belong to the quick tier too (the 5-byte CompactSize form inside a transaction)
    req = ["nt:n_in>=253", "nt:n_out>=253", "nt:script>=253", "nt:wit-empty-stack", "nt:wit-item>=253", "nt:wit-item-0", "nt:trailing", "nt:outs>=5-all-empty-scripts", "nt:script-3000..65533", "nt:wit-item-3000..65533", "nt:script>=65536", "nt:wit-item>=65536", "nt:out-script-reads-as-address-or-key"]
    return [
        Target("tx-roundtrip", check_tx, strategy=lambda tier: tx_cases(prof), budget={"quick": 4000, "thorough": 100000}, required=req),
        Target("fixed-corpus", check_tx, enumerate_=enum_corpus, shards=1),
        Target("compactsize", check_cs, enumerate_=enum_cs, required=["nt:out-of-range", "nt:width-boundary"], exhaustive=True),
        Target("compactsize-random", check_cs, strategy=lambda tier: cs_random(), budget={"quick": 20000, "thorough": 400000}),
    ]


def targets(tier):
    ts = _targets(tier)
    if tier == "thorough":
        # coverage-guided add-on (atheris/libFuzzer through Hypothesis' fuzz_one_input); skipped with a class label if atheris is missing
        from vf import fuzz

        for name in ['tx-roundtrip']:
            ts.append(fuzz.campaign_target(PROPERTY, name, campaigns=16, runs=8000))
    return ts
