"""C01 — ECDSA signing: signatures verify, are canonical (low-S, strict DER), sighash byte, no nonce reuse."""
import hashlib

from hypothesis import strategies as st

from vf import gen
from vf.core import Fails, Target, attempt, bx, hx, raised, seq
from vf.core import pair as pair_of
from vf.env import rng, smallcurve
from vf.ref import der, ec

PROPERTY = "C01"
LEVEL = "exploration"
N = ec.N
RULE = (
    "sign-secp: ecmath.sign(d, z) with the module's random source scripted (draws zero/one/max/random interpreted relative to the "
    "requested bound); d from boundary-biased [1,n-1]; z from {0,1,n-1,n,n+1,2^256-1}|random; constructed branches: s==0 retry "
    "(z = -r1 d), low-S negation, target-s classes (short s, short s with top bit, n//2, n//2+1) by solving z; metamorphic pairs "
    "differing in key only / message only under distinct draws must give distinct r. sig-api: bits.sig over messages 0..200 bytes x "
    "six flags|None x both preimage modes, with the private key solved so that DER padding classes occur through the public API; "
    "sig_verify with both SEC1 forms. der-codec: der_encode_sig/der_decode_sig over every byte length 1..32 x top bit x fills. "
    "small-curve: ALL (d, z in [0,n+2], first draw k in [0,n-1]) on retargeted curves of up to 200 points (on the 829-point curve of the thorough tier: all d and k, the boundary digests and 30 others per key). Oracle: reference verifier, OpenSSL "
    "(Prehashed) on strict DER, BIP66 checker, ranges, low-S. Non-trivial: any boundary class label (digest>=n, digest==0, key "
    "boundary/leading zeros, draw-zero, s-retry, s-negated, r/s short or padded, ANYONECANPAY flag, preimage mode, pair)."
)
ASSUMPTIONS = ["vf/ref/ec.py verifier and vf/ref/der.py BIP66 checker are correct; OpenSSL (cryptography) is a standard verifier",
               "no signature value or randbelow bound is predicted: checks are relations that survive an RFC6979 or randbelow(n-1)+1 rewrite"]
SELFCHECKS = [ec.selfcheck, der.selfcheck]

try:
    from cryptography.exceptions import InvalidSignature
    from cryptography.hazmat.primitives import hashes
    from cryptography.hazmat.primitives.asymmetric import ec as cec
    from cryptography.hazmat.primitives.asymmetric import utils as cutils

    HAVE_OPENSSL = True
except ImportError:  # pragma: no cover
    HAVE_OPENSSL = False
    ASSUMPTIONS.append("cryptography not importable: the OpenSSL sub-oracle was NOT exercised in this run")


def openssl_verify(pt, z32: bytes, dersig: bytes):
    if not HAVE_OPENSSL:
        return True
    pub = cec.EllipticCurvePublicNumbers(pt[0], pt[1], cec.SECP256K1()).public_key()
    try:
        pub.verify(dersig, z32, cec.ECDSA(cutils.Prehashed(hashes.SHA256())))
        return True
    except InvalidSignature:
        return False


def _len_class(v, name):
    nb = (v.bit_length() + 7) // 8
    top = bool(v >> (8 * nb - 1)) if nb else False
    out = []
    if nb < 32:
        out.append(f"nt:{name}-short")
        if top:
            out.append(f"nt:{name}-short-pad")
    elif top:
        out.append(f"nt:{name}-pad")
    return out


_SHORT_R = {}


def short_r_nonces():
    """Nonces whose r = x(kG) has a leading zero byte (found with the reference ladder; deterministic)."""
    if not _SHORT_R:
        ks = [pow(2, -1, N)]  # x((1/2)G) is the famous 166-bit coordinate
        k = 0xC0FFEE
        while len(ks) < 4:
            k += 1
            if ec.mul(k, ec.G)[0] % N < 1 << 248:
                ks.append(k)
        ks.append(DER_LIKE_R_NONCE)
        _SHORT_R["ks"] = ks
    return _SHORT_R["ks"]


# r = x(kG) = 301ef262...: the 32 content bytes of its INTEGER start like a DER SEQUENCE header of exactly that length
DER_LIKE_R_NONCE = 0x5EED2B219


def _reads_as_der(v):
    b = v.to_bytes((v.bit_length() + 7) // 8 or 1, "big")
    return len(b) >= 2 and b[0] in (0x30, 0x02, 0x04, 0x03, 0x31) and b[1] == len(b) - 2


def _check_sig_values(f, cls, d, z, r, s, tag):
    """Common oracle for a produced (r, s) over integer digest z under key d."""
    pt = ec.pub(d)
    if not f.expect(isinstance(r, int) and isinstance(s, int) and 1 <= r < N and 1 <= s < N, f"range/r-s-not-in-[1,n-1]/{tag}", f"r={r} s={s}"):
        return False
    f.expect(s <= N // 2, f"low-s/s>n/2/{tag}", hex(s))
    f.expect(ec.ecdsa_verify(pt, z, r, s), f"verify-ref/rejected/{tag}", f"r={r:#x} s={s:#x}")
    z32 = (z % (1 << 256)).to_bytes(32, "big")
    f.expect(openssl_verify(pt, z32, der.encode(r, s)), f"verify-openssl/rejected/{tag}")
    cls.extend(_len_class(r, "r"))
    cls.extend(_len_class(s, "s"))
    if _reads_as_der(r) or _reads_as_der(s):
        cls.append("nt:integer-content-reads-as-der")
    return True


def check_sign(case):
    import bits
    import bits.ecmath as em

    d, z, script = case["d"], case["z"], case["script"]
    f = Fails()
    cls = []
    if z >= N:
        cls.append("nt:digest>=n")
    if z == 0:
        cls.append("nt:digest==0")
    if d in (1, N - 1) or d.bit_length() <= 248:
        cls.append("nt:key-boundary-or-leading-zeros")
    for lab in case.get("labels", []):
        cls.append("nt:" + lab)
    ztag = "digest>=n" if z >= N else "digest<n"
    stub = rng.ScriptedSecrets(script)
    saved = em.secrets
    em.secrets = stub
    rng.sync(em.secrets)
    try:
        res = attempt(em.sign, d, z)
    finally:
        em.secrets = saved
        rng.sync(em.secrets)
    if raised(res):
        f.add(f"sign/raises-{res.kind}/{ztag}", res)
        return cls, f
    rs_ = pair_of(res)
    if rs_ is None:
        f.add(f"range/r-s-not-in-[1,n-1]/{ztag}", repr(res)[:120])
        return cls, f
    r, s = rs_
    if not stub.calls:
        cls.append("rng-not-consulted")  # e.g. deterministic nonces: the scripted-draw classes cannot be produced
    elif not any(c[2] and (ec.mul(c[2] % N, ec.G) or (0,))[0] % N == r for c in stub.calls if c[0] == "randbelow"):
        # the library maps its draws to the nonce in another way than k = draw (e.g. k = draw + 1 over a smaller bound):
        # equally fine, but the nonce then cannot be steered by scripting the draw
        cls.append("rng-draw-not-the-nonce")
    if any(c[2] == 0 for c in stub.calls):
        cls.append("nt:draw-zero")
    if len(stub.calls) > 1:
        cls.append("nt:redrawn")
    if _check_sig_values(f, cls, d, z, r, s, ztag):
        # the library's own verifier, with the point decoded from one SEC1 form
        comp = bool(case.get("comp"))
        pt = attempt(bits.point, ec.sec1_encode(ec.pub(d), comp))
        v = attempt(em.verify, r, s, pt, z) if not raised(pt) else pt
        f.expect(v is True, f"verify-lib/rejects-own-signature/{ztag}", repr(v))
    # metamorphic non-reuse: second signature differing in key or message under distinct draws
    pair = case.get("pair")
    if pair and not raised(res):
        cls.append("nt:pair-" + pair["differs"])
        stub2 = rng.ScriptedSecrets(pair["script"])
        em.secrets = stub2
        rng.sync(em.secrets)
        try:
            res2 = attempt(em.sign, pair["d"], pair["z"])
        finally:
            em.secrets = saved
            rng.sync(em.secrets)
        if raised(res2):
            f.add(f"sign/raises-{res2.kind}/pair", res2)
        else:
            d1 = [c[2] for c in stub.calls]
            d2 = [c[2] for c in stub2.calls]
            b = stub.calls[0][1] if stub.calls else N
            independent = not stub.calls or not stub2.calls or all(x != y and (x + y) % b != 0 and (x + y + 2) % (b + 1) != 0 for x in d1 for y in d2)
            if independent:
                rs2_ = pair_of(res2)
                f.expect(rs2_ is not None and rs2_[0] != r, f"nonce/r-shared-across-{pair['differs']}", f"r={r:#x}" if isinstance(r, int) else f"r={r!r}")
    return cls, f


def _msg_digest(msg, flag, preimage):
    """Reference for what bits.sig signs: HASH256(msg || flag as 4-byte LE) (plain) or HASH256(msg) (preimage mode)."""
    if not preimage and flag is not None:
        msg = msg + flag.to_bytes(4, "little")
    return hashlib.sha256(hashlib.sha256(msg).digest()).digest()


def check_sigapi(case):
    import bits
    import bits.ecmath as em

    flag = case["flag"]
    preimage = case["preimage"]
    body = bx(case["msg"])
    f = Fails()
    cls = ["nt:preimage" if preimage else "plain-msg"]
    if flag is not None and flag & 0x80:
        cls.append("nt:flag-anyonecanpay")
    if flag is None:
        cls.append("nt:flag-none")
    # in preimage mode the message already ends in the 4-byte flag
    eff_flag = flag if flag is not None else case["pflag"]
    msg = body + eff_flag.to_bytes(4, "little") if preimage else body
    if not preimage and flag is not None and body.endswith(flag.to_bytes(4, "little")):
        cls.append("nt:plain-msg-ends-in-its-hash-type")
    if len(msg) in (32, 64):
        cls.append(f"nt:msg-len-{len(msg)}/{'preimage' if preimage else 'plain'}")
    z = int.from_bytes(_msg_digest(msg, flag, preimage), "big")
    # solve the private key so that the scripted nonce yields the target s (DER padding classes through the API)
    k = case["k"] % N or 1
    R = ec.mul(k, ec.G)
    r = R[0] % N
    d = case["d"]
    if case.get("target_s") is not None and r:
        ts = case["target_s"] % N or 1
        dd = (ts * k - z) * pow(r, -1, N) % N
        if dd:
            d = dd
            cls.append("nt:solved-key")
    key = d.to_bytes(32, "big")
    if case["k"] % 3 == 0:
        # history: the same key signs the same bytes in the OTHER mode / with another flag first (its own nonce), and that
        # signature is verified; nothing of those calls may carry over into the call under test
        oflag = ((eff_flag & 0x7F) % 3 + 1) | (0 if eff_flag & 0x80 else 0x80)
        real = em.secrets
        em.secrets = rng.ScriptedSecrets([(k * 7 + 11) % N or 2])
        rng.sync(em.secrets)
        try:
            o = attempt(bits.sig, key, msg + (b"" if preimage else oflag.to_bytes(4, "little")), msg_preimage=not preimage,
                        **({} if not preimage else {"sighash_flag": oflag}))
        finally:
            em.secrets = real
            rng.sync(em.secrets)
        if isinstance(o, (bytes, bytearray)):
            attempt(bits.sig_verify, bytes(o), ec.sec1_encode(ec.pub(d), True), msg, msg_preimage=not preimage)
        cls.append("nt:after-same-key-and-bytes-in-other-mode")
    stub = rng.ScriptedSecrets([k])
    saved = em.secrets
    em.secrets = stub
    rng.sync(em.secrets)
    try:
        sig = attempt(bits.sig, key, msg, sighash_flag=flag, msg_preimage=preimage)
    finally:
        em.secrets = saved
        rng.sync(em.secrets)
    mode = "preimage" if preimage else "plain"
    if raised(sig):
        f.add(f"sig/raises-{sig.kind}/{mode}", sig)
        return cls, f
    has_flag = flag is not None or preimage
    if not isinstance(sig, (bytes, bytearray)):
        f.add("der/not-strict-bip66/unparseable", repr(sig)[:120])
        return cls, f
    dersig = sig[:-1] if has_flag else sig
    if has_flag:
        last = sig[-1] if sig else None
        f.expect(last == (eff_flag & 0xFF), f"sighash-byte/ne-requested/{mode}", f"{last:#x} vs {eff_flag:#x}" if last is not None else f"(empty) vs {eff_flag:#x}")
    if 63 <= len(dersig) <= 65:
        cls.append(f"nt:der-length-{len(dersig)}")
    rs = der.decode_strict(dersig)
    lrs = der.decode_lenient(dersig)
    shape = "+".join(sorted(set(c[3:] for c in (_len_class(lrs[0], "r") + _len_class(lrs[1], "s"))))) if lrs else "unparseable"
    if not f.expect(rs is not None, f"der/not-strict-bip66/{shape or 'full'}", dersig.hex()):
        return cls, f
    r2, s2 = rs
    if r2 != r:
        cls.append("rng-draw-not-the-nonce" if stub.calls else "rng-not-consulted")  # the nonce cannot be steered on this tree
    dd = attempt(bits.utils.der_decode_sig, dersig)
    f.expect(not raised(dd) and seq(dd) == (r2, s2), f"der/lib-decode-ne-values/{shape or 'full'}", repr(dd)[:120])
    if _check_sig_values(f, cls, d, z, r2, s2, mode) and has_flag:
        comp = bool(case.get("comp"))
        pk = ec.sec1_encode(ec.pub(d), comp)
        v = attempt(bits.sig_verify, sig, pk, msg, msg_preimage=preimage)
        f.expect(v == "OK", f"sig_verify/rejects-own-signature/{mode}", repr(v))
    return cls, f


def check_der(case):
    import bits.utils as U

    r, s = case["r"], case["s"]
    f = Fails()
    cls = _len_class(r, "r") + _len_class(s, "s") or ["full-length"]
    shape = "+".join(sorted(set(c[3:] for c in cls if c.startswith("nt:")))) or "full"
    if _reads_as_der(r) or _reads_as_der(s):
        cls.append("nt:integer-content-reads-as-der")
        shape += "/content-reads-as-der"
    want = der.encode(r, s)
    got = attempt(U.der_encode_sig, r, s)
    if f.expect(not raised(got) and got == want and der.is_strict_der(got), f"der-encode/ne-strict/{shape}", repr(got)[:160]):
        back = attempt(U.der_decode_sig, got)
        f.expect(not raised(back) and seq(back) == (r, s), f"der-decode/ne-values/{shape}", repr(back)[:120])
    return cls, f


def enum_der(tier):
    fills = [0x00, 0xFF, 0x5A] if tier == "quick" else [0x00, 0xFF, 0x5A, 0x01, 0x80, 0x7F]
    def val(nbytes, top, fill):
        first = 0x80 | (fill & 0x7F) if top else (fill & 0x7F) or 1
        v = int.from_bytes(bytes([first]) + bytes([fill]) * (nbytes - 1), "big")
        return v
    for rl in range(1, 33):
        for rt in (0, 1):
            for sl in range(1, 33):
                for stop in (0, 1):
                    for fill in fills:
                        r = val(rl, rt, fill) % N or 1
                        s = val(sl, stop, fill ^ 0x33)
                        if s > N // 2:
                            s = N // 2 if sl == 32 else s
                        if s > N // 2:
                            continue
                        yield {"r": r, "s": s}
    for r, s in [(1, 1), (N - 1, N // 2), (N - 1, 1), (1, N // 2), (0x80, 0x80), (0x7F, 0x7F), (0x80 << 240, 0x80 << 240)]:
        yield {"r": r, "s": s}
    # integers whose CONTENT bytes start like an encoded element of exactly their own length (SEQUENCE, INTEGER, OCTET
    # STRING, BIT STRING, SET header + length byte): still plain integers
    for tag in (0x30, 0x02, 0x04, 0x03, 0x31):
        for n in range(2, 33):
            v = int.from_bytes(bytes([tag, n - 2]) + bytes([0x5A]) * (n - 2), "big")
            inner = int.from_bytes(bytes([tag, n - 2]) + (bytes([0x02, max(0, n - 4)]) + bytes([0x11]) * 32)[: n - 2], "big")
            for a in (v, inner):
                yield {"r": a, "s": 0x5A5A}
                yield {"r": 0x5A5A, "s": a}
                yield {"r": a, "s": a}


def check_small(case):
    c = ec.small_curves(6)[case["curve"]]
    p, n, g = c["p"], c["n"], c["g"]
    em = smallcurve.load(p, n, g)
    d = case["d"]
    pt = ec.mul(d, g, p)
    f = Fails()
    cls = ["nt:small-curve-p%d" % p]
    saved = em.secrets
    stub = rng.ScriptedSecrets([])
    em.secrets = stub
    rng.sync(em.secrets)  # installed once per case; every (z, k) starts it afresh
    # every (digest, nonce) pair on the curves of up to 200 points; on the largest one (829 points: 690,000 pairs per key)
    # every nonce with the boundary digests and a spread of the others
    zs = range(0, n + 3) if n <= 200 else sorted({0, 1, 2, n - 2, n - 1, n, n + 1, n + 2} | {(d * 37 + j * 29) % n for j in range(30)})
    try:
        for z in zs:
            for k in range(0, n):
                stub.reset([k])
                res = attempt(em.sign, d, z)
                if raised(res):
                    f.add(f"small/sign-raises-{res.kind}", f"p={p} d={d} z={z} k={k}: {res}")
                    return cls, f
                rs_ = pair_of(res)
                if rs_ is None:
                    f.add("small/signature-invalid-or-non-canonical", f"p={p} d={d} z={z} k={k}: {res!r}"[:200])
                    return cls, f
                r, s = rs_
                ok = isinstance(r, int) and isinstance(s, int) and 1 <= r < n and 1 <= s < n and s <= n // 2 and ec.ecdsa_verify(pt, z, r, s, n, g, p)
                if not ok:
                    f.add("small/signature-invalid-or-non-canonical", f"p={p} d={d} z={z} k={k}: r={r} s={s}")
                    return cls, f
                v = attempt(em.verify, r, s, pt, z)
                if v is not True:
                    f.add("small/verify-lib-rejects-own-signature/" + ("digest>=n" if z >= n else "digest<n"), f"p={p} d={d} z={z} k={k}: {v!r}")
                    return cls, f
    finally:
        em.secrets = saved
        rng.sync(em.secrets)
    return cls, f


def enum_small(tier):
    curves = ec.small_curves(6)
    for ci in range(2 if tier == "quick" else 6):
        for d in range(1, curves[ci]["n"]):
            yield {"curve": ci, "d": d}


@st.composite
def sign_cases(draw):
    d = draw(gen.scalars_valid())
    mode = draw(st.sampled_from(["plain", "plain", "retry-s0", "target-s", "target-s", "short-r", "draws"]))
    labels = []
    comp = draw(st.booleans())
    zs = st.one_of(st.sampled_from([0, 1, N - 1, N, N + 1, 2**256 - 1, N // 2]), st.integers(0, 2**256 - 1), st.integers(N, 2**256 - 1))
    z = draw(zs)
    k1 = draw(st.one_of(st.sampled_from([1, 2, N - 1, N - 2]), st.integers(1, N - 1)))
    script = [k1]
    if mode == "retry-s0":
        # first attempt yields s == 0: z = -r1*d (mod n); the loop must continue with the second draw
        r1 = ec.mul(k1, ec.G)[0] % N
        z = (-r1 * d) % N
        if draw(st.booleans()) and z + N < 2**256:
            z += N
        script = [k1, draw(st.integers(1, N - 1))]
        labels.append("s-retry")
    elif mode == "target-s":
        ts = draw(st.sampled_from([1, 2, 0x7F, 0x80, 0xFF, 0x80 << 240, 0x7F << 240, 0xFF << 232, N // 2, N // 2 + 1, N - 1, N - 0x80, N - (0x80 << 240)]) | st.integers(1, N - 1))
        r1 = ec.mul(k1, ec.G)[0] % N
        z = (ts * k1 - r1 * d) % N
        if draw(st.integers(0, 3)) == 0 and z + N < 2**256:
            z += N
        labels.append("s-negated" if ts > N // 2 else "s-direct")
    elif mode == "short-r":
        k1 = draw(st.sampled_from(short_r_nonces()))
        script = [k1]
    elif mode == "draws":
        script = draw(st.lists(st.sampled_from(["zero", "one", "max"]) | st.integers(0, N), min_size=1, max_size=4))
        if draw(st.booleans()):
            script = ["zero"] + script
    case = {"d": d, "z": z, "script": script, "labels": labels, "comp": comp}
    if draw(st.integers(0, 3)) == 0:
        differs = draw(st.sampled_from(["key", "message"]))
        k2 = draw(st.integers(1, N - 1))
        case["pair"] = {
            "differs": differs,
            "d": draw(gen.scalars_valid().filter(lambda x: x != d)) if differs == "key" else d,
            "z": z if differs == "key" else (z + draw(st.integers(1, 2**200))) % 2**256,
            "script": [k2],
        }
    return case


@st.composite
def sigapi_cases(draw):
    flag = draw(st.sampled_from([0x01, 0x02, 0x03, 0x81, 0x82, 0x83, None]))
    preimage = draw(st.booleans())
    mode = draw(st.sampled_from(["plain", "target-s", "target-s", "short-r"]))
    # lengths at which a message could be mistaken for something else (a 32-byte digest, a 64-byte pair, an empty string),
    # for the message as passed: body + 4 flag bytes in preimage mode
    blen = draw(st.sampled_from([None, None, None, 0, 1, 27, 28, 29, 31, 32, 33, 60, 64]))
    body = draw(gen.sized_binary(200)) if blen is None else draw(st.binary(min_size=blen, max_size=blen))
    if blen is None and draw(st.integers(0, 4)) == 0:
        body = draw(gen.lookalike_bytes())  # hex text, whitespace or NUL at the ends, literals: a message is opaque bytes
    pflag = draw(st.sampled_from([0x01, 0x02, 0x03, 0x81, 0x82, 0x83]))
    # a message that already ends the way a pre-image does (the 4-byte hash type, its own or another one, or the one-byte
    # flag): in plain mode it is still only a message, and the hash type is appended to it like to any other
    tail = draw(st.sampled_from([None] * 6 + ["own", "own", "other", "byte"]))
    if tail is not None:
        tf = (flag if flag is not None else pflag) if tail != "other" else pflag
        t = bytes([tf]) if tail == "byte" else tf.to_bytes(4, "little")
        body = (body[: -len(t)] if blen is not None and len(body) >= len(t) else body) + t
    case = {
        "msg": body.hex(),
        "flag": flag,
        "pflag": pflag,
        "preimage": preimage,
        "d": draw(gen.scalars_valid()),
        "k": draw(st.integers(1, N - 1)),
        "comp": draw(st.booleans()),
        "target_s": None,
    }
    if mode == "target-s":
        # incl. s of 24..27 bytes: with a 32/33-byte r the DER signature is then 62..66 bytes long (64 = the length of
        # the fixed-width r || s form, 65 with the sighash byte)
        case["target_s"] = draw(st.sampled_from([1, 0x7F, 0x80, 0xFF, 0x80 << 240, 0xFF << 232, 0x80 << 232, N // 2, N // 2 + 1, N - 0x80, N - (0x80 << 240), N - 1]
                                                + [int.from_bytes(b"\x5a" * n, "big") for n in (24, 25, 25, 26, 26, 27)]
                                                + [int.from_bytes(bytes([0x30, 0x1E]) + b"\x5a" * 30, "big"), int.from_bytes(bytes([0x30, 0x1E, 0x02, 0x1C]) + b"\x11" * 28, "big"), int.from_bytes(bytes([0x04, 0x1E]) + b"\x5a" * 30, "big")]) | st.integers(1, N - 1))
    elif mode == "short-r":
        case["k"] = draw(st.sampled_from(short_r_nonces()))
    return case


def targets(tier):
    return [
        Target("sign-secp", check_sign, strategy=lambda tier: sign_cases(), budget={"quick": 700, "thorough": 12000},
               required=["nt:digest>=n", "nt:digest==0", "nt:key-boundary-or-leading-zeros", "nt:draw-zero || rng-not-consulted || rng-draw-not-the-nonce", "nt:s-retry || rng-not-consulted || rng-draw-not-the-nonce",
                         "nt:s-negated || rng-not-consulted || rng-draw-not-the-nonce", "nt:r-short || rng-not-consulted || rng-draw-not-the-nonce", "nt:s-short || rng-not-consulted || rng-draw-not-the-nonce", "nt:r-pad || rng-not-consulted || rng-draw-not-the-nonce",
                         "nt:s-short-pad || rng-not-consulted || rng-draw-not-the-nonce", "nt:pair-key", "nt:pair-message"]),
        Target("sig-api", check_sigapi, strategy=lambda tier: sigapi_cases(), budget={"quick": 500, "thorough": 10000},
               required=["nt:preimage", "nt:flag-anyonecanpay", "nt:s-short-pad || rng-not-consulted || rng-draw-not-the-nonce", "nt:r-short || rng-not-consulted || rng-draw-not-the-nonce", "nt:solved-key", "nt:msg-len-32/preimage", "nt:msg-len-32/plain", "nt:msg-len-64/preimage", "nt:msg-len-64/plain", "nt:after-same-key-and-bytes-in-other-mode", "nt:plain-msg-ends-in-its-hash-type", "nt:der-length-64 || rng-not-consulted || rng-draw-not-the-nonce", "nt:integer-content-reads-as-der || rng-not-consulted || rng-draw-not-the-nonce"]),
        Target("der-codec", check_der, enumerate_=enum_der, required=["nt:s-short-pad", "nt:r-short-pad", "nt:r-pad", "nt:integer-content-reads-as-der"]),
        Target("small-curve", check_small, enumerate_=enum_small, exhaustive=True),
    ]
