"""C09 — BIP32: public/private derivation commute, paths compose, keys serialise, invalid payloads rejected."""
import hashlib

from hypothesis import strategies as st

from vf import gen
from vf.core import Fails, Target, attempt, bx, hx, pair, raised, seq
from vf.ref import base58 as rb58
from vf.ref import ec
from vf.ref import hd as ref

PROPERTY = "C09"
LEVEL = "exploration"
RULE = (
    "derive: seeds of 16..64 bytes, mainnet/testnet, paths of depth 0..8 (quick mostly <= 4) over indices "
    "{0,1,2^31-1,2^31,2^31+1,2^32-1} | random; to_master_key/root_serialized_extended_key/derive_from_path/get_xpub strings "
    "compared with an independent BIP32 (Jacobian-ladder curve code, long-division Base58); key material is raw Hypothesis bytes "
    "or SHA-512-diffused draws so keys/chain codes are full width. commute: (a) a non-root parent "
    "(reference-derived below 0..2 arbitrary steps) and a non-hardened suffix of 1..3 steps: derive_from_path('M/..', xpub) vs "
    "get_xpub(derive_from_path('m/..', xprv)) vs reference, or the suffix with one hardened step which must raise; (b) function "
    "level CKDpub(N(k,c),i) vs N(CKDpriv(k,c,i)) for boundary scalars k, chain codes and indices, CKDpub(i>=2^31) must raise. "
    "compose: whole path vs one step at a time vs a split at a drawn position (including the empty prefix/suffix), from root "
    "and non-root, xprv and xpub starts. serialise: serialized_extended_key over private ints / public points, depth and "
    "child number each as bytes or int, testnet flag; deserialized_extended_key tuple and dict forms must return the fields. "
    "reject: a valid 78-byte payload with one field mutation (version random/bit-flip/kind-swap/net-swap, key prefix, key "
    "body 0/n/n+1/2^256-1/p/small x/random x, depth 0 with fingerprint or index, other chain code/fingerprint/depth, length "
    "0..83, checksum bit, string edit, byte flip) plus the 16 official invalid keys; accept/reject and returned fields decided "
    "by the reference validator. Non-trivial: path mixes hardened and plain steps or contains a boundary index "
    "(2^31-1, 2^31, 2^32-1), int-typed depth/child arguments, or a real mutation. Distinct = distinct canonical case encodings."
)
ASSUMPTIONS = [
    "vf/ref/hd.py (validated on BIP32 vectors 1-4 and the 16 invalid keys of vector 5), vf/ref/ec.py, vf/ref/base58.py, "
    "hashlib sha512/sha256/ripemd160 and hmac are correct",
    "rejection / 'an error is raised' means any exception; acceptance means the documented return value",
    "path strings use the apostrophe notation of the docstring (m/0'/1); extended keys are passed as bytes, as "
    "serialized_extended_key returns them",
    "children that BIP32 declares invalid (I_L >= n, zero key, point at infinity; probability < 2^-127) are not asserted",
]
SELFCHECKS = [ec.selfcheck, rb58.selfcheck, ref.selfcheck]

HARD = ref.HARD
IDX_SPECIAL = [0, 1, HARD - 1, HARD, HARD + 1, 2**32 - 1]
PLAIN_SPECIAL = [0, 1, 2, HARD - 2, HARD - 1]


def _b32():
    import bits.bips.bip32 as b32

    return b32


def _hd():
    import bits.wallet.hd as whd

    return whd


def _b43():
    import bits.bips.bip43 as b43

    return b43


# ---------------------------------------------------------------- helpers


def _path_classes(idxs):
    cls = [f"depth-{len(idxs)}"]
    hard = [i >= HARD for i in idxs]
    if any(hard) and not all(hard):
        cls.append("nt:mixed-hardened-plain")
    if HARD - 1 in idxs:
        cls.append("nt:idx-max-plain")
    if HARD in idxs:
        cls.append("nt:idx-min-hardened")
    if 2**32 - 1 in idxs:
        cls.append("nt:idx-max-hardened")
    if 0 in idxs:
        cls.append("idx-zero")
    if idxs and all(hard):
        cls.append("all-hardened")
    if idxs and not any(hard):
        cls.append("all-plain")
    return cls


FIELDS = [("version", 0, 4), ("depth", 4, 5), ("fingerprint", 5, 9), ("child", 9, 13), ("chaincode", 13, 45), ("key", 45, 78)]


def _diff(got, want: bytes):
    """Which serialised fields of the library's string differ from the reference string (structural, no bytes)."""
    if raised(got):
        return "raised-" + got.kind
    if not isinstance(got, (bytes, bytearray)):
        return "type-" + type(got).__name__
    if bytes(got) == want:
        return None
    p = rb58.check_decode(bytes(got))
    if p is None or len(p) != 78:
        return "malformed"
    w = rb58.check_decode(want)
    names = [n for n, a, b in FIELDS if p[a:b] != w[a:b]]
    if ("key" in names or "chaincode" in names) and "fingerprint" in names:
        names.remove("fingerprint")  # a wrong parent key implies a wrong fingerprint: same root cause
    return "+".join(names) or "encoding"


def _pt(x):
    try:
        return tuple(x)
    except TypeError:
        return x


def _ptpair(x):
    """(point as a tuple, second item) of a library (point, value) pair; for any other shape a tuple that equals no expected pair."""
    p = pair(x)
    return (_pt(p[0]), p[1]) if p is not None else seq(None)


def _root(case):
    return ref.XKey.from_seed(bx(case["seed"]), case["net"])


# ---------------------------------------------------------------- derive


def _search_index(parent, base, what):
    """First index i >= base (staying on base's side of 2^31) for which the child of the private parent has a leading
    zero byte in: its private key (key0), chain code (cc0), I_L (il0), the x coordinate of its public key (px0), or its
    own fingerprint (fp0). Each has probability 1/256 for a random index."""
    k, c = parent.key, parent.cc
    hard = base >= ref.HARD
    head = (b"\x00" + ref.ser256(k)) if hard else ref.ser_p(parent.point())
    top = 2**32 if hard else ref.HARD
    for i in range(base, min(base + 8000, top)):
        I = ref._hmac512(c, head + ref.ser32(i))
        il = int.from_bytes(I[:32], "big")
        if il >= ec.N or (il + k) % ec.N == 0:
            continue
        ki = (il + k) % ec.N
        if what == "key0" and ref.ser256(ki)[0] == 0:
            return i
        if what == "cc0" and I[32] == 0:
            return i
        if what == "il0" and I[0] == 0:
            return i
        if what in ("px0", "fp0"):
            K = ec.mul(ki, ec.G)
            if what == "px0" and ref.ser_p(K)[1] == 0:
                return i
            if what == "fp0" and ref.fingerprint(K)[0] == 0:
                return i
    return None


def check_derive(case):
    b32, whd = _b32(), _hd()
    f = Fails()
    idxs = list(case["path"])
    if case.get("search") and idxs:
        root0 = _root(case)
        what, pos = case["search"], len(idxs) - 1
        if what == "fp0" and len(idxs) >= 2:
            pos -= 1  # the fingerprint shows in the serialisation of the key's children
        parent = root0.derive_path(idxs[:pos]) if root0 is not None else None
        side_top = 2**32 if idxs[pos] >= ref.HARD else ref.HARD
        i = _search_index(parent, min(idxs[pos], side_top - 8000), what) if parent is not None else None
        if i is None:
            return ["search-exhausted"], f
        idxs[pos] = i
    cls = _path_classes(idxs) + ["net:" + case["net"], f"seedlen-{len(case['seed']) // 2}"]
    if case.get("search"):
        cls.append("nt:lead0-" + case["search"])
    root = _root(case)
    want = root.derive_path(idxs) if root is not None else None
    if want is None:
        return ["ref-invalid-child"], f
    testnet = case["net"] == "test"
    m = attempt(b32.to_master_key, bx(case["seed"]))
    ok = (not raised(m)) and seq(m) == (root.key, root.cc)
    f.expect(ok, "derive/master-ne-reference", f"{m!r}")
    rs = attempt(b32.root_serialized_extended_key, root.key, root.cc, testnet)
    d = _diff(rs, root.string())
    f.expect(d is None, f"derive/root-serialisation/{d}", f"{rs!r} want {root.string()!r}")
    path = ref.fmt_path("m", idxs)
    got = attempt(whd.derive_from_path, path, root.string())
    d = _diff(got, want.string())
    f.expect(d is None, f"derive/xprv-ne-reference/{d}", f"path {path}: {got!r} want {want.string()!r}")
    if any(i >= ref.HARD for i in idxs):
        # the same path with its hardened elements written as plain child numbers (2147483648 for 0'): a parser may refuse
        # that spelling, but a path it accepts names the child with that number
        bare = "/".join(["m"] + [str(i) for i in idxs])
        got2 = attempt(whd.derive_from_path, bare, root.string())
        d = None if raised(got2) else _diff(got2, want.string())
        f.expect(d is None, f"derive/child-number-spelling-ne-reference/{d}", f"path {bare}: {got2!r} want {want.string()!r}")
        cls.append("nt:hardened-spelled-as-child-number" + ("/refused" if raised(got2) else ""))
    xp = attempt(whd.get_xpub, want.string())
    d = _diff(xp, want.neuter().string())
    f.expect(d is None, f"derive/get_xpub-ne-reference/{d}", f"path {path}: {xp!r} want {want.neuter().string()!r}")
    # get_xpub of an xpub is that xpub (docstring); no scalar multiplication involved
    xp2 = attempt(whd.get_xpub, want.neuter().string())
    d = _diff(xp2, want.neuter().string())
    f.expect(d is None, f"derive/get_xpub-of-xpub-ne-input/{d}", f"{xp2!r} want {want.neuter().string()!r}")
    # the BIP43 wrappers (what the HD wallet serialises with): same fields, always the mainnet versions
    b43 = _b43()
    wm = ref.XKey("main", "prv", want.depth, want.fp, want.child, want.cc, want.key)
    args = (want.cc, bytes([want.depth]), want.fp, ref.ser32(want.child))
    s43 = attempt(b43.serialized_extended_key, want.key, *args)
    d = _diff(s43, wm.string())
    f.expect(d is None, f"derive/bip43-xprv-serialisation/{d}", f"path {path}: {s43!r} want {wm.string()!r}")
    s43 = attempt(b43.serialized_extended_key, seq(want.point()), *args)
    d = _diff(s43, wm.neuter().string())
    f.expect(d is None, f"derive/bip43-xpub-serialisation/{d}", f"path {path}: {s43!r} want {wm.neuter().string()!r}")
    rm = ref.XKey("main", "prv", 0, root.fp, 0, root.cc, root.key)
    r43 = attempt(b43.root_serialized_extended_key, root.key, root.cc)
    d = _diff(r43, rm.string())
    f.expect(d is None, f"derive/bip43-root-serialisation/{d}", f"{r43!r} want {rm.string()!r}")
    # derive_child (mainnet strings only): one step from the parent's xprv, and from its xpub when the index allows
    if idxs and not testnet:
        par = root.derive_path(idxs[:-1])
        i = idxs[-1]
        c = attempt(whd.derive_child, par.string().decode(), i)
        d = _diff(c.encode() if isinstance(c, str) else c, want.string())
        f.expect(d is None, f"derive/derive_child-xprv-ne-reference/{d}", f"path {path}: {c!r} want {want.string()!r}")
        c = attempt(whd.derive_child, par.neuter().string().decode(), i)
        if i >= ref.HARD:
            f.expect(raised(c), "derive/derive_child-hardened-from-xpub-accepted", f"path {path}: returned {c!r}")
        else:
            d = _diff(c.encode() if isinstance(c, str) else c, want.neuter().string())
            f.expect(d is None, f"derive/derive_child-xpub-ne-reference/{d}", f"path {path}: {c!r} want {want.neuter().string()!r}")
        cls.append("nt:derive_child")
    # bip32's serialiser takes depth and child number as ints too (its signature says Union[bytes, int])
    si = attempt(b32.serialized_extended_key, want.key, want.cc, want.depth, want.fp, want.child, testnet)
    d = _diff(si, want.string())
    f.expect(d is None, f"derive/serialise-int-fields/{d}", f"path {path}: {si!r} want {want.string()!r}")
    return cls, f


def check_wallet(case):
    """The HD wallet class: root keys and keys along a path, serialised through the BIP43 wrappers (mainnet versions)."""
    whd = _hd()
    f = Fails()
    idxs = list(case["path"])
    seed = hashlib.pbkdf2_hmac("sha512", case["mnemonic"].encode(), b"mnemonic" + case["passphrase"].encode(), 2048)
    root = ref.XKey.from_seed(seed, "main")
    want = root.derive_path(idxs) if root is not None else None
    if want is None:
        return ["ref-invalid-child"], f
    cls = ["wallet"] + _path_classes(idxs)
    w = attempt(whd.HD.from_mnemonic, case["mnemonic"], case["passphrase"])
    if raised(w):
        f.add(f"wallet/construct-raised-{w.kind}", w)
        return cls, f
    for name, exp in (("root_xprv", root.string()), ("root_xpub", root.neuter().string())):
        got = getattr(w, name, None)
        d = _diff(got.encode() if isinstance(got, str) else got, exp)
        f.expect(d is None, f"wallet/{name}-ne-reference/{d}", f"{got!r} want {exp!r}")
    path = ref.fmt_path("m", idxs)
    got = attempt(w.get_xkeys_from_path, path)
    if raised(got):
        f.add(f"wallet/path-raised-{got.kind}", got)
        return cls, f
    got = pair(got)
    for g, exp, name in ((got[0], want.string(), "xprv"), (got[1], want.neuter().string(), "xpub")):
        d = _diff(g.encode() if isinstance(g, str) else g, exp)
        f.expect(d is None, f"wallet/path-{name}-ne-reference/{d}", f"path {path}: {g!r} want {exp!r}")
    return cls, f


WORDS = ["abandon", "zoo", "legal", "winner", "thank", "year", "wave", "sausage", "worth", "useful", "letter", "advice"]


def wallet_cases(tier):
    return st.fixed_dictionaries(
        {
            "mnemonic": st.lists(st.sampled_from(WORDS), min_size=12, max_size=24).map(" ".join),
            "passphrase": st.sampled_from(["", "", "TREZOR", "p w"]),
            "path": depths(tier).flatmap(lambda d: st.lists(indices(), min_size=d, max_size=d)),
        }
    )


def _h(b, n=32):
    """Diffuse a (typically simple) Hypothesis draw into n <= 64 bytes of full-width material; deterministic."""
    return hashlib.sha512(b"C09/" + b).digest()[:n]


def material(n):
    return st.binary(max_size=6).map(lambda b: _h(b, n))


def seeds():
    return st.one_of(
        st.sampled_from([16, 32, 64]).flatmap(lambda n: st.binary(min_size=n, max_size=n)),
        st.binary(min_size=16, max_size=64),
        st.integers(16, 64).flatmap(material),
        gen.lookalike_keys32(),  # seeds whose bytes read as text (hex digits, whitespace at the ends)
        st.integers(14, 62).flatmap(lambda n: st.binary(min_size=n, max_size=n)).map(lambda b: b" " + b + b"\n"),
    ).map(hx)


def indices():
    return st.one_of(st.sampled_from(IDX_SPECIAL), st.sampled_from(IDX_SPECIAL), st.integers(0, 2**32 - 1), st.integers(0, 50), st.integers(HARD, HARD + 50))


def plain_indices():
    return st.one_of(st.sampled_from(PLAIN_SPECIAL), st.integers(0, HARD - 1), st.integers(0, 50))


def depths(tier, lo=0):
    if tier == "quick":
        return st.sampled_from([d for d in [0, 1, 1, 2, 2, 2, 3, 3, 3, 4, 4, 5, 6, 8] if d >= lo])
    return st.integers(lo, 8)


def nets():
    return st.sampled_from(["main", "test"])


def derive_cases(tier):
    return st.fixed_dictionaries(
        {
            "seed": seeds(),
            "net": nets(),
            "path": depths(tier).flatmap(lambda d: st.lists(indices(), min_size=d, max_size=d)),
            "search": st.sampled_from([None] * 8 + ["key0", "key0", "cc0", "il0", "px0", "fp0"]),
        }
    )


# ---------------------------------------------------------------- commute


def check_commute(case):
    if case["kind"] == "func":
        return _check_commute_func(case)
    whd = _hd()
    f = Fails()
    root = _root(case)
    parent = root.derive_path(case["start"]) if root is not None else None
    if parent is None:
        return ["ref-invalid-child"], f
    xprv, xpub = parent.string(), parent.neuter().string()
    cls = ["path", "net:" + case["net"], "start-root" if not case["start"] else "nt:start-non-root"]
    suffix = list(case["suffix"])
    if case.get("hard_at") is not None:
        suffix.insert(case["hard_at"], case["hard_idx"])
        cls.append("nt:hardened-from-public")
        cls.append(f"hardened-at-{case['hard_at']}")
        got = attempt(whd.derive_from_path, ref.fmt_path("M", suffix), xpub)
        f.expect(raised(got), "commute/path/hardened-from-public-accepted", f"M path {ref.fmt_path('M', suffix)} returned {got!r}")
        return cls, f
    cls += ["nt:pub-vs-priv"] + [c for c in _path_classes(suffix) if c.startswith(("nt:idx", "depth"))]
    want = parent.derive_path(suffix)
    viapub = parent.neuter().derive_path(suffix)
    if want is None or viapub is None:
        return ["ref-invalid-child"], f
    assert viapub == want.neuter()  # reference sanity (harness error if it ever fails)
    a = attempt(whd.derive_from_path, ref.fmt_path("M", suffix), xpub)
    d = _diff(a, viapub.string())
    f.expect(d is None, f"commute/path/public-branch-ne-reference/{d}", f"{a!r} want {viapub.string()!r}")
    b = attempt(whd.derive_from_path, ref.fmt_path("m", suffix), xprv)
    d = _diff(b, want.string())
    if f.expect(d is None, f"commute/path/private-branch-ne-reference/{d}", f"{b!r} want {want.string()!r}"):
        b = attempt(whd.get_xpub, b)
        d = _diff(b, viapub.string())
        f.expect(d is None, f"commute/path/xpub-of-private-branch-ne-reference/{d}", f"{b!r} want {viapub.string()!r}")
    if not f:
        # the statement itself, library against library
        f.expect(a == b, "commute/path/public-ne-private", f"{a!r} vs {b!r}")
    # the other two pairings of path head and key kind: no private key can come out of an xpub, and M/... of an xprv
    # is at most the neutered key; a refusal is fine for both
    if suffix:
        c = attempt(whd.derive_from_path, ref.fmt_path("m", suffix), xpub)
        f.expect(raised(c) or _diff(c, viapub.string()) is None, "commute/path/private-path-from-xpub-returns-other-key", f"{c!r}")
        c = attempt(whd.derive_from_path, ref.fmt_path("M", suffix), xprv)
        f.expect(raised(c) or _diff(c, viapub.string()) is None, "commute/path/public-path-from-xprv-returns-other-key", f"{c!r}")
        cls.append("nt:head-kind-mismatch")
        # paths that name no child: an index that does not fit four bytes, a hardened index at or above 2^31, junk
        tail = ref.fmt_path("m", suffix)[1:]
        for bad in (f"m{tail}/4294967296", f"m{tail}/2147483648'", f"m{tail}/-1", f"m{tail}/", f"m{tail}/x", f"x{tail}", f"m{tail}/1.5"):
            c = attempt(whd.derive_from_path, bad, xprv)
            f.expect(raised(c), "commute/path/malformed-path-accepted", f"path {bad!r} returned {c!r}")
    return cls, f


def _check_commute_func(case):
    b32 = _b32()
    f = Fails()
    k, c, i = int(case["k"], 16), bx(case["c"]), case["i"]
    K = ec.mul(k, ec.G)
    cls = ["func", "nt:hardened-index" if i >= HARD else "nt:plain-index"]
    if i in IDX_SPECIAL:
        cls.append(f"idx-special-{IDX_SPECIAL.index(i)}")
    if k in (1, 2, 3, ec.N - 1, ec.N - 2) or k.bit_length() <= 248:
        cls.append("nt:boundary-or-short-scalar")
    wpriv = ref.ckd_priv(k, c, i)
    if wpriv is None:
        return ["ref-invalid-child"], f
    if i >= HARD:
        # no scalar multiplication on the library side: cheap
        got = attempt(b32.CKDpub, K, c, i)
        f.expect(raised(got), "commute/CKDpub/hardened-accepted", f"returned {got!r}")
        p = attempt(b32.CKDpriv, k, c, i)
        ok = (not raised(p)) and seq(p) == wpriv
        f.expect(ok, "commute/CKDpriv/ne-reference/hardened", f"{p!r}")
        return cls, f
    wpub = ref.ckd_pub(K, c, i)
    if wpub is None:
        return ["ref-invalid-child"], f
    assert wpub == (ec.mul(wpriv[0], ec.G), wpriv[1])
    n = attempt(b32.N, k, c)
    okn = (not raised(n)) and _ptpair(n) == (K, c)
    f.expect(okn, "commute/N/ne-reference", f"{n!r}")
    parent_pub = n if okn else (K, c)
    lhs = attempt(b32.CKDpub, parent_pub[0], parent_pub[1], i)
    ok = (not raised(lhs)) and _ptpair(lhs) == wpub
    f.expect(ok, "commute/CKDpub/ne-reference", f"{lhs!r} want {wpub!r}")
    p = attempt(b32.CKDpriv, k, c, i)
    okp = (not raised(p)) and seq(p) == wpriv
    f.expect(okp, "commute/CKDpriv/ne-reference/plain", f"{p!r} want {wpriv!r}")
    if okp:
        rhs = attempt(b32.N, p[0], p[1])
        ok = (not raised(rhs)) and _ptpair(rhs) == wpub
        f.expect(ok, "commute/N-of-child/ne-reference", f"{rhs!r}")
        if not f:
            f.expect(_ptpair(lhs) == _ptpair(rhs), "commute/CKDpub-N-ne-N-CKDpriv", f"{lhs!r} vs {rhs!r}")
    return cls, f


def keys():
    """Private keys in [1, n-1]: boundary / short scalars and (two thirds) full-width ones."""
    full = material(32).map(lambda b: int.from_bytes(b, "big") % (ec.N - 1) + 1)
    return st.one_of(gen.scalars_valid(), full, full)


def chaincodes():
    return st.one_of(
        material(32), material(32), st.binary(min_size=32, max_size=32), st.sampled_from([b"\x00" * 32, b"\xff" * 32, b"\x00" * 31 + b"\x01"])
    ).map(hx)


@st.composite
def commute_cases(draw, tier):
    kind = draw(st.sampled_from(["func-hard", "path-hard", "func", "path", "path", "func"]))
    if kind.startswith("func"):
        k = draw(keys())
        c = draw(chaincodes())
        if kind == "func-hard":
            i = draw(st.one_of(st.sampled_from([HARD, HARD + 1, 2**32 - 1]), st.integers(HARD, 2**32 - 1)))
        else:
            i = draw(plain_indices())
        return {"kind": "func", "k": f"{k:064x}", "c": c, "i": i}
    case = {
        "kind": "path",
        "seed": draw(seeds()),
        "net": draw(nets()),
        "start": draw(st.lists(indices(), max_size=2)),
    }
    if kind == "path-hard":
        suffix = draw(st.lists(plain_indices(), max_size=2))
        case["suffix"] = suffix
        case["hard_at"] = draw(st.integers(0, len(suffix)))
        case["hard_idx"] = draw(st.one_of(st.sampled_from([HARD, HARD + 1, 2**32 - 1]), st.integers(HARD, 2**32 - 1)))
    else:
        case["suffix"] = draw(st.lists(plain_indices(), min_size=1, max_size=3 if tier == "quick" else 5))
        case["hard_at"] = None
    return case


# ---------------------------------------------------------------- compose


def check_compose(case):
    whd = _hd()
    f = Fails()
    root = _root(case)
    start = root.derive_path(case["start"]) if root is not None else None
    if start is None:
        return ["ref-invalid-child"], f
    pub = case["mode"] == "pub"
    if pub:
        start = start.neuter()
    head = "M" if pub else "m"
    path, j = case["path"], case["split"]
    want = start.derive_path(path)
    if want is None:
        return ["ref-invalid-child"], f
    sc = "root" if not case["start"] else "non-root"
    cls = ["mode:" + case["mode"], "nt:start-" + sc if case["start"] else "start-root", "net:" + case["net"]]
    cls += _path_classes(path)
    cls.append("nt:split-empty-prefix" if j == 0 else "nt:split-empty-suffix" if j == len(path) else "nt:split-inner")
    s0 = start.string()
    whole = attempt(whd.derive_from_path, ref.fmt_path(head, path), s0)
    d = _diff(whole, want.string())
    f.expect(d is None, f"compose/path-ne-reference/{case['mode']}/{d}", f"{whole!r} want {want.string()!r}")
    # the statement is library-vs-library; fall back to the reference when the whole-path call gave nothing usable
    if isinstance(whole, (bytes, bytearray)) and rb58.check_decode(bytes(whole)) is not None:
        base, label = bytes(whole), "path"
    else:
        base, label = want.string(), "reference"
    # one step at a time
    cur = s0
    for i in path:
        cur = attempt(whd.derive_from_path, ref.fmt_path(head, [i]), cur)
        if raised(cur):
            break
    d = _diff(cur, base)
    f.expect(d is None, f"compose/stepwise-ne-{label}/{d}", f"stepwise {cur!r} whole {whole!r}")
    # split at position j (j = 0 and j = len(path) exercise the bare 'm' / 'M' path)
    a = attempt(whd.derive_from_path, ref.fmt_path(head, path[:j]), s0)
    b = a if raised(a) else attempt(whd.derive_from_path, ref.fmt_path(head, path[j:]), a)
    d = _diff(b, base)
    f.expect(d is None, f"compose/split-ne-{label}/{d}", f"split at {j}: {b!r} whole {whole!r}")
    # history: a path whose TEXT is a prefix of this path's text but which names another child ("m/0" before "m/0'",
    # "m/0'/1" before "m/0'/12") is derived from the same key first; the path itself must still give the same key, and so
    # must the shorter one when asked again afterwards
    pstr = ref.fmt_path(head, path)
    mids = [pstr[:c] for c in range(len(head) + 2, len(pstr)) if pstr[c] != "/" and pstr[c - 1] != "/"]
    for t in mids[-1:] + mids[:1] if len(mids) > 1 else mids:
        idxs = attempt(ref.parse_path, t)
        if raised(idxs):
            continue
        tw = start.derive_path(list(idxs[1]) if isinstance(idxs, tuple) else list(idxs))
        if tw is None:
            continue
        first = attempt(whd.derive_from_path, t, s0)
        again = attempt(whd.derive_from_path, pstr, s0)
        d = _diff(again, want.string())
        f.expect(d is None, f"compose/path-ne-reference-after-text-prefix-path/{d}", f"{t} then {pstr}: {again!r} want {want.string()!r}")
        back = attempt(whd.derive_from_path, t, s0)
        ok = (raised(first) and raised(back)) or _diff(back, tw.string()) is None
        f.expect(ok, "compose/text-prefix-path-ne-reference-after-longer-path", f"{pstr} then {t}: {back!r} want {tw.string()!r}")
        cls.append("nt:after-text-prefix-path")
    return cls, f


@st.composite
def compose_cases(draw, tier):
    mode = draw(st.sampled_from(["pub", "prv", "prv"]))
    d = draw(st.sampled_from([1, 2, 2, 3, 3, 4]) if tier == "quick" else st.integers(1, 8))
    path = draw(st.lists(plain_indices() if mode == "pub" else indices(), min_size=d, max_size=d))
    return {
        "seed": draw(seeds()),
        "net": draw(nets()),
        "mode": mode,
        "start": draw(st.lists(indices(), max_size=2)),
        "path": path,
        "split": draw(st.integers(0, d)),
    }


# ---------------------------------------------------------------- serialise


def _ser_form(case):
    if case["child_as"] == "int":
        return "child_no-int"
    if case["depth_as"] == "int":
        return "depth-int"
    return "bytes-args"


def check_serialise(case):
    b32 = _b32()
    f = Fails()
    k = int(case["k"], 16)
    prv = case["kind"] == "prv"
    key = k if prv else ec.mul(k, ec.G)
    net = "test" if case["testnet"] else "main"
    depth, child, fp, cc = case["depth"], case["child"], bx(case["fp"]), bx(case["cc"])
    x = ref.XKey(net, case["kind"], depth, fp, child, cc, key)
    want = x.string()
    chk, why = ref.parse(want)
    assert why is None and chk == x  # generator builds valid keys only
    form = _ser_form(case)
    cls = ["kind:" + case["kind"], "net:" + net, "form:" + form]
    if form != "bytes-args":
        cls.append("nt:int-typed-" + form)
    if depth == 0:
        cls.append("nt:depth-0")
    elif depth == 255:
        cls.append("nt:depth-255")
    if child >= HARD:
        cls.append("child-hardened")
    if k.bit_length() <= 248:
        cls.append("nt:key-leading-zero-bytes")
    darg = depth if case["depth_as"] == "int" else bytes([depth])
    carg = child if case["child_as"] == "int" else child.to_bytes(4, "big")
    s = attempt(b32.serialized_extended_key, key, cc, darg, fp, carg, case["testnet"])
    d = _diff(s, want)
    f.expect(d is None, f"serialise/{form}/{d}", f"{s!r} want {want!r}")
    if depth == 0:
        r = attempt(b32.root_serialized_extended_key, key, cc, case["testnet"])
        d = _diff(r, want)
        f.expect(d is None, f"serialise/root/{d}", f"{r!r} want {want!r}")
    _check_accept(f, b32, want, x, "serialise/deser")
    return cls, f


def _check_accept(f, b32, s, x, tag, label=""):
    """deserialized_extended_key(s) must return the fields of the reference key x, in both forms.
    label (the mutation applied) is part of the signature only when a valid key is refused."""
    version = ref.VER[(x.net, x.kind)]
    t = attempt(b32.deserialized_extended_key, s)
    tuple_ok = False
    if raised(t):
        f.add(f"{tag}/valid-rejected/{x.kind}{label}", f"{t!r} on {s!r}")
    else:
        want_t = (version, bytes([x.depth]), x.fp, x.child.to_bytes(4, "big"), x.cc, x.key)
        got_t = tuple(_pt(v) if isinstance(v, (tuple, list)) else v for v in t) if isinstance(t, (tuple, list)) else t
        tuple_ok = got_t == want_t
        if not tuple_ok:
            names = ["version", "depth", "fingerprint", "child", "chaincode", "key"]
            bad = (
                "+".join(n for n, g, w in zip(names, got_t, want_t) if g != w)
                if isinstance(got_t, tuple) and len(got_t) == 6
                else "shape"
            )
            f.add(f"{tag}/tuple-ne-fields/{x.kind}/{bad}", f"{t!r} want {want_t!r}")
    dct = attempt(b32.deserialized_extended_key, s, return_dict=True)
    if raised(dct):
        if not raised(t):
            f.add(f"{tag}/dict-form-rejected/{x.kind}", f"{dct!r}")
    elif tuple_ok or raised(t):
        want_d = {
            "version": version.hex(),
            "depth": x.depth,
            "parent_key_fingerprint": x.fp.hex(),
            "child_no": x.child,
            "chaincode": x.cc.hex(),
            "key": (ref.ser256(x.key) if x.kind == "prv" else ref.ser_p(x.key)).hex(),
        }
        if dct != want_d:
            bad = "+".join(sorted(n for n in want_d if not isinstance(dct, dict) or dct.get(n) != want_d[n])) or "extra-keys"
            f.add(f"{tag}/dict-ne-fields/{x.kind}/{bad}", f"{dct!r} want {want_d!r}")
        elif isinstance(dct, dict):
            # the caller owns what it was handed: emptying that dict must not change what the next call returns
            dct.clear()
            again = attempt(b32.deserialized_extended_key, s, return_dict=True)
            if again != want_d:
                f.add(f"{tag}/dict-ne-fields-after-caller-edited-earlier-result/{x.kind}", f"{again!r} want {want_d!r}")


@st.composite
def xkey_fields(draw):
    depth = draw(st.one_of(st.sampled_from([0, 0, 1, 2, 5, 255]), st.integers(0, 255)))
    if depth == 0:
        fp, child = b"\x00" * 4, 0
    else:
        fp = draw(st.one_of(material(4), st.binary(min_size=4, max_size=4), st.just(b"\x00" * 4)))
        child = draw(indices())
    return {
        "kind": draw(st.sampled_from(["prv", "pub"])),
        "k": f"{draw(keys()):064x}",
        "cc": draw(chaincodes()),
        "depth": depth,
        "fp": hx(fp),
        "child": child,
        "testnet": draw(st.booleans()),
    }


@st.composite
def serialise_cases(draw):
    case = draw(xkey_fields())
    case["depth_as"] = draw(st.sampled_from(["bytes", "int"]))
    case["child_as"] = draw(st.sampled_from(["bytes", "int"]))
    return case


# ---------------------------------------------------------------- reject


def check_reject(case):
    b32 = _b32()
    f = Fails()
    s = bx(case["s"])
    mut = case["mut"]
    cls = ["mut:" + mut]
    x, why = ref.parse(s)
    if x is None:
        cls.append("nt:expect-reject:" + why)
        if mut == "official":
            cls.append("nt:official-invalid-key")
        t = attempt(b32.deserialized_extended_key, s)
        f.expect(raised(t), f"reject/accepts-invalid/{why}", f"returned {t!r} for {s!r}")
        dct = attempt(b32.deserialized_extended_key, s, return_dict=True)
        f.expect(raised(dct) or not raised(t), f"reject/dict-form-accepts-invalid/{why}", f"returned {dct!r} for {s!r}")
    else:
        if mut in ("none", "official-valid"):
            cls.append("expect-accept:unmutated")
        else:
            cls.append("nt:expect-accept:" + mut)
        _check_accept(f, b32, s, x, "reject/valid", "/" + mut)
    return cls, f


KEY_BODIES = [0, 1, 2, 3, 4, 5, 6, 7, ec.N - 1, ec.N, ec.N + 1, ec.P - 1, ec.P, ec.P + 1, 2**256 - 1, 1 << 255]
OFFICIAL_VALID = [row[k] for _, rows in ref.VECTORS for row in rows for k in (1, 2)]


@st.composite
def reject_cases(draw):
    mut = draw(
        st.sampled_from(
            [
                "none", "version-random", "version-bit", "version-near", "version-near", "version-window", "version-swap-kind", "version-swap-net", "key-prefix", "key-prefix",
                "key-body-special", "key-body-special", "key-body-random", "depth0-fingerprint", "depth0-index", "depth0-clean",
                "chaincode", "fingerprint", "depth", "length", "length", "checksum-bit", "string-edit", "byte-flip", "official",
            ]
        )
    )
    if mut == "official":
        pick = draw(st.integers(0, len(ref.INVALID) + 3))
        if pick < len(ref.INVALID):
            return {"s": hx(ref.INVALID[pick][0].encode()), "mut": "official"}
        return {"s": hx(draw(st.sampled_from(OFFICIAL_VALID)).encode()), "mut": "official-valid"}
    b = draw(xkey_fields())
    k = int(b["k"], 16)
    key = k if b["kind"] == "prv" else ec.mul(k, ec.G)
    x = ref.XKey("test" if b["testnet"] else "main", b["kind"], b["depth"], bx(b["fp"]), b["child"], bx(b["cc"]), key)
    p = bytearray(x.payload())
    cks = None
    if mut == "version-random":
        p[0:4] = draw(st.binary(min_size=4, max_size=4))
    elif mut == "version-bit":
        p[draw(st.integers(0, 3))] ^= 1 << draw(st.integers(0, 7))
    elif mut == "version-near":
        # a neighbour of the valid version: the Base58 string keeps its xprv/xpub/tprv/tpub look
        v = (int.from_bytes(p[0:4], "big") + draw(st.sampled_from([-8, -5, -3, -2, -1, 1, 2, 3, 5, 8]))) % 2**32
        p[0:4] = v.to_bytes(4, "big")
    elif mut == "version-window":
        # four bytes cut out of the valid version constants laid end to end (every order of the constants): not a version
        order = draw(st.permutations([ref.VER[("main", "prv")], ref.VER[("test", "prv")], ref.VER[("main", "pub")], ref.VER[("test", "pub")]]))
        cat = b"".join(order)
        off = draw(st.sampled_from([1, 2, 3, 5, 6, 7, 9, 10, 11]))
        p[0:4] = cat[off : off + 4]
        if draw(st.booleans()):  # with the key kind that the neighbouring constant implies, as well as with its own
            p[45:78] = (b"\x00" + (k % ec.N or 1).to_bytes(32, "big")) if draw(st.booleans()) else ec.sec1_encode(ec.mul(k % ec.N or 1, ec.G), True)
    elif mut == "version-swap-kind":
        p[0:4] = ref.VER[(x.net, "pub" if x.kind == "prv" else "prv")]
    elif mut == "version-swap-net":
        p[0:4] = ref.VER[("main" if x.net == "test" else "test", x.kind)]
    elif mut == "key-prefix":
        p[45] = draw(st.one_of(st.sampled_from([0, 1, 2, 3, 4, 5, 6, 7, 0xFF]), st.integers(0, 255)))
    elif mut == "key-body-special":
        p[46:78] = draw(st.sampled_from(KEY_BODIES)).to_bytes(32, "big")
    elif mut == "key-body-random":
        p[46:78] = draw(st.binary(min_size=32, max_size=32))
    elif mut == "depth0-fingerprint":
        p[4] = 0
        p[5:9] = draw(st.integers(1, 2**32 - 1)).to_bytes(4, "big")
        if draw(st.booleans()):
            p[9:13] = b"\x00" * 4
    elif mut == "depth0-index":
        p[4] = 0
        p[5:9] = b"\x00" * 4
        p[9:13] = draw(st.one_of(st.sampled_from([1, HARD, 2**32 - 1, 1 << 8, 1 << 16, 1 << 24]), st.integers(1, 2**32 - 1))).to_bytes(4, "big")
    elif mut == "depth0-clean":
        p[4] = 0
        p[5:13] = b"\x00" * 8
    elif mut == "chaincode":
        p[13:45] = bx(draw(chaincodes()))
    elif mut == "fingerprint":
        p[5:9] = draw(st.one_of(st.binary(min_size=4, max_size=4), st.just(b"\x00" * 4)))
    elif mut == "depth":
        p[4] = draw(st.integers(0, 255))
    elif mut == "length":
        how = draw(st.sampled_from(["drop-last", "append", "drop-first", "prefix", "extend", "extend-32", "empty"]))
        if how == "drop-last":
            del p[-1]
        elif how == "append":
            p.append(draw(st.integers(0, 255)))
        elif how == "drop-first":
            del p[0]
        elif how == "prefix":
            del p[draw(st.integers(0, 77)) :]
        elif how == "extend":
            p += draw(st.binary(min_size=1, max_size=5))
        elif how == "extend-32":  # a 65-byte key field: must not be read as SEC1 with trailing junk / uncompressed
            p += draw(st.binary(min_size=32, max_size=32))
        else:
            del p[:]
    elif mut == "checksum-bit":
        ck = bytearray(rb58.checksum(bytes(p)))
        ck[draw(st.integers(0, 3))] ^= 1 << draw(st.integers(0, 7))
        cks = bytes(ck)
    elif mut == "byte-flip":
        p[draw(st.integers(0, 77))] ^= draw(st.integers(1, 255))
    if mut == "string-edit":
        s, _ = draw(gen.edit_mutation(x.string(), rb58.ALPHABET.encode(), b"0OIl ", max_edits=2))
    elif cks is not None:
        s = rb58.encode(bytes(p) + cks)
    else:
        s = rb58.check_encode(bytes(p))
    return {"s": hx(s), "mut": mut}


# ---------------------------------------------------------------- targets

REJECT_REASONS = [
    "version", "pubversion-prvkey", "prvversion-pubkey", "pubkey-prefix", "prvkey-prefix", "prvkey-range",
    "pubkey-not-on-curve", "pubkey-x-range", "depth0-fingerprint", "depth0-index", "length", "base58check",
]


def targets(tier):
    return [
        Target(
            "derive",
            check_derive,
            strategy=derive_cases,
            budget={"quick": 240, "thorough": 4000},
            required=["nt:mixed-hardened-plain", "nt:idx-max-plain", "nt:idx-min-hardened", "nt:idx-max-hardened", "net:main", "net:test", "depth-0", "all-plain", "all-hardened",
                      "nt:lead0-key0", "nt:lead0-cc0", "nt:lead0-il0", "nt:lead0-px0", "nt:lead0-fp0", "nt:derive_child"],
        ),
        Target(
            "wallet",
            check_wallet,
            strategy=wallet_cases,
            budget={"quick": 96, "thorough": 1500},
            required=["wallet", "depth-0", "nt:mixed-hardened-plain"],
        ),
        Target(
            "commute",
            check_commute,
            strategy=lambda tier: commute_cases(tier),
            budget={"quick": 224, "thorough": 4000},
            required=["nt:pub-vs-priv", "nt:hardened-from-public", "nt:plain-index", "nt:hardened-index", "nt:start-non-root", "start-root"],
        ),
        Target(
            "compose",
            check_compose,
            strategy=lambda tier: compose_cases(tier),
            budget={"quick": 80, "thorough": 1200},
            required=["mode:pub", "mode:prv", "nt:split-inner", "nt:split-empty-prefix", "nt:split-empty-suffix", "nt:start-non-root", "start-root", "nt:after-text-prefix-path"],
        ),
        Target(
            "serialise",
            check_serialise,
            strategy=lambda tier: serialise_cases(),
            budget={"quick": 2400, "thorough": 60000},
            required=["kind:prv", "kind:pub", "form:bytes-args", "form:depth-int", "form:child_no-int", "nt:depth-0", "nt:depth-255", "net:test"],
        ),
        Target(
            "reject",
            check_reject,
            strategy=lambda tier: reject_cases(),
            budget={"quick": 4800, "thorough": 120000},
            required=["nt:expect-reject:" + r for r in REJECT_REASONS]
            + ["nt:expect-accept:chaincode", "nt:expect-accept:fingerprint", "nt:expect-accept:key-prefix", "nt:official-invalid-key", "expect-accept:unmutated"],
        ),
    ]
