"""C11 — BIP143 signature message is the specified preimage for every input and sighash type."""
from hypothesis import strategies as st

from vf import gen, gen_tx
from vf.core import Fails, Target, attempt, bx, hexof, hx, raised
from vf.ref import der, ec, txref

PROPERTY = "C11"
LEVEL = "exploration"
RULE = (
    "Transactions with 1..8 inputs and 1..8 outputs (full-range sequences, values 0..21e14 and beyond, scripts 0..80 bytes), every "
    "input index, the six standard sighash types, version/locktime over [0,2^32-1] boundary-biased, amount over [0,21e14] (+2^63 "
    "boundaries), scriptCode lengths 1..600 crossing 252/253 with CompactSize prefix; SINGLE forced into index <, = and > number of "
    "outputs. Oracle: independent BIP143 preimage (vf/ref/txref.py) byte-for-byte and witness_digest == HASH256; a sub-sample signs "
    "through bits.sig(msg_preimage=True) and the reference ECDSA verifier checks the signature against the reference sighash. "
    "Non-trivial: flag != ALL, SINGLE with index >= outputs, index > 0, non-default version/locktime."
)
ASSUMPTIONS = ["vf/ref/txref.py bip143_preimage reproduces the BIP143 example sighash", "vf/ref/ec.py ECDSA verifier (cross-checked with OpenSSL)"]
SELFCHECKS = [txref.selfcheck, ec.selfcheck]

FLAGS = [0x01, 0x02, 0x03, 0x81, 0x82, 0x83]
FLAGNAME = {1: "ALL", 2: "NONE", 3: "SINGLE", 0x81: "ALL|ACP", 0x82: "NONE|ACP", 0x83: "SINGLE|ACP"}


def check(case):
    import bits
    import bits.bips.bip143 as b143

    rtx = gen_tx.to_ref(case["tx"])
    idx = case["index"] % len(rtx["ins"])
    flag = case["flag"]
    amount = case["amount"]
    sc = gen_tx.expand(case["scriptcode"])
    sc_ser = txref.compact_size(len(sc)) + sc
    cls = ["flag:" + FLAGNAME[flag]]
    if flag != 1:
        cls.append("nt:flag!=ALL")
    if flag & 0x1F == 3:
        cls.append("nt:single-idx>=out" if idx >= len(rtx["outs"]) else "nt:single-idx<out")
        cls.append(f"nt:{FLAGNAME[flag]}/{'idx>=out' if idx >= len(rtx['outs']) else 'idx<out'}")
    if idx > 0:
        cls.append("nt:index>0")
    if rtx["version"] != 1 or rtx["locktime"] != 0:
        cls.append("nt:non-default-version-locktime")
    if len(sc) >= 253:
        cls.append("nt:scriptcode>=253")
    if any(len(i["script"]) >= 253 for i in rtx["ins"]):
        cls.append("nt:an-input-scriptsig>=253")
    f = Fails()
    txins = [txref.ser_in(i) for i in rtx["ins"]]
    txouts = [txref.ser_out(o) for o in rtx["outs"]]
    if case.get("prior"):
        # history: a different transaction spending the SAME outpoints (other sequences / outputs, e.g. a fee bump) is
        # processed first in the same process; its result is checked too
        cls.append("nt:after-related-tx")
        v = case["prior"]
        rtx2 = dict(rtx, ins=[dict(i, sequence=(i["sequence"] ^ v["seqx"]) & 0xFFFFFFFF) for i in rtx["ins"]],
                    outs=[dict(o, value=(o["value"] + v["dv"]) % 2**63) for o in rtx["outs"]][: max(1, len(rtx["outs"]) - v["drop"])])
        w2 = txref.bip143_preimage(rtx2, idx, sc_ser, amount, flag)
        g2 = attempt(b143.witness_message, [txref.ser_in(i) for i in rtx2["ins"]], idx, amount, sc_ser, [txref.ser_out(o) for o in rtx2["outs"]],
                     version=rtx2["version"], locktime=rtx2["locktime"], sighash_flag=flag)
        f.expect(not raised(g2) and g2 == w2, f"preimage/ne-bip143/related-tx-first/{FLAGNAME[flag]}", _diff(g2, w2))
    want = txref.bip143_preimage(rtx, idx, sc_ser, amount, flag)
    got = attempt(b143.witness_message, txins, idx, amount, sc_ser, txouts, version=rtx["version"], locktime=rtx["locktime"], sighash_flag=flag)
    tag = FLAGNAME[flag] + ("/idx>=out" if idx >= len(rtx["outs"]) else "")
    if not f.expect(not raised(got) and got == want, f"preimage/ne-bip143/{tag}", _diff(got, want)):
        return cls, f
    dg = attempt(b143.witness_digest, got)
    f.expect(dg == txref.hash256(want), "digest/ne-hash256", repr(dg))
    if case.get("sign"):
        cls.append("nt:signed")
        d = case["sign"]["key"]
        key = d.to_bytes(32, "big")
        sig = attempt(bits.sig, key, got, sighash_flag=flag, msg_preimage=True)
        if raised(sig):
            f.add("sign/raises", sig)
        else:
            rs = der.decode_strict(sig[:-1]) if isinstance(sig, (bytes, bytearray)) else None
            z = int.from_bytes(txref.bip143_sighash(rtx, idx, sc, amount, flag), "big")
            ok = rs is not None and sig[-1] == flag and ec.ecdsa_verify(ec.pub(d), z, *rs)
            f.expect(ok, "sign/invalid-for-reference-sighash", hexof(sig))
    return cls, f


def _diff(got, want):
    if raised(got):
        return repr(got)
    if not isinstance(got, (bytes, bytearray)):
        return f"not a byte string: {got!r}"[:120]
    names = [("version", 4), ("hashPrevouts", 32), ("hashSequence", 32), ("outpoint", 36)]
    o = 0
    for n, ln in names:
        if got[o : o + ln] != want[o : o + ln]:
            return f"field {n} differs"
        o += ln
    if got[-4:] != want[-4:]:
        return "field sighash type differs"
    if got[-8:-4] != want[-8:-4]:
        return "field locktime differs"
    if got[-40:-8] != want[-40:-8]:
        return "field hashOutputs differs"
    if got[-44:-40] != want[-44:-40]:
        return "field sequence differs"
    if got[-52:-44] != want[-52:-44]:
        return "field amount differs"
    return f"scriptCode region differs (len {len(got)} vs {len(want)})"


@st.composite
def cases(draw, sign=False):
    n_in = draw(st.integers(1, 8))
    n_out = draw(st.integers(1, 8))
    ins = [
        {
            "txid": draw(st.binary(min_size=32, max_size=32)).hex(),
            "vout": draw(gen_tx.u32()),
            # scriptSigs of the inputs as they are in a partly signed transaction: empty, a nested-segwit push, or a whole legacy
            # (P2SH multisig) scriptSig of 253 bytes and more, whose length takes the 3-byte form
            "script": draw(st.binary(max_size=30)).hex() if draw(st.integers(0, 4)) else f"R{draw(st.sampled_from([76, 107, 252, 253, 254, 255, 300, 520]))}:{draw(st.binary(min_size=1, max_size=3)).hex()}",
            "sequence": draw(st.one_of(st.sampled_from(gen_tx.SEQS), st.integers(0, 0xFFFFFFFF))),
            "witness": [],
        }
        for _ in range(n_in)
    ]
    outs = [
        {"value": draw(st.one_of(st.sampled_from(gen_tx.VALUES), st.integers(0, 21 * 10**14))), "script": draw(st.binary(max_size=40)).hex()}
        for _ in range(n_out)
    ]
    flag = draw(st.sampled_from(FLAGS))
    if flag & 0x1F == 3:
        rel = draw(st.sampled_from(["lt", "eq", "gt", "any"]))
        if rel == "lt":
            index = draw(st.integers(0, min(n_in, n_out) - 1))
        elif rel == "eq" and n_in > n_out:
            index = n_out
        elif rel == "gt" and n_in > n_out + 1:
            index = draw(st.integers(n_out + 1, n_in - 1))
        else:
            index = draw(st.integers(0, n_in - 1))
    else:
        index = draw(st.integers(0, n_in - 1))
    sl = draw(st.one_of(st.integers(1, 80), st.sampled_from([1, 25, 75, 76, 251, 252, 253, 254, 255, 256, 257, 520, 599, 600]), st.integers(1, 600)))
    case = {
        "tx": {
            "version": draw(st.sampled_from([1, 1, 2]) | gen_tx.u32()),
            "locktime": draw(st.sampled_from([0, 0]) | gen_tx.u32()),
            "segwit": True,
            "ins": ins,
            "outs": outs,
        },
        "index": index,
        "flag": flag,
        "amount": draw(st.one_of(st.sampled_from([0, 1, 546, 21 * 10**14, 600000000, 2**32, 2**32 - 1]), st.integers(0, 21 * 10**14))),
        "scriptcode": f"R{sl}:{draw(st.binary(min_size=1, max_size=4)).hex()}",
    }
    if sign:
        case["sign"] = {"key": draw(gen.scalars_valid())}
    if draw(st.integers(0, 2)) == 0:
        case["prior"] = {"seqx": draw(st.sampled_from([1, 2, 0xFFFFFFFF])), "dv": draw(st.integers(1, 1000)), "drop": draw(st.integers(0, 1))}
    return case


def enum_corpus(tier):
    # BIP143 native P2WPKH example (input 1) and the same tx under every flag / both indices
    tx = {
        "version": 1, "locktime": 17, "segwit": True,
        "ins": [
            {"txid": "fff7f7881a8099afa6940d42d1e7f6362bec38171ea3edf433541db4e4ad969f", "vout": 0, "script": "", "sequence": 0xFFFFFFEE, "witness": []},
            {"txid": "ef51e1b804cc89d182d279655c3aa89e815b1b309fe287d9b2b55d57b90ec68a", "vout": 1, "script": "", "sequence": 0xFFFFFFFF, "witness": []},
        ],
        "outs": [
            {"value": 112340000, "script": "76a9148280b37df378db99f66f85c95a783a76ac7a6d5988ac"},
            {"value": 223450000, "script": "76a9143bde42dbee7e4dbe6a21b2d50ce2f0167faa815988ac"},
        ],
    }
    for flag in FLAGS:
        for idx in (0, 1):
            yield {"tx": tx, "index": idx, "flag": flag, "amount": 600000000, "scriptcode": "76a9141d0f172a0ecb48aee1be1f2687d2963ae33f71a188ac"}


def selfcheck_corpus():
    c = next(iter(enum_corpus("quick")))
    rtx = gen_tx.to_ref(c["tx"])
    assert txref.bip143_sighash(rtx, 1, bytes.fromhex(c["scriptcode"]), 600000000, 1).hex() == "c37af31116d1b27caf68aae9e3ac82f1477929014d5b917657d0eb49478cb670"


SELFCHECKS.append(selfcheck_corpus)


def _send_tx_target():
    """The statement's last sentence through the library's own signer: send_tx with segwit-family senders builds the BIP143
    messages, signs them and assembles the spending transaction; every input must verify under the reference BIP143
    digest of THAT transaction (generator, scripted RPC and interpreter are those of property C16)."""
    from vf.props import C16

    return Target(
        "send-tx-segwit",
        C16.check,
        strategy=lambda tier: C16.cases(signed=True, kinds=C16.SEGWIT),
        budget={"quick": 240, "thorough": 4000},
        required=["nt:n_in>=2", "nt:flag!=ALL", "nt:non-default-version-locktime", "nt:sign/segwit/single-with-input-index-beyond-outputs"],
    )


def targets(tier):
    req = [f"nt:{FLAGNAME[fl]}/{w}" for fl in (3, 0x83) for w in ("idx<out", "idx>=out")] + ["flag:" + n for n in FLAGNAME.values()]
    return [
        Target("preimage", check, strategy=lambda tier: cases(), budget={"quick": 8000, "thorough": 250000}, required=req + ["nt:scriptcode>=253", "nt:index>0", "nt:after-related-tx", "nt:an-input-scriptsig>=253"]),
        Target("signed", check, strategy=lambda tier: cases(sign=True), budget={"quick": 96, "thorough": 2000}, required=["nt:signed"]),
        Target("fixed-corpus", check, enumerate_=enum_corpus, shards=1),
        _send_tx_target(),
    ]
