"""Transaction grammar shared by C04, C05, C11, C15, C16. Cases are JSON: blobs are 'specs' (see expand)."""
import hashlib

from hypothesis import strategies as st

from vf.ref import txref

LEN_BOUNDARY = [0, 1, 2, 74, 75, 76, 77, 251, 252, 253, 254, 255, 256, 257, 519, 520, 521]
LEN_BIG = [65534, 65535, 65536, 65537, 70000]
# between the element-size limit and the 2-byte CompactSize ceiling: script-size (10000) and 2^15 neighbourhoods
LEN_MID = [3000, 9999, 10000, 10001, 32767, 32768]
U32 = [0, 1, 2, 0x7FFFFFFF, 0x80000000, 0xFFFFFFFE, 0xFFFFFFFF, 499999999, 500000000]
VALUES = [0, 1, 546, 2100000000000000, 2**63 - 1, 2**63, 2**64 - 1, 5000000000]
SEQS = [0, 1, 0xFFFFFFFE, 0xFFFFFFFF, 0xFFFFFFFD, 0x80000000]


def expand(spec: str) -> bytes:
    """'R<len>:<hex>' = repeat the seed bytes up to len; otherwise plain hex."""
    if spec.startswith("R"):
        n, _, seed = spec[1:].partition(":")
        n = int(n)
        s = bytes.fromhex(seed) or b"\x00"
        return (s * (n // len(s) + 1))[:n]
    return bytes.fromhex(spec)


@st.composite
def blob(draw, big=False, min_len=0, small_max=80):
    kind = draw(st.sampled_from(["small", "small", "small", "small", "small", "boundary", "boundary", "boundary", "mid", "big" if big else "boundary"]))
    if kind == "small":
        return draw(st.binary(min_size=min_len, max_size=small_max)).hex()
    if kind == "boundary":
        n = max(min_len, draw(st.sampled_from(LEN_BOUNDARY)))
    elif kind == "mid":
        n = draw(st.sampled_from(LEN_MID))
    else:
        n = draw(st.sampled_from(LEN_BIG))
    seed = draw(st.binary(min_size=1, max_size=4))
    return f"R{n}:{seed.hex()}"


_GX = "79be667ef9dcbbac55a06295ce870b07029bfcdb2dce28d959f2815b16f81798"
_GY = "483ada7726a3c4655da4fbfc0e1108a8fd17b448a68554199c47d08ffb10d4b8"
SCRIPT_LOOKALIKES = [
    b"1A1zP1eP5QGefi2DMPTfTL5SLmv7DivfNa", b"3J98t1WpEZ73CNmQviecrnyiWrnqRhWNLy", b"mipcBbFg9gMiCh81Kj8tqqdgoZub1ZJRfn",  # Base58Check address text
    b"bc1qw508d6qejxtdg4y5r3zarvary0c5xw7kv8f3t4", b"BC1QW508D6QEJXTDG4Y5R3ZARVARY0C5XW7KV8F3T4", b"tb1qw508d6qejxtdg4y5r3zarvary0c5xw7kxpjzsx",
    b"bc1p0xlxvlhemja6c4dqv22uapctqupfhlxm9h8z3k2e72q4k9hcz7vqzk5jj0", b"bcrt1qw508d6qejxtdg4y5r3zarvary0c5xw7kygt080",  # segwit address text
    bytes.fromhex("02" + _GX), bytes.fromhex("03" + _GX), bytes.fromhex("04" + _GX + _GY), bytes.fromhex(_GX),  # encoded public keys (bare, not pushes)
    ("02" + _GX).encode(), b"KwDiBf89QgGbjEhKnhXJuH7LrciVrZi3qYjgd9M7rFU73sVHnoWn", b"76a914" + b"00" * 20 + b"88ac", b"OP_DUP OP_HASH160",
    b"xpub661MyMwAqRbcFtXgS5sYJABqqG9YLmC4Q1Rdap9gSE8NqtwybGhePY2gZ29ESFjqJoCu1Rupje8YtGqsefD265TMg7usUDFdp6W1EGMcet8",
]
SCRIPT_LOOKALIKES_HEX = {b.hex() for b in SCRIPT_LOOKALIKES}


def u32():
    return st.one_of(st.sampled_from(U32), st.integers(0, 0xFFFFFFFF))


@st.composite
def tx_case(draw, profile="full", segwit=None, max_io=None, shapes=None):
    """profile: 'small' (1..4 ins/outs, scripts <= 80), 'full' (boundary counts and lengths), 'big' (+65536)."""
    big = profile == "big"
    small = profile == "small"
    if small:
        n_in = draw(st.integers(1, max_io or 4))
        n_out = draw(st.integers(1, max_io or 4))
        many = False
    else:
        shape = draw(st.sampled_from(shapes or ["few", "few", "few", "few", "mid", "many-in", "many-out"]))
        many = shape.startswith("many")
        n_in = draw(st.sampled_from([252, 253, 254, 300])) if shape == "many-in" else draw(st.integers(1, 3))
        n_out = draw(st.sampled_from([252, 253, 254, 300])) if shape == "many-out" else draw(st.integers(1, 3))
        if shape == "mid":
            n_in, n_out = draw(st.integers(1, 12)), draw(st.integers(4, 40))
    is_segwit = draw(st.booleans()) if segwit is None else segwit
    if many:
        # Hypothesis caps the bytes one example may draw (8 KiB), so wide transactions are expanded from one drawn
        # seed by hashing: still a pure function of drawn values, and the expanded case is what gets stored/replayed.
        seed = draw(st.binary(min_size=8, max_size=8))
        wit_mode = draw(st.sampled_from(["one", "sparse", "all"]))

        def h(tag, k, n):
            return hashlib.sha256(seed + tag + k.to_bytes(4, "big")).digest()[:n]

        ins = [
            {
                "txid": h(b"t", k, 32).hex(),
                "vout": int.from_bytes(h(b"v", k, 4), "big") if k % 3 else k,
                "script": h(b"s", k, h(b"l", k, 1)[0] % 4).hex(),
                "sequence": int.from_bytes(h(b"q", k, 4), "big") if k % 2 else 0xFFFFFFFF,
                "witness": [],
            }
            for k in range(n_in)
        ]
        outs = [
            {"value": int.from_bytes(h(b"a", k, 8), "big") if k % 2 else VALUES[k % len(VALUES)], "script": h(b"o", k, h(b"m", k, 1)[0] % 4).hex()}
            for k in range(n_out)
        ]
        if is_segwit:
            for k, i in enumerate(ins):
                if k == 0 or wit_mode == "all" or (wit_mode == "sparse" and k % 7 == 3):
                    i["witness"] = [h(b"w", k, 1 + k % 3).hex()] * (1 + k % 2)
    else:
        sblob = st.binary(max_size=80).map(bytes.hex) if small else blob(big=big)
        tiny = st.binary(max_size=3).map(bytes.hex)
        if not small and shape == "mid":
            # smallest possible inputs/outputs: empty (or 1-byte) scripts throughout
            sblob = st.just("") if draw(st.booleans()) else st.sampled_from(["", "", "", "51"])
        ins = []
        for _ in range(n_in):
            ins.append(
                {
                    "txid": draw(st.binary(min_size=32, max_size=32)).hex(),
                    "vout": draw(u32()),
                    "script": draw(sblob),
                    "sequence": draw(st.one_of(st.sampled_from(SEQS), st.integers(0, 0xFFFFFFFF))),
                    "witness": [],
                }
            )
        outs = [
            {"value": draw(st.one_of(st.sampled_from(VALUES), st.integers(0, 2**64 - 1))), "script": draw(sblob)}
            for _ in range(n_out)
        ]
        if is_segwit:
            nonempty = draw(st.integers(0, n_in - 1))
            for k, i in enumerate(ins):
                lo = 1 if k == nonempty else 0
                cnt = draw(st.sampled_from([0, 1, 2, 3, 5])) if not small else draw(st.integers(0, 3))
                cnt = max(lo, cnt)
                if not small and draw(st.integers(0, 40)) == 0:
                    cnt = draw(st.sampled_from([252, 253, 260]))
                    one = draw(tiny)
                    i["witness"] = [one] * cnt
                else:
                    i["witness"] = [draw(sblob) for _ in range(cnt)]
    if not many and draw(st.integers(0, 6)) == 0:
        # a script (or witness item) whose BYTES read as something else - the text of an address, an encoded public key,
        # a WIF string, hex digits: on the wire it is a script like any other and is carried through unchanged
        la = draw(st.sampled_from(SCRIPT_LOOKALIKES)).hex()
        where = draw(st.sampled_from(["out", "out", "out", "in", "wit"]))
        if where == "wit" and is_segwit and any(i["witness"] for i in ins):
            k = draw(st.sampled_from([k for k, i in enumerate(ins) if i["witness"]]))
            ins[k]["witness"][draw(st.integers(0, len(ins[k]["witness"]) - 1))] = la
        elif where == "in":
            ins[draw(st.integers(0, len(ins) - 1))]["script"] = la
        else:
            outs[draw(st.integers(0, len(outs) - 1))]["script"] = la
    return {
        "version": draw(u32()),
        "locktime": draw(u32()),
        "segwit": is_segwit,
        "ins": ins,
        "outs": outs,
    }


def to_ref(case):
    """JSON case -> txref dict with bytes."""
    return {
        "version": case["version"],
        "locktime": case["locktime"],
        "segwit": case["segwit"],
        "ins": [
            {
                "txid": bytes.fromhex(i["txid"]),
                "vout": i["vout"],
                "script": expand(i["script"]),
                "sequence": i["sequence"],
                "witness": [expand(w) for w in i.get("witness", [])],
            }
            for i in case["ins"]
        ],
        "outs": [{"value": o["value"], "script": expand(o["script"])} for o in case["outs"]],
    }


def features(tx):
    """Structural labels of a reference tx (used for classes and signatures)."""
    f = []
    if len(tx["ins"]) >= 253:
        f.append("n_in>=253")
    if len(tx["outs"]) >= 253:
        f.append("n_out>=253")
    if len(tx["outs"]) >= 5 and all(len(o["script"]) == 0 for o in tx["outs"]):
        f.append("outs>=5-all-empty-scripts")
    sl = [len(i["script"]) for i in tx["ins"]] + [len(o["script"]) for o in tx["outs"]]
    if any(n >= 65536 for n in sl):
        f.append("script>=65536")
    if any(n >= 253 for n in sl):
        f.append("script>=253")
    if any(3000 <= n < 65534 for n in sl):
        f.append("script-3000..65533")
    if any(bytes(o["script"]) in SCRIPT_LOOKALIKES for o in tx["outs"]):
        f.append("out-script-reads-as-address-or-key")
    if tx["segwit"]:
        f.append("segwit")
        stacks = [i["witness"] for i in tx["ins"]]
        if any(len(s) == 0 for s in stacks):
            f.append("wit-empty-stack")
        if any(len(s) >= 253 for s in stacks):
            f.append("wit-count>=253")
        items = [len(x) for s in stacks for x in s]
        if any(n == 0 for n in items):
            f.append("wit-item-0")
        if any(n >= 253 for n in items):
            f.append("wit-item>=253")
        if any(n >= 65536 for n in items):
            f.append("wit-item>=65536")
        if any(3000 <= n < 65534 for n in items):
            f.append("wit-item-3000..65533")
        if any(i["sequence"] != 0xFFFFFFFF for i in tx["ins"]):
            f.append("segwit-nonfinal-seq")
    return f


def build_with_lib(bits_tx, rtx, witness_ser):
    """Serialise a reference tx through bits.tx builders; witness_ser(items)->bytes chooses the witness encoder."""
    txins = [
        bits_tx.txin(bits_tx.outpoint(i["txid"], i["vout"]), i["script"], sequence=i["sequence"].to_bytes(4, "little"))
        for i in rtx["ins"]
    ]
    txouts = [bits_tx.txout(o["value"], o["script"]) for o in rtx["outs"]]
    if rtx["segwit"]:
        # history: data of the same lengths as the witness items has just been assembled as ordinary script pushes (what
        # signing a legacy input does with a redeem script of that size); the two length encodings differ above 75 bytes
        import bits.script as _bs

        seen = set()
        for i in rtx["ins"]:
            for item in i["witness"]:
                n = len(item)
                if 75 < n <= 70000 and n not in seen and len(seen) < 4:
                    seen.add(n)
                    try:
                        _bs.script([bytes(item).hex()])
                    except Exception:  # noqa: BLE001 - only a warm-up; what it returns or raises is judged elsewhere (C13)
                        pass
    wits = [witness_ser(i["witness"]) for i in rtx["ins"]] if rtx["segwit"] else []
    return bits_tx.tx(txins, txouts, version=rtx["version"], locktime=rtx["locktime"], script_witnesses=wits)


COINBASE_TAILS = [
    b"", b"bits", b"/pool/", bytes.fromhex("fabe6d6d") + bytes(range(32)) + bytes.fromhex("0100000000000000"),  # merged-mining marker
    bytes.fromhex("c0ffee"), bytes([0xBB, 0xFE, 0xC0, 0xFF]), b"tagL", bytes.fromhex("4c"), bytes.fromhex("4d00"), bytes.fromhex("08") + bytes(range(200, 208)),
]


@st.composite
def coinbase_case(draw):
    """A coinbase-shaped transaction: one input spending the null outpoint whose script is the BIP34 height push followed
    by arbitrary miner data (extranonce bytes, tags, the merged-mining marker - not a script anyone executes), with or
    without the BIP141 commitment output and reserved-value witness."""
    h = draw(st.sampled_from([0, 1, 16, 17, 127, 128, 300, 70000, 840000]) | st.integers(0, 2**31 - 1))
    if h == 0:
        push = b"\x00"
    elif h <= 16:
        push = bytes([0x50 + h])
    else:
        n = (h.bit_length() + 8) // 8
        push = bytes([n]) + h.to_bytes(n, "little")
    script = (push + draw(st.sampled_from(COINBASE_TAILS) | st.binary(max_size=40)))[:100]
    segwit = draw(st.booleans())
    outs = [{"value": draw(st.sampled_from(VALUES)), "script": draw(st.binary(max_size=34)).hex()}]
    if segwit:
        outs.append({"value": 0, "script": (bytes.fromhex("6a24aa21a9ed") + draw(st.binary(min_size=32, max_size=32))).hex()})
    return {
        "version": draw(st.sampled_from([1, 2])), "locktime": 0, "segwit": segwit,
        "ins": [{"txid": "00" * 32, "vout": 0xFFFFFFFF, "script": script.hex(), "sequence": 0xFFFFFFFF, "witness": ["00" * 32] if segwit else []}],
        "outs": outs,
    }
