"""
Shared plumbing for property modules: target description, lib-call wrapper, case encoding.

A property module (vf/props/Cxx.py) exposes:
    PROPERTY      "Cxx"
    LEVEL         "exploration" | "fault_enumeration"
    RULE          words: how cases are generated and what makes one non-trivial
    ASSUMPTIONS   list[str]
    SELFCHECKS    list of zero-arg callables validating the reference oracles (raise on failure)
    def targets(tier) -> list[Target]

Each Target.check(case) is a deterministic function of a JSON-serialisable case and returns
(classes, failures): classes are labels (those starting with "nt:" mark the case as non-trivial),
failures is a list of (signature, detail) pairs.  A signature names the violated clause and the
structural class of the input, never the concrete bytes.
"""
import hashlib
import json
import os
import sys
import traceback

VERIF_DIR = os.path.dirname(os.path.dirname(os.path.abspath(__file__)))
REPO = os.environ.get("BITS_REPO", "/repo")
REPO_SRC = os.path.join(REPO, "src")


def install_repo_path():
    """bits is pure Python: 'rebuilding from the working tree' is importing it from there."""
    if REPO_SRC in sys.path:
        sys.path.remove(REPO_SRC)
    sys.path.insert(0, REPO_SRC)


class Target:
    def __init__(
        self,
        name,
        check,
        strategy=None,
        enumerate_=None,
        budget=None,
        required=(),
        shards=None,
        exhaustive=False,
        weight=1.0,
        setup=None,
    ):
        """
        name: target name
        check: case -> (classes, failures)
        strategy: tier -> hypothesis strategy of cases   (generated target)
        enumerate_: tier -> iterable of cases           (enumerated target; deterministic order)
        budget: {"quick": n, "thorough": m} total generated cases (generated target)
        required: class labels that must be seen at least once (else the run is a harness error)
        shards: number of shards (default: 16 for generated, 16 for enumerated)
        exhaustive: the enumeration covers a finite space completely
        setup: optional zero-arg callable run once per worker before cases
        """
        assert (strategy is None) != (enumerate_ is None)
        self.name = name
        self.check = check
        self.strategy = strategy
        self.enumerate_ = enumerate_
        self.budget = budget or {"quick": 1000, "thorough": 10000}
        self.required = tuple(required)
        self.shards = shards
        self.exhaustive = exhaustive
        self.setup = setup

    @property
    def kind(self):
        return "hyp" if self.strategy is not None else "enum"


# ---------------------------------------------------------------- lib-call wrapper


class Raised:
    """Result of a library call that raised."""

    __slots__ = ("exc",)

    def __init__(self, exc):
        self.exc = exc

    def __repr__(self):
        return f"Raised({type(self.exc).__name__}: {str(self.exc)[:120]})"

    @property
    def kind(self):
        return type(self.exc).__name__


INTERNAL_ERRORS = (
    "TypeError",
    "AttributeError",
    "IndexError",
    "KeyError",
    "UnboundLocalError",
    "NameError",
    "OverflowError",
    "RecursionError",
    "ZeroDivisionError",
)


def attempt(fn, *args, **kwargs):
    """Call library code; return its value, or Raised(exc) for any Exception."""
    try:
        return fn(*args, **kwargs)
    except Exception as exc:  # noqa: BLE001 - "rejected" means any exception
        return Raised(exc)


def raised(x):
    return isinstance(x, Raised)


_NOT_A_SEQ = object()


def seq(x, n=None):
    """tuple(x) for a list/tuple x (of length n when n is given); otherwise a 1-tuple holding a private sentinel, which never
    equals an expected tuple. For comparing a library result of unknown shape with an expected tuple."""
    if isinstance(x, (list, tuple)) and (n is None or len(x) == n):
        return tuple(x)
    return (_NOT_A_SEQ,)


def pair(x):
    """(a, b) when x is a list/tuple of length 2, else None (the caller records a failure before unpacking)."""
    if isinstance(x, (list, tuple)) and len(x) == 2:
        return (x[0], x[1])
    return None


def hexof(x):
    """For detail strings only: x.hex() for a byte string, repr(x) for anything else."""
    if isinstance(x, (bytes, bytearray)):
        return x.hex()
    return repr(x)


def _empty(obj):
    if isinstance(obj, dict):
        for v in obj.values():
            _empty(v)
        obj.clear()
    elif isinstance(obj, list):
        for v in obj:
            _empty(v)
        obj.clear()


def attempt_twice(fails, sig, fn, *args, **kwargs):
    """attempt(), then the same call again with the very same argument objects: a deterministic function must return the
    same value (or refuse again). Catches results that depend on an earlier call or on arguments consumed in place."""
    r = attempt(fn, *args, **kwargs)
    again = attempt(fn, *args, **kwargs)
    same = (raised(r) and raised(again) and r.kind == again.kind) or (not raised(r) and not raised(again) and r == again)
    if not same:
        fails.add(sig, f"first {r!r}"[:150] + f" second {again!r}"[:150])
    return r


def attempt_owned(fails, sig, fn, *args, **kwargs):
    """attempt(), plus a call-history relation for functions that return dicts / lists: the caller owns what it is handed,
    so the first result is emptied (recursively) and the same call made again must return the same value. Returns a deep
    copy of the first result; a difference is recorded in `fails` under `sig`."""
    import copy

    r = attempt(fn, *args, **kwargs)
    if raised(r) or not isinstance(r, (dict, list, tuple)):
        return r
    snap = copy.deepcopy(r)
    for part in r if isinstance(r, tuple) else (r,):
        _empty(part)
    again = attempt(fn, *args, **kwargs)
    if raised(again) or again != snap:
        fails.add(sig, f"second call returned {again!r}"[:300])
    return snap


# ---------------------------------------------------------------- case encoding helpers


def hx(b):
    return bytes(b).hex()


def bx(s):
    return bytes.fromhex(s)


def canon(case):
    return json.dumps(case, sort_keys=True, separators=(",", ":"), default=str)


def digest(case):
    return hashlib.blake2b(canon(case).encode(), digest_size=8).digest()


def abbreviate(obj, limit=96):
    """Shorten long strings in a case so evidence samples stay readable."""
    if isinstance(obj, str):
        if len(obj) > limit:
            return obj[: limit // 2] + f"...({len(obj)} chars)..." + obj[-16:]
        return obj
    if isinstance(obj, list):
        if len(obj) > 12:
            return [abbreviate(x, limit) for x in obj[:8]] + [f"...({len(obj)} items)"]
        return [abbreviate(x, limit) for x in obj]
    if isinstance(obj, dict):
        return {k: abbreviate(v, limit) for k, v in obj.items()}
    if isinstance(obj, int) and obj.bit_length() > 64:
        return hex(obj)
    return obj


def innermost_repo_frame(exc):
    """(is_repo, where) for the innermost frame of exc's traceback."""
    tb = traceback.extract_tb(exc.__traceback__)
    if not tb:
        return False, "?"
    last = tb[-1]
    in_repo = os.path.abspath(last.filename).startswith(os.path.abspath(REPO_SRC))
    # deepest frame that belongs to the repo, for the signature
    where = "?"
    for fr in reversed(tb):
        if os.path.abspath(fr.filename).startswith(os.path.abspath(REPO_SRC)):
            where = f"{os.path.basename(fr.filename)}:{fr.name}"
            break
    return in_repo, where


class Fails(list):
    """Accumulator for failures inside a check."""

    def add(self, sig, detail=""):
        self.append((sig, str(detail)[:400]))

    def expect(self, cond, sig, detail=""):
        if not cond:
            self.add(sig, detail)
        return cond
