"""Scripted stand-in for the `secrets` module: draws are interpreted relative to the bound the code passes."""


class NonTermination(Exception):
    """The code under test consulted the random source more often than any terminating retry loop plausibly needs:
    a call counter (never a clock) turns a non-terminating retry loop into a deterministic failure."""


class ScriptedSecrets:
    """script: list of 'zero' | 'one' | 'max' | int.  After the script is exhausted a fixed non-degenerate fallback
    sequence is served (so code that legitimately retries on a rejected draw always terminates)."""

    FALLBACK = [0x6B17D1F2E12C4247F8BCE6E563A440F277037D812DEB33A0F4A13945D898C296, 0x4FE342E2FE1A7F9B8EE7EB4A7C0F9E162BCE33576B315ECECBB6406837BF51F5]

    MAX_CALLS = 5000

    def __init__(self, script):
        self.script = list(script)
        self.calls = []
        self.i = 0

    def reset(self, script):
        """Start a new operation on the same installed stub (same effect as installing a fresh ScriptedSecrets(script))."""
        self.script = list(script)
        self.calls = []
        self.i = 0

    def _next(self):
        if self.i >= self.MAX_CALLS:
            raise NonTermination(f"random source consulted {self.i} times in one operation")
        if self.i < len(self.script):
            v = self.script[self.i]
        else:
            v = self.FALLBACK[(self.i - len(self.script)) % len(self.FALLBACK)] + (self.i - len(self.script))
        self.i += 1
        return v

    def randbelow(self, bound):
        v = self._next()
        if v == "zero":
            r = 0
        elif v == "one":
            r = 1 % bound
        elif v == "max":
            r = bound - 1
        else:
            r = int(v) % bound
        self.calls.append(("randbelow", bound, r))
        return r

    def randbits(self, k):
        return self.randbelow(1 << k)

    def token_bytes(self, n=32):
        return self.randbelow(1 << (8 * n)).to_bytes(n, "big")

    def token_hex(self, n=32):
        return self.token_bytes(n).hex()

    def choice(self, seq):
        return seq[self.randbelow(len(seq))]

    class SystemRandom:  # pragma: no cover - only so attribute access does not crash
        pass


# ---------------------------------------------------------------------------------------------------------------------
# A stub assigned to one module's `secrets` name is invisible to a draw that the library makes through a helper in another
# of its modules (or through `from secrets import randbelow`).  sync() mirrors the stub - or its removal - onto the
# standard library's secrets functions and onto every loaded bits module that refers to them, so the script is in force
# wherever the draw is made.

_FUNCS = ("randbelow", "randbits", "token_bytes", "token_hex", "choice")
_installed = []  # [(object, attribute, original value)]


def _uninstall():
    while _installed:
        obj, name, val = _installed.pop()
        setattr(obj, name, val)


def sync(current):
    """Call right after `<module>.secrets = X`: X a ScriptedSecrets -> script every route to the random source;
    X the real module (a restore) -> undo."""
    import secrets as real
    import sys

    _uninstall()
    if not isinstance(current, ScriptedSecrets):
        return
    originals = {fn: getattr(real, fn) for fn in _FUNCS}
    for name, mod in list(sys.modules.items()):
        if mod is None or not (name == "bits" or name.startswith("bits.")):
            continue
        for attr, val in list(vars(mod).items()):
            if val is real:
                _installed.append((mod, attr, val))
                setattr(mod, attr, current)
            else:
                for fn, orig in originals.items():
                    if val is orig:
                        _installed.append((mod, attr, val))
                        setattr(mod, attr, getattr(current, fn))
    for fn, orig in originals.items():
        _installed.append((real, fn, orig))
        setattr(real, fn, getattr(current, fn))
