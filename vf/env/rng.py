"""Scripted stand-in for the `secrets` module: draws are interpreted relative to the bound the code passes."""


class NonTermination(Exception):
    """The code under test consulted the random source more often than any terminating retry loop plausibly needs:
    a call counter (never a clock) turns a non-terminating retry loop into a deterministic failure."""


class ScriptedSecrets:
    """script: list of 'zero' | 'one' | 'max' | int.  After the script is exhausted a fixed non-degenerate fallback
    sequence is served (so code that legitimately retries on a rejected draw always terminates)."""

    FALLBACK = [0x6B17D1F2E12C4247F8BCE6E563A440F277037D812DEB33A0F4A13945D898C296, 0x4FE342E2FE1A7F9B8EE7EB4A7C0F9E162BCE33576B315ECECBB6406837BF51F5]

    MAX_CALLS = 5000

    def __init__(self, script):
        self.script = list(script)
        self.calls = []
        self.i = 0

    def _next(self):
        if self.i >= self.MAX_CALLS:
            raise NonTermination(f"random source consulted {self.i} times in one operation")
        if self.i < len(self.script):
            v = self.script[self.i]
        else:
            v = self.FALLBACK[(self.i - len(self.script)) % len(self.FALLBACK)] + (self.i - len(self.script))
        self.i += 1
        return v

    def randbelow(self, bound):
        v = self._next()
        if v == "zero":
            r = 0
        elif v == "one":
            r = 1 % bound
        elif v == "max":
            r = bound - 1
        else:
            r = int(v) % bound
        self.calls.append(("randbelow", bound, r))
        return r

    def randbits(self, k):
        return self.randbelow(1 << k)

    def token_bytes(self, n=32):
        return self.randbelow(1 << (8 * n)).to_bytes(n, "big")

    def token_hex(self, n=32):
        return self.token_bytes(n).hex()

    def choice(self, seq):
        return seq[self.randbelow(len(seq))]

    class SystemRandom:  # pragma: no cover - only so attribute access does not crash
        pass
