"""
Fault-injecting stand-in for the builtin open(), for code that persists data through open/write/close.

    fs = FaultFS(crash_at=None)         # count only
    module.open = fs.open               # the code under test now gets proxies over UNBUFFERED real files
    fs.armed = True                     # fault points are numbered only while armed
    ... run code ...                    # fs.points = descriptors of every fault point passed, in order
    fs2 = FaultFS(crash_at=i)           # same run, but Crash is raised at fault point i

Fault points (in the order they are numbered):
    open:   ("open", "before", name, None)   nothing has happened yet
            ("open", "after", name, None)    the file exists / is opened, the caller has not received it yet
    write of n bytes:
            ("write", "before", name, 0)
            ("write", "partial", name, k)    for k in sorted({1, 4, 7, 8, n-1}) with 0 < k < n: exactly the first k
                                             bytes have reached the file
            ("write", "after", name, n)      all bytes have reached the file, the caller has not been told yet
    close:  ("close", "before", name, None), ("close", "after", name, None)

Files are opened with buffering=0, so "written" means handed to the OS: what the files contain after a Crash is
what a killed process would have left.  That is the pessimistic model for torn writes.  The second model,
FaultFS(bufsize=N) with N > 0, is the one a real Python process follows: a proxy keeps written bytes in its own buffer of
N bytes (CPython's BufferedWriter policy: data that fits is kept; otherwise the buffer is flushed and data of N bytes or
more goes straight through) and only flush()/close() hand them to the OS; a Crash discards every unflushed buffer.  It
shows ordering defects that write-through hides (a file opened later reaching the disk before an earlier one is
flushed).  In that model writes have only their before/after points.  Crash derives from BaseException so that `except Exception` in the code under
test cannot swallow it.  After the crash the file system is dead: further writes/opens raise Crash again without
effect, close() only releases the descriptor (as process exit would).
"""
import builtins
import os

PARTIALS = (1, 4, 7, 8)


class Crash(BaseException):
    pass


def partial_cuts(n):
    return sorted(k for k in set(PARTIALS) | {n - 1} if 0 < k < n)


class FaultFS:
    def __init__(self, crash_at=None, bufsize=0):
        self.crash_at = crash_at
        self.bufsize = bufsize
        self.armed = False
        self.points = []
        self.crashed = None  # descriptor of the point where Crash was raised
        self.live = []  # real file objects not yet closed
        self.ops = {"open": 0, "write": 0, "close": 0}

    # ---- fault points
    def _dead(self):
        if self.crashed is not None:
            raise Crash(("after-crash",) + tuple(self.crashed))

    def _point(self, desc):
        """number a fault point; crash if it is the chosen one"""
        if not self.armed:
            return
        idx = len(self.points)
        self.points.append(desc)
        if idx == self.crash_at:
            self.crashed = desc
            raise Crash(desc)

    def _will_crash_within(self, count):
        """index (0-based, relative) of the chosen point among the next `count` points, or None"""
        if not self.armed or self.crash_at is None:
            return None
        rel = self.crash_at - len(self.points)
        return rel if 0 <= rel < count else None

    # ---- the open() replacement
    def open(self, file, mode="r", *args, **kwargs):
        self._dead()
        name = os.path.basename(os.fspath(file)) if not isinstance(file, int) else str(file)
        self.ops["open"] += 1
        self._point(("open", "before", name, None))
        binary = "b" in mode
        if binary:
            kwargs.pop("buffering", None)
            args = args[1:] if args else args  # positional buffering
            real = builtins.open(file, mode, 0, *args, **kwargs)
        else:
            real = builtins.open(file, mode, *args, **kwargs)
        self.live.append(real)
        proxy = FileProxy(self, real, name, binary)
        self._point(("open", "after", name, None))
        return proxy

    def close_all(self):
        """release descriptors the code under test left open (what process exit does); writes nothing"""
        for real in self.live:
            try:
                real.close()
            except Exception:  # noqa: BLE001
                pass
        self.live = []


class FileProxy:
    def __init__(self, fs, real, name, binary):
        self._fs = fs
        self._real = real
        self._name = name
        self._binary = binary
        self._buf = bytearray()  # buffered model only: bytes the OS has not been given yet

    # ---- instrumented operations
    def _raw_write(self, data):
        if self._binary:
            mv = memoryview(data).cast("B") if not isinstance(data, (bytes, bytearray)) else data
            done = 0
            while done < len(mv):
                w = self._real.write(mv[done:])
                if w is None:
                    raise BlockingIOError("short write")
                done += w
        else:
            self._real.write(data)
            self._real.flush()

    def _flush_buf(self):
        if self._buf:
            self._raw_write(bytes(self._buf))
            self._buf.clear()

    def flush(self):
        self._fs._dead()
        self._flush_buf()

    def tell(self):
        return self._real.tell() + len(self._buf)

    def write(self, data):
        fs = self._fs
        fs._dead()
        fs.ops["write"] += 1
        n = len(data)
        fs._point(("write", "before", self._name, 0))
        if fs.bufsize and self._binary:
            if len(self._buf) + n <= fs.bufsize:
                self._buf += data
            else:
                self._flush_buf()
                if n >= fs.bufsize:
                    self._raw_write(data)
                else:
                    self._buf += data
            fs._point(("write", "after", self._name, n))
            return n
        cuts = partial_cuts(n)
        rel = fs._will_crash_within(len(cuts))
        if rel is not None:
            k = cuts[rel]
            self._raw_write(data[:k])
            for c in cuts[: rel + 1]:
                desc = ("write", "partial", self._name, c)
                fs.points.append(desc)
            fs.crashed = desc
            raise Crash(desc)
        if fs.armed:
            fs.points.extend(("write", "partial", self._name, c) for c in cuts)
        self._raw_write(data)
        fs._point(("write", "after", self._name, n))
        return n

    def writelines(self, lines):
        for ln in lines:
            self.write(ln)

    def close(self):
        fs = self._fs
        if fs.crashed is not None or self._real.closed:
            # dead file system (unwinding after Crash), or a second close: only release the descriptor
            self._real.close()
            if self._real in fs.live:
                fs.live.remove(self._real)
            return
        fs.ops["close"] += 1
        fs._point(("close", "before", self._name, None))
        self._flush_buf()
        self._real.close()
        if self._real in fs.live:
            fs.live.remove(self._real)
        fs._point(("close", "after", self._name, None))

    # ---- pass-through
    def __enter__(self):
        return self

    def __exit__(self, *exc):
        self.close()
        return False

    def __iter__(self):
        return iter(self._real)

    def __getattr__(self, item):
        return getattr(self._real, item)


def selfcheck():
    """the double itself: counts are stable, partial writes really write k bytes, Crash escapes `except Exception`"""
    import shutil
    import tempfile

    d = tempfile.mkdtemp(prefix="vf_faultfs_", dir="/tmp")
    try:
        path = os.path.join(d, "a.bin")

        def scenario(fs):
            fs.armed = True
            try:
                f = fs.open(path, "ab")
                try:
                    f.write(b"0123456789")  # cuts 1,4,7,8,9
                    assert f.tell() == os.path.getsize(path)
                    f.write(b"ab")  # cuts 1
                except Exception:  # noqa: BLE001
                    raise AssertionError("Crash must not be an Exception")
                f.close()
            finally:
                fs.close_all()

        fs = FaultFS()
        scenario(fs)
        kinds = [(p[0], p[1], p[3]) for p in fs.points]
        want = (
            [("open", "before", None), ("open", "after", None), ("write", "before", 0)]
            + [("write", "partial", k) for k in (1, 4, 7, 8, 9)]
            + [("write", "after", 10), ("write", "before", 0), ("write", "partial", 1), ("write", "after", 2)]
            + [("close", "before", None), ("close", "after", None)]
        )
        assert kinds == want, kinds
        assert builtins.open(path, "rb").read() == b"0123456789ab"
        sizes = []
        for i in range(len(want)):
            os.unlink(path) if os.path.exists(path) else None
            f2 = FaultFS(crash_at=i)
            try:
                scenario(f2)
                raise AssertionError("no crash at point %d" % i)
            except Crash:
                pass
            assert f2.crashed == fs.points[i], (i, f2.crashed)
            assert not f2.live
            sizes.append(os.path.getsize(path) if os.path.exists(path) else -1)
        assert sizes == [-1, 0, 0, 1, 4, 7, 8, 9, 10, 10, 11, 12, 12, 12], sizes
    finally:
        shutil.rmtree(d, ignore_errors=True)
