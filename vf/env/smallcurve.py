"""
Retarget the library's ecmath.py to a small curve y^2 = x^3 + 7 over F_p: the module source is read from the working
tree, the assignments to the curve constants are replaced in the AST, and the result is compiled under a private name.
(Function defaults such as `p: int = SECP256K1_P` bind at definition time, so patching attributes afterwards would not
retarget the field; recompiling does, and it runs the same source text.)
"""
import ast
import os
import types

from vf import core

_CACHE = {}


def load(p, n, g):
    key = (p, n, g)
    if key in _CACHE:
        return _CACHE[key]
    path = os.path.join(core.REPO_SRC, "bits", "ecmath.py")
    tree = ast.parse(open(path).read(), filename=path)
    repl = {"SECP256K1_P": p, "SECP256K1_N": n, "SECP256K1_Gx": g[0], "SECP256K1_Gy": g[1], "SECP256K1_G_n": n}
    seen = set()
    for node in tree.body:
        if isinstance(node, ast.Assign) and len(node.targets) == 1 and isinstance(node.targets[0], ast.Name):
            name = node.targets[0].id
            if name in repl:
                node.value = ast.Constant(repl[name])
                seen.add(name)
    missing = {"SECP256K1_P", "SECP256K1_N", "SECP256K1_Gx", "SECP256K1_Gy"} - seen
    if missing:
        raise RuntimeError(f"cannot retarget ecmath.py: constants {missing} not found as module-level assignments")
    ast.fix_missing_locations(tree)
    mod = types.ModuleType(f"bits_ecmath_p{p}")
    mod.__file__ = path
    exec(compile(tree, path, "exec"), mod.__dict__)
    _CACHE[key] = mod
    return mod
