"""
Scripted socket double for bits.p2p.recv_msg.

ScriptedSocket(stream, chunks, tail=0): the byte stream arrives in segments.  `chunks` are the sizes of the first
segments (zeros ignored); after them the rest arrives in segments of `tail` bytes (tail=0: one final segment).
recv(n) returns at most min(n, bytes left in the current segment) bytes - like a TCP socket whose peer's writes arrive
one at a time; bytes of a segment that were not asked for stay available.  After the stream, recv returns b"" (the
peer closed the connection) and counts those calls.  Termination is decided by a call counter, never by a clock:
once more than 4*len(stream)+64 recv calls have been made, recv raises NonTermination.  NonTermination derives from
BaseException so that no `except Exception` in the code under test can swallow it; the check catches it itself.
"""


class NonTermination(BaseException):
    pass


class ScriptedSocket:
    def __init__(self, stream: bytes, chunks=(), tail: int = 0):
        self.stream = bytes(stream)
        self.tail = int(tail)
        cuts = []
        acc = 0
        for c in chunks:
            if c <= 0:
                continue
            acc += c
            if acc >= len(self.stream):
                break
            cuts.append(acc)
        self.cuts = cuts  # absolute segment boundaries given explicitly
        self.scripted = acc if acc < len(self.stream) else len(self.stream)
        self._ci = 0
        self.pos = 0
        self.calls = 0
        self.eof_calls = 0
        self.max_request = 0
        self.limit = 4 * len(self.stream) + 64

    def _segment_end(self) -> int:
        n = len(self.stream)
        while self._ci < len(self.cuts) and self.cuts[self._ci] <= self.pos:
            self._ci += 1
        if self._ci < len(self.cuts):
            return self.cuts[self._ci]
        if self.tail > 0:
            base = self.scripted
            k = (self.pos - base) // self.tail + 1
            return min(n, base + k * self.tail)
        return n

    def recv(self, n, flags=0):
        self.calls += 1
        if self.calls > self.limit:
            raise NonTermination(f"{self.calls} recv calls on a {len(self.stream)}-byte stream ({self.eof_calls} at EOF)")
        if n is None or n <= 0:
            return b""
        self.max_request = max(self.max_request, n)
        if self.pos >= len(self.stream):
            self.eof_calls += 1
            return b""
        k = min(n, self._segment_end() - self.pos)
        out = self.stream[self.pos : self.pos + k]
        self.pos += k
        return out

    def recv_into(self, buffer, nbytes=0, flags=0):
        want = nbytes or len(buffer)
        data = self.recv(want, flags)
        buffer[: len(data)] = data
        return len(data)

    @property
    def remainder(self) -> bytes:
        return self.stream[self.pos :]


def cut_positions(total: int, chunks=(), tail: int = 0):
    """Absolute positions 0 < c < total at which the schedule cuts the stream (same rule as ScriptedSocket)."""
    out = []
    acc = 0
    for c in chunks:
        if c <= 0:
            continue
        acc += c
        if acc >= total:
            return out
        out.append(acc)
    if tail > 0:
        acc += tail
        while acc < total:
            out.append(acc)
            acc += tail
    return out


def selfcheck():
    s = ScriptedSocket(bytes(range(10)), [3, 0, 2], tail=2)
    got = []
    while True:
        b = s.recv(100)
        if not b:
            break
        got.append(len(b))
    assert got == [3, 2, 2, 2, 1], got
    assert cut_positions(10, [3, 0, 2], 2) == [3, 5, 7, 9]
    s = ScriptedSocket(bytes(range(10)), [4])
    assert s.recv(3) == bytes([0, 1, 2]) and s.recv(3) == bytes([3]) and s.recv(100) == bytes(range(4, 10))
    assert s.recv(5) == b"" and s.eof_calls == 1 and s.pos == 10
    s = ScriptedSocket(b"abc")
    try:
        for _ in range(1000):
            s.recv(1)
        raise AssertionError("no NonTermination")
    except NonTermination:
        assert s.calls == 4 * 3 + 64 + 1
    assert cut_positions(5, [], 1) == [1, 2, 3, 4] and cut_positions(5, [], 0) == [] and cut_positions(5, [9], 1) == []
