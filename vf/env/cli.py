"""
In-process driver for the bits command line (bits.__main__.main()).

run_cli(argv, stdin_bytes, files) runs one invocation of `bits --config-dir <tmp> <argv...>` with
  * sys.argv / sys.stdin / sys.stdout / sys.stderr replaced by scripted objects (stdin/stdout are
    TextIOWrapper(BytesIO), exactly the shape read_bytes()/write_bytes() and argparse.FileType("-") expect),
  * a fresh temporary configuration directory holding exactly the given files (name -> bytes),
  * the handler levels of the `bits` logger reset to a sentinel before the run (they persist across in-process runs),
  * everything that would touch the network, a terminal or the system RNG replaced by recording stubs
    (bits.rpc.rpc_method, bits.tx.send_tx, bits.__main__.mine_block, bits.p2p.Node, bits.__main__.getpass,
    bits.keys.key, bits.sig),
and restores every piece of global state in `finally` (incl. bits.p2p.MAGIC_START_BYTES and the temp dir).

Nothing here decides whether an outcome is right; it only reports what happened.
"""
import io
import logging
import os
import shutil
import sys
import tempfile

SENTINEL_LEVEL = 7  # not a named logging level: "main() never set the handler level"
FAKE_KEY = bytes(range(1, 33))
FAKE_SIG = bytes.fromhex("3006020101020101") + b"\x01"
FAKE_TX = bytes.fromhex("deadbeef01")
_MISSING = object()
# the config dir lives on tmpfs when there is one (mkdir/rmdir on a busy disk costs more than the CLI run itself)
_TMP_BASE = "/dev/shm" if os.path.isdir("/dev/shm") and os.access("/dev/shm", os.W_OK | os.X_OK) else None


class CliResult:
    __slots__ = (
        "stdout",
        "stderr",
        "ret",
        "exit",
        "exc",
        "handler_levels",
        "calls",
        "magic",
        "config_attrs",
    )

    def __init__(self):
        self.stdout = b""
        self.stderr = ""
        self.ret = None  # return value of main(): None on success, "ERROR: ..." when catch_exception fired
        self.exit = None  # SystemExit code (argparse error = 2), None when main() returned
        self.exc = None  # any other exception escaping main()
        self.handler_levels = []
        self.calls = {}  # stub name -> list of (args, kwargs)
        self.magic = None
        self.config_attrs = None  # vars() of the last Config object main() built (None if none was seen)

    @property
    def ok(self):
        return self.exit is None and self.exc is None and self.ret is None

    @property
    def log_level(self):
        """name of the level all handlers of the bits logger were left at ('unset' if main() did not set one)"""
        lv = set(self.handler_levels)
        if len(lv) != 1:
            return f"mixed{sorted(lv)}"
        (v,) = lv
        if v == SENTINEL_LEVEL:
            return "unset"
        return logging.getLevelName(v).lower()

    def brief(self):
        return (
            f"exit={self.exit} ret={self.ret!r} exc={self.exc!r} stdout={self.stdout[:80]!r} "
            f"stderr={self.stderr[-160:]!r}"
        )


def _patch(saved, obj, name, value):
    saved.append((obj, name, getattr(obj, name, _MISSING)))
    setattr(obj, name, value)


def run_cli(argv, stdin_bytes=b"", files=None):
    """
    argv: arguments after `bits --config-dir <tmp>`; files: {"config.json": bytes, "config.toml": bytes}
    """
    import bits
    import bits.__main__ as bmain
    import bits.keys
    import bits.p2p
    import bits.rpc
    import bits.tx

    res = CliResult()
    saved = []
    blog = logging.getLogger("bits")
    old_levels = [(h, h.level) for h in blog.handlers]
    old_streams = [(h, h.stream) for h in blog.handlers if isinstance(h, logging.StreamHandler)]
    old_sys = (sys.argv, sys.stdin, sys.stdout, sys.stderr)
    old_magic = bits.p2p.MAGIC_START_BYTES
    tmp = tempfile.mkdtemp(prefix="vfc20-", dir=_TMP_BASE)
    out_raw = io.BytesIO()
    out = io.TextIOWrapper(out_raw, encoding="utf-8", write_through=False)
    err = io.StringIO()
    try:
        for name, content in (files or {}).items():
            with open(os.path.join(tmp, name), "wb") as fh:
                fh.write(content)

        def recorder(name, retval):
            def stub(*a, **kw):
                res.calls.setdefault(name, []).append((a, dict(kw)))
                return retval

            return stub

        class SpyNode:
            def __init__(self, *a, **kw):
                res.calls.setdefault("Node", []).append((a, dict(kw)))

            def start(self):
                res.calls.setdefault("Node.start", []).append(((), {}))

        real_config = bmain.Config
        seen_configs = []

        class SpyConfig(real_config):
            def __init__(self, **kw):
                super().__init__(**kw)
                if not seen_configs or seen_configs[-1] is not self:
                    seen_configs.append(self)

        _patch(saved, bits.rpc, "rpc_method", recorder("rpc_method", "stub-result"))
        _patch(saved, bits.tx, "send_tx", recorder("send_tx", FAKE_TX))
        _patch(saved, bmain, "mine_block", recorder("mine_block", None))
        _patch(saved, bits.p2p, "Node", SpyNode)
        _patch(saved, bmain, "getpass", lambda prompt="": "")
        _patch(saved, bits.keys, "key", lambda *a, **kw: FAKE_KEY)
        _patch(saved, bits, "sig", recorder("sig", FAKE_SIG))
        _patch(saved, bits, "sig_verify", recorder("sig_verify", "OK"))
        _patch(saved, bmain, "Config", SpyConfig)

        for h in blog.handlers:
            h.setLevel(SENTINEL_LEVEL)
            if isinstance(h, logging.StreamHandler):
                h.stream = err
        sys.argv = ["bits", "--config-dir", tmp] + list(argv)
        sys.stdin = io.TextIOWrapper(io.BytesIO(bytes(stdin_bytes)), encoding="utf-8")
        sys.stdout = out
        sys.stderr = err
        try:
            res.ret = bmain.main()
        except SystemExit as e:
            res.exit = e.code if e.code is not None else 0
        except Exception as e:  # noqa: BLE001 - reported, judged by the caller
            res.exc = e
        res.handler_levels = [h.level for h in blog.handlers]
        res.magic = bits.p2p.MAGIC_START_BYTES
        if seen_configs:
            res.config_attrs = dict(vars(seen_configs[-1]))
    finally:
        sys.argv, sys.stdin, sys.stdout, sys.stderr = old_sys
        try:
            out.flush()
            out.detach()
        except Exception:  # noqa: BLE001
            pass
        res.stdout = out_raw.getvalue()
        res.stderr = err.getvalue()
        for obj, name, val in reversed(saved):
            if val is _MISSING:
                delattr(obj, name)
            else:
                setattr(obj, name, val)
        for h, lv in old_levels:
            h.setLevel(lv)
        for h, s in old_streams:
            h.stream = s
        bits.p2p.MAGIC_START_BYTES = old_magic
        shutil.rmtree(tmp, ignore_errors=True)
    return res


def accepted_options(watch):
    """
    Introspect bits.__main__.setup_parser(): {subcommand or "": set of dests from `watch` the (sub)parser declares}
    and, per (subcommand, dest), the option strings and the Action class name.
    """
    import argparse

    import bits.__main__ as bmain

    parser = bmain.setup_parser()
    table = {}
    detail = {}

    def scan(name, p):
        table[name] = set()
        for a in p._actions:
            if a.dest in watch and a.option_strings:
                table[name].add(a.dest)
                detail[(name, a.dest)] = (list(a.option_strings), type(a).__name__)

    scan("", parser)
    for a in parser._actions:
        if isinstance(a, argparse._SubParsersAction):
            for name, sp in a.choices.items():
                scan(name, sp)
    return table, detail
