"""
Baton scheduler for bits.p2p.Node receive threads (property C18).

Real threads run the unmodified ``Node.recv_loop(peer_no)``, but exactly one of them is runnable at any time.  The
shared objects the loop touches are harness-supplied:

  * ``Node._msg_queue``                      -> ParkDeque (deque subclass)
  * ``Node._registered_commands_to_handle``  -> a subclass of the container's own type whose ``__contains__`` parks
  * ``Node._peer_sockets[p]``                -> ScriptedSocket (serves pre-serialised messages, records what is sent)
  * ``Node._peer_threads[p]``                -> StandInThread (only ``exit_event`` / ``exit()``)
  * any ``threading.Lock``/``RLock`` found on the node instance -> ParkLock (so a lock-based repair does not hang us)

Every operation on those objects is a *scheduling point*: the calling thread records the operation it is about to
perform, hands the baton to the controller and blocks; the controller picks the next thread from the *schedule* (a list
of ints; choice k at a step selects runnable[k % len(runnable)], runnable sorted by peer number; past the end of the
list the choice is 0) and hands the baton over.  The selected thread performs the operation and runs until it reaches
its next scheduling point or returns from recv_loop.  A given (messages, schedule) pair therefore always produces the
same execution: there are no sleeps and no timing.  The only clock is a watchdog thread that turns a harness deadlock
(no scheduling step for WATCHDOG seconds) into a HarnessDeadlock exception, never into a property verdict.  (Lock
acquisition with a timeout costs four times an untimed one, hence the separate watchdog.)

Worker threads are pooled per process (creating threads costs more than an execution).
"""
import os
import sys
import threading
import time
from _thread import allocate_lock, get_ident
from collections import deque

WATCHDOG = 120.0  # seconds without a single scheduling step before the harness gives up (harness error, not a verdict)

ENQUEUE_OPS = frozenset({"q.append", "q.appendleft", "q.extend", "q.extendleft", "q.insert"})
DEQUEUE_OPS = frozenset({"q.pop", "q.popleft", "q.remove", "q.clear", "q.delitem"})
QUEUE_WRITE_OPS = ENQUEUE_OPS | DEQUEUE_OPS | {"q.setitem", "q.rotate", "q.reverse"}


class HarnessDeadlock(RuntimeError):
    """The harness itself got stuck (watchdog). Never a property verdict."""


class _Abort(BaseException):
    """Unwinds a parked worker when an execution is abandoned."""


# --------------------------------------------------------------------------- worker pool


class _Worker:
    __slots__ = ("go", "job", "thread")


class _Pool:
    """Long-lived worker threads; worker i blocks on its own lock `go` until it is handed the baton."""

    def __init__(self):
        self.ctl = allocate_lock()  # the controller's lock: released when an execution is over (or stuck)
        self.ctl.acquire()
        self.workers = []
        self.ident = {}
        self.broken = False
        self.pid = os.getpid()

    def ensure(self, n):
        while len(self.workers) < n:
            w = _Worker()
            w.go = allocate_lock()
            w.go.acquire()
            w.job = None
            i = len(self.workers)
            w.thread = threading.Thread(target=self._loop, args=(w, i), name=f"c18-peer-{i}", daemon=True)
            self.workers.append(w)
            w.thread.start()

    def _loop(self, w, i):
        self.ident[get_ident()] = i
        while True:
            w.go.acquire()
            job = w.job
            w.job = None
            if job is None or self.broken:
                return
            job()  # never raises; passes the baton on before it returns
            if self.broken:
                return


_POOL = None
_ACTIVE = [None]  # scheduler currently running an execution in this process
_TICKS = [0]  # scheduling steps performed in this process
_MONITOR = [None]


def _forget_pool_after_fork():
    # threads do not survive fork(): a pool inherited from the parent process has no workers behind it
    global _POOL
    _POOL = None
    _ACTIVE[0] = None
    _MONITOR[0] = None


os.register_at_fork(after_in_child=_forget_pool_after_fork)


def _pool():
    global _POOL
    if _POOL is None or _POOL.broken or _POOL.pid != os.getpid():
        _POOL = _Pool()
    if _MONITOR[0] is None or not _MONITOR[0].is_alive():
        _MONITOR[0] = threading.Thread(target=_watch, name="c18-watchdog", daemon=True)
        _MONITOR[0].start()
    return _POOL


def _watch():
    seen, since = None, time.monotonic()
    while True:
        time.sleep(min(5.0, WATCHDOG / 4))
        s = _ACTIVE[0]
        cur = (id(s), _TICKS[0]) if s is not None else None
        now = time.monotonic()
        if cur is None or cur != seen:
            seen, since = cur, now
            continue
        if now - since >= WATCHDOG and not s.aborted:
            s.timed_out = True
            s._abort()
            try:
                s.pool.ctl.release()  # wake the controller
            except RuntimeError:
                pass


# --------------------------------------------------------------------------- scheduler


class Scheduler:
    """One execution. trace: [(thread, op, message index)], counts: runnable threads per step,
    choices: canonical choice (index into the sorted runnable list) per step.

    The scheduling decision is a pure function of (schedule, step, set of runnable threads) and is evaluated by whichever
    thread holds the baton when it reaches a scheduling point; it then hands the baton straight to the chosen thread
    (or simply continues when it chose itself).  The controller only starts the first thread and waits for the end."""

    def __init__(self, n, schedule=(), order=None, preempt=None, lines=None):
        self.n = n
        self.schedule = schedule
        self.order = order  # optional priority list of threads: always run the first one that can (serial executions)
        # preemption mode (preempt is a dict step -> choice): the thread that holds the baton keeps it at every step not
        # named in the dict (when it has finished: the lowest runnable thread), so a schedule is described by its few
        # context switches instead of by every choice
        self.preempt = preempt
        # line mode (lines is the source file of bits.p2p): every source line executed inside a method of Node by a
        # receive thread is a scheduling point too (the interpreter may switch threads between any two bytecodes)
        self.lines = lines
        self.pool = _pool()
        self.pool.ensure(n)
        self.pending = [None] * n  # op the thread is parked in front of
        self.enabled = [None] * n  # optional predicate: may the parked op proceed now?
        self.unstarted = list(range(n))
        self.done = [False] * n
        self.errors = [None] * n
        self.msg_index = [-1] * n  # message the thread is currently processing (maintained by the sockets)
        self.trace = []
        self.counts = []
        self.choices = []
        self.deadlocked = False  # all unfinished threads blocked on library locks
        self.aborted = False
        self.timed_out = False
        self.active = False

    def _next(self, cur=None):
        """Index of the thread that runs next (None: nobody can). Called only by the holder of the baton (`cur`, when it
        is a receive thread that wants to go on)."""
        if self.unstarted:
            # start-up: every thread first runs, in peer order, to its first scheduling point (thread-local work only:
            # recv + parse of its first message); this consumes no schedule entry
            return self.unstarted.pop(0)
        pending, enabled = self.pending, self.enabled
        runnable = [i for i in range(self.n) if pending[i] is not None and (enabled[i] is None or enabled[i]())]
        if not runnable:
            for p in pending:
                if p is not None:
                    self.deadlocked = True
            return None
        k = len(runnable)
        step = len(self.counts)
        if self.order is not None:
            c = runnable.index(next(t for t in self.order if t in runnable))
        elif self.preempt is not None:
            want = self.preempt.get(step)
            if want is not None:
                c = want % k
            elif cur in runnable:
                c = runnable.index(cur)
            else:
                c = 0
        else:
            c = self.schedule[step] % k if step < len(self.schedule) else 0
        i = runnable[c]
        self.counts.append(k)
        self.choices.append(c)
        self.trace.append((i, pending[i], self.msg_index[i]))
        pending[i] = None
        enabled[i] = None
        _TICKS[0] += 1
        return i

    def _pass(self, nxt):
        if nxt is None:
            self.pool.ctl.release()
        else:
            self.pool.workers[nxt].go.release()

    # ---- called from worker threads (through the instrumented objects)

    def park(self, op, enabled=None):
        """Scheduling point, taken before the operation `op` is performed. Returns the calling worker's index, or None
        when the caller is not a scheduled thread (e.g. the controller inspecting the final state)."""
        if not self.active:
            return None
        i = self.pool.ident.get(get_ident())
        if i is None or i >= self.n:
            return None
        self.enabled[i] = enabled
        self.pending[i] = op
        nxt = self._next(i)
        if nxt == i:
            return i
        self._pass(nxt)
        self.pool.workers[i].go.acquire()
        if self.aborted:
            raise _Abort()
        return i

    def who(self):
        return self.pool.ident.get(get_ident())

    def _abort(self):
        self.aborted = True
        self.pool.broken = True
        for w in self.pool.workers:
            try:
                w.go.release()
            except RuntimeError:
                pass

    def _tracer(self):
        fn, park = self.lines, self.park

        def local(frame, event, arg):
            if event == "line":
                park("line:%d" % frame.f_lineno)
            return local

        def glob(frame, event, arg):
            co = frame.f_code
            if co.co_filename == fn and co.co_qualname.startswith("Node."):
                return local
            return None

        return glob

    def _job(self, i, body):
        def job():
            try:
                if self.lines:
                    sys.settrace(self._tracer())
                try:
                    body()
                finally:
                    if self.lines:
                        sys.settrace(None)
            except _Abort:
                return
            except BaseException as exc:  # noqa: BLE001 - a dying receive thread is an observation
                self.errors[i] = exc
            if self.aborted:
                return
            self.done[i] = True
            self.pending[i] = None
            self._pass(self._next())

        return job

    # ---- controller

    def run(self, bodies):
        assert len(bodies) == self.n
        workers = self.pool.workers
        self.active = True
        _ACTIVE[0] = self
        try:
            for i, body in enumerate(bodies):
                workers[i].job = self._job(i, body)
            self._pass(self._next())
            self.pool.ctl.acquire()
            if self.timed_out:
                raise HarnessDeadlock(f"no scheduling step within {WATCHDOG}s; trace={self.trace[-12:]} pending={self.pending}")
            if self.deadlocked:
                self._abort()
        finally:
            self.active = False
            _ACTIVE[0] = None
        return self


# --------------------------------------------------------------------------- instrumented shared objects


class ParkDeque(deque):
    """Node._msg_queue: every access by a scheduled thread is a scheduling point (taken *before* the access)."""

    def __init__(self, sched, init=()):
        super().__init__(init)
        self._s = sched

    def append(self, x):
        self._s.park("q.append")
        return deque.append(self, x)

    def appendleft(self, x):
        self._s.park("q.appendleft")
        return deque.appendleft(self, x)

    def extend(self, xs):
        xs = list(xs)
        self._s.park("q.extend")
        return deque.extend(self, xs)

    def extendleft(self, xs):
        xs = list(xs)
        self._s.park("q.extendleft")
        return deque.extendleft(self, xs)

    def insert(self, i, x):
        self._s.park("q.insert")
        return deque.insert(self, i, x)

    def pop(self):
        self._s.park("q.pop")
        return deque.pop(self)

    def popleft(self):
        self._s.park("q.popleft")
        return deque.popleft(self)

    def remove(self, x):
        self._s.park("q.remove")
        return deque.remove(self, x)

    def clear(self):
        self._s.park("q.clear")
        return deque.clear(self)

    def rotate(self, n=1):
        self._s.park("q.rotate")
        return deque.rotate(self, n)

    def reverse(self):
        self._s.park("q.reverse")
        return deque.reverse(self)

    # (deque's own index wrappers call len(self) for negative indices, which would be a second, artificial scheduling
    # point through our __len__: normalise the index first)
    def _ix(self, i):
        return i + deque.__len__(self) if isinstance(i, int) and i < 0 else i

    def __delitem__(self, i):
        self._s.park("q.delitem")
        return deque.__delitem__(self, self._ix(i))

    def __setitem__(self, i, x):
        self._s.park("q.setitem")
        return deque.__setitem__(self, self._ix(i), x)

    # reads: a check-then-act repair ("if queue[-1] is mine: pop") must be interleavable too
    def __getitem__(self, i):
        self._s.park("q.read")
        return deque.__getitem__(self, self._ix(i))

    def __len__(self):
        self._s.park("q.read")
        return deque.__len__(self)

    def __bool__(self):
        self._s.park("q.read")
        return deque.__len__(self) > 0

    def __contains__(self, x):
        self._s.park("q.read")
        return deque.__contains__(self, x)

    def __iter__(self):
        # iterating is not one atomic step for the interpreter: a thread walking the queue can be preempted between two
        # elements, and deque's own iterator then raises RuntimeError if another thread changed the queue meanwhile
        self._s.park("q.read")
        it = deque.__iter__(self)
        if self._s.who() is None or not self._s.active:
            return it

        def walk():
            for x in it:
                yield x
                self._s.park("q.iter")

        return walk()

    def index(self, *a):
        self._s.park("q.read")
        return deque.index(self, *a)

    def count(self, x):
        self._s.park("q.read")
        return deque.count(self, x)

    def snapshot(self):
        """Controller-side view of the content (no scheduling point)."""
        return list(deque.__iter__(self))


_MEMBER_TYPES = {}


def park_membership(sched, container):
    """Same content, same type family, but ``x in container`` is a scheduling point ('test')."""
    base = type(container)
    if base.__name__.startswith("Parked"):
        base = base.__mro__[1]
    cls = _MEMBER_TYPES.get(base)
    if cls is None:

        def __contains__(self, x, _base=base):
            self._s.park("test")
            return _base.__contains__(self, x)

        cls = type("Parked" + base.__name__.capitalize(), (base,), {"__contains__": __contains__, "_s": None})
        _MEMBER_TYPES[base] = cls
    obj = cls(container)
    obj._s = sched
    return obj


class ParkLock:
    """Scheduler-aware replacement for a threading.Lock / RLock held by the node: acquiring is a scheduling point that
    is only enabled while the lock is free, so a thread parked inside a critical section cannot wedge the harness."""

    def __init__(self, sched, reentrant=False):
        self._s = sched
        self._owner = None
        self._depth = 0
        self._re = reentrant

    def _free_for(self, me):
        return self._owner is None or (self._re and self._owner == me)

    def acquire(self, blocking=True, timeout=-1):
        me = self._s.who()
        if not blocking:
            self._s.park("lock.try")
            if not self._free_for(me):
                return False
        else:
            self._s.park("lock.acquire", enabled=lambda: self._free_for(me))
        self._owner = me
        self._depth += 1
        return True

    def release(self):
        if self._owner is None:
            raise RuntimeError("release unlocked lock")
        self._depth -= 1
        if self._depth == 0:
            self._owner = None

    def locked(self):
        return self._owner is not None

    __enter__ = acquire

    def __exit__(self, *exc):
        self.release()
        return False


class StandInThread:
    """What recv_loop needs from Node._peer_threads[p]."""

    def __init__(self):
        self.exit_event = threading.Event()

    def exit(self):
        self.exit_event.set()

    def is_alive(self):
        return False

    def join(self, timeout=None):
        return None


class ScriptedSocket:
    """Peer socket double. recv() serves the peer's pre-serialised messages; once they are all consumed the next recv()
    sets the peer's exit_event and raises TimeoutError (recv_loop turns that into a clean exit).  sendall()/send() are
    scheduling points and record (writer thread, bytes)."""

    def __init__(self, sched, peer_no, messages, exit_event, stream=False):
        self._s = sched
        self.peer_no = peer_no
        self._msgs = list(messages)
        self._stream = stream  # True: a byte stream as TCP delivers it - recv(n) returns up to n bytes even across
        # message boundaries (a reader that asks for more than one message's rest gets the next messages too)
        self._data = b"".join(self._msgs)
        self._pos = 0
        self._starts = []
        o = 0
        for m in self._msgs:
            self._starts.append(o)
            o += len(m)
        self._cur = 0  # index of the message being served
        self._off = 0
        self._exit_event = exit_event
        self.written = []  # (writer thread index or None, bytes)
        self.closed = False
        self.recv_after_drain = 0

    def recv(self, n, *flags):
        if self._stream:
            if self._pos >= len(self._data):
                self.recv_after_drain += 1
                self._exit_event.set()
                raise TimeoutError("scripted socket drained")
            if self._pos in self._starts:
                w = self._s.who()
                if w is not None and w < self._s.n:
                    self._s.msg_index[w] = self._starts.index(self._pos)
            chunk = self._data[self._pos : self._pos + n]
            self._pos += len(chunk)
            return chunk
        while self._cur < len(self._msgs) and self._off >= len(self._msgs[self._cur]):
            self._cur += 1
            self._off = 0
        if self._cur >= len(self._msgs):
            self.recv_after_drain += 1
            self._exit_event.set()
            raise TimeoutError("scripted socket drained")
        if self._off == 0:
            w = self._s.who()
            if w is not None and w < self._s.n:
                self._s.msg_index[w] = self._cur
        m = self._msgs[self._cur]
        chunk = m[self._off : self._off + n]
        self._off += len(chunk)
        return chunk

    def sendall(self, data, *flags):
        w = self._s.park("send")
        self.written.append((w, bytes(data)))
        return None

    def send(self, data, *flags):
        w = self._s.park("send")
        self.written.append((w, bytes(data)))
        return len(data)

    def close(self):
        self.closed = True

    def settimeout(self, t):
        return None

    def setblocking(self, b):
        return None

    def getsockname(self):
        return ("127.0.0.1", 40000 + self.peer_no)

    def fileno(self):
        return -1


# --------------------------------------------------------------------------- one execution of a node


class Execution:
    __slots__ = ("node", "sched", "socks", "queue", "stale")

    def __init__(self, node, sched, socks, queue, stale=()):
        self.node = node
        self.sched = sched
        self.socks = socks
        self.queue = queue
        self.stale = list(stale)  # what the node's queue held before any of its peers sent anything


STALE_SENTINEL = (0, b"inv", b"\x00queued-by-an-earlier-node")


_LOCK_TYPES = (type(threading.Lock()), type(threading.RLock()))


def run_node(p2p, peer_messages, schedule=(), order=None, preempt=None, lines=False, stream=False):
    """Run Node.recv_loop for len(peer_messages) peers under the given schedule; returns an Execution.
    peer_messages[p] is the list of serialised messages peer p sends. `order` (a permutation of the peers) replaces the
    schedule by "run the first thread of `order` that can run", i.e. a serial execution in that order. `preempt` /
    `lines`: see Scheduler."""
    n = len(peer_messages)
    # an earlier node of the same process that has queued a message (what its receive loop does with an unhandled one):
    # the node under test is a new node and starts with a queue of its own
    earlier = p2p.Node()
    try:
        earlier._msg_queue.append(STALE_SENTINEL)
    except Exception:  # noqa: BLE001 - a queue of another type: nothing to prime
        pass
    node = p2p.Node()
    try:
        stale = list(node._msg_queue)
        if stale:
            node._msg_queue.clear()  # reported once (Execution.stale); the run itself starts clean
    except Exception:  # noqa: BLE001
        stale = []
    sched = Scheduler(n, schedule, order, preempt, p2p.__file__ if lines else None)
    queue = ParkDeque(sched, node._msg_queue)
    node._msg_queue = queue
    node._registered_commands_to_handle = park_membership(sched, node._registered_commands_to_handle)
    for name, val in list(vars(type(node)).items()) + list(vars(node).items()):
        if isinstance(val, _LOCK_TYPES):
            setattr(node, name, ParkLock(sched, reentrant=isinstance(val, _LOCK_TYPES[1])))
    module_locks = {name: val for name, val in vars(p2p).items() if isinstance(val, _LOCK_TYPES)}
    for name, val in module_locks.items():
        setattr(p2p, name, ParkLock(sched, reentrant=isinstance(val, _LOCK_TYPES[1])))
    socks = []
    bodies = []
    for p in range(n):
        th = StandInThread()
        sock = ScriptedSocket(sched, p, peer_messages[p], th.exit_event, stream=stream)
        node._peer_sockets[p] = sock
        node._peer_threads[p] = th
        node._peer_data[p] = {}
        socks.append(sock)
        bodies.append(lambda p=p: node.recv_loop(p))
    try:
        sched.run(bodies)
    finally:
        for name, val in module_locks.items():
            setattr(p2p, name, val)
    return Execution(node, sched, socks, queue, stale)


# --------------------------------------------------------------------------- schedule enumeration + self-check


def next_schedule(choices, counts, depth=0):
    """Successor of a finished execution in the depth-first enumeration of the schedule tree: the longest proper prefix
    of its canonical choice sequence that still has an untried sibling at a position >= depth, with that sibling
    appended (every later choice then defaults to 0). None when the subtree below choices[:depth] is exhausted."""
    i = len(counts) - 1
    while i >= depth and choices[i] + 1 >= counts[i]:
        i -= 1
    if i < depth:
        return None
    return list(choices[:i]) + [choices[i] + 1]


def selfcheck():
    """The scheduler on a toy program (no bits involved): determinism, complete enumeration, a known lost update."""
    from math import comb

    def program(schedule, steps=(2, 3)):
        sched = Scheduler(len(steps), schedule)
        q = ParkDeque(sched)
        cell = [0]

        def body(i, k):
            def run():
                for j in range(k):
                    q.append((i, j))
                # unprotected read-modify-write with a scheduling point in between
                seen = cell[0]
                q.append((i, "w"))
                cell[0] = seen + 1

            return run

        sched.run([body(i, k) for i, k in enumerate(steps)])
        assert not any(sched.errors) and all(sched.done), sched.errors
        return sched, q.snapshot(), cell[0]

    seen = {}
    schedule = []
    while schedule is not None:
        sc, content, total = program(schedule)
        key = tuple(sc.choices)
        assert key not in seen, "schedule enumerated twice"
        sc2, content2, total2 = program(list(key))
        assert (sc2.trace, content2, total2) == (sc.trace, content, total), "execution is not a function of the schedule"
        assert [x for x in content if x[0] == 0] == [(0, 0), (0, 1), (0, "w")], "per-thread order broken"
        seen[key] = total
        schedule = next_schedule(sc.choices, sc.counts)
    assert len(seen) == comb(7, 3), f"{len(seen)} schedules, expected C(7,3)"
    assert set(seen.values()) == {1, 2}, "the lost update must occur in some schedules and not in others"
    # a serial order never loses the update
    sc = Scheduler(2, (), order=[1, 0])
    q = ParkDeque(sc)
    sc.run([lambda: q.append(0), lambda: (q.append(1), q.append(2))])
    assert q.snapshot() == [1, 2, 0] and [t for t, _, _ in sc.trace] == [1, 1, 0]
    # two threads taking two locks in opposite order: reported as a deadlock of the program, not of the harness
    sc = Scheduler(2, [0, 1, 0, 1])
    a, b = ParkLock(sc), ParkLock(sc)

    def ab():
        with a:
            with b:
                pass

    def ba():
        with b:
            with a:
                pass

    sc.run([ab, ba])
    assert sc.deadlocked and not sc.timed_out
    sc = Scheduler(2, [0, 0, 0, 0])
    a, b = ParkLock(sc), ParkLock(sc)
    sc.run([ab, ba])
    assert not sc.deadlocked and all(sc.done)
