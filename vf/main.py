"""
Runner:  ./check <ID> [--tier quick|thorough] [--replay PATH] [--target NAME] [--jobs N]

Exit codes: 0 held on everything explored (known findings are printed, not failed);
            1 violation (prints "VIOLATION property=<ID> replay=<path>");
            2 harness error (never printed as a violation).
"""
import argparse
import collections
import hashlib
import importlib
import json
import multiprocessing
import os
import sys
import time
import traceback

HERE = os.path.dirname(os.path.abspath(__file__))
VERIF = os.path.dirname(HERE)
if VERIF not in sys.path:
    sys.path.insert(0, VERIF)
_deps = os.path.join(VERIF, ".deps")
if os.path.isdir(_deps) and _deps not in sys.path:
    sys.path.append(_deps)

from vf import core  # noqa: E402

try:  # kill -USR1 <pid> dumps the Python stack of a stuck process to stderr
    import faulthandler
    import signal

    faulthandler.register(signal.SIGUSR1, all_threads=True)
except Exception:  # noqa: BLE001
    pass

core.install_repo_path()
os.environ.setdefault("HYPOTHESIS_STORAGE_DIRECTORY", os.path.join(VERIF, "out", "hypothesis"))

ALL_IDS = [f"C{i:02d}" for i in range(1, 21)]
SOFT_WALL = {"quick": 240.0, "thorough": 3000.0}
SHRINK_TIMEOUT = {"quick": 45.0, "thorough": 240.0}
MAX_SAMPLES = 14


def load_prop(pid):
    return importlib.import_module(f"vf.props.{pid}")


def derive_seed(seed, pid, target, shard):
    h = hashlib.blake2b(f"{seed}/{pid}/{target}/{shard}".encode(), digest_size=8).digest()
    return int.from_bytes(h, "big")


# ------------------------------------------------------------------ known findings


def load_known(pid):
    """finding lines: 'finding: property=C16 sig=<signature> :: <what fails>'"""
    path = os.path.join(VERIF, "KNOWN_FINDINGS.txt")
    known = {}
    if not os.path.exists(path):
        return known
    for line in open(path):
        line = line.strip()
        if not line.startswith("finding:"):
            continue
        body = line[len("finding:"):].strip()
        head, _, text = body.partition("::")
        fields = dict(f.split("=", 1) for f in head.split() if "=" in f)
        if fields.get("property") == pid and "sig" in fields:
            known[fields["sig"]] = text.strip()
    return known


# ------------------------------------------------------------------ shard execution


class ShardStats:
    def __init__(self):
        self.evals = 0
        self.classes = collections.Counter()
        self.nt = set()
        self.samples = {}
        self.failures = {}
        self.skipped = 0
        self.nt_extra = 0
        self.case_errors = []  # exceptions raised by check code itself on single cases (first few, with the case)
        self.n_case_errors = 0
        self.inconclusive = []  # cases the watchdog gave up on

    def record(self, case, classes, failures):
        self.evals += 1
        nontrivial = False
        for c in classes:
            if c.startswith("@"):  # counters reported by composite cases (fuzz campaigns): @evals=N, @nt=N, @execs=N
                k, _, v = c[1:].partition("=")
                if k == "evals":
                    self.evals += int(v) - 1
                elif k == "nt":
                    self.nt_extra += int(v)
                self.classes["@" + k] += int(v)
                continue
            self.classes[c] += 1
            if c.startswith("nt:"):
                nontrivial = True
            if c not in self.samples and len(self.samples) < 64:
                self.samples[c] = core.abbreviate(case)
        if nontrivial:
            self.nt.add(core.digest(case))
        for sig, detail in failures:
            slot = self.failures.get(sig)
            size = len(core.canon(case))
            if slot is None:
                self.failures[sig] = {"count": 1, "case": case, "detail": detail, "size": size}
            else:
                slot["count"] += 1
                if size < slot["size"]:
                    slot.update(case=case, detail=detail, size=size)


CASE_WATCHDOG_S = int(os.environ.get("VF_CASE_WATCHDOG_S", "600"))


class CaseWatchdog(BaseException):
    pass


class Inconclusive(RuntimeError):
    """a case that could not be decided (watchdog): always a harness error, never contained"""


def _alarm(signum, frame):
    raise CaseWatchdog()


def checked(tgt, case):
    """Run tgt.check; an exception escaping from library code is a failure, from harness code an error.
    A case that runs longer than CASE_WATCHDOG_S is reported as a harness error (inconclusive), never as a violation."""
    import signal as _signal

    try:
        _signal.signal(_signal.SIGALRM, _alarm)
        _signal.alarm(int(getattr(tgt, "watchdog_s", CASE_WATCHDOG_S)))
    except (ValueError, AttributeError):
        pass
    try:
        return tgt.check(case)
    except CaseWatchdog:
        raise Inconclusive(f"case exceeded {CASE_WATCHDOG_S}s (inconclusive): {core.canon(case)[:300]}")
    except Exception as exc:  # noqa: BLE001
        in_repo, where = core.innermost_repo_frame(exc)
        if in_repo:
            return ["lib-crash"], [
                (f"crash/{type(exc).__name__}/{where}", f"{type(exc).__name__}: {exc}")
            ]
        raise
    finally:
        try:
            _signal.alarm(0)
        except (ValueError, AttributeError):
            pass


def _pin_hypothesis():
    """Hypothesis harvests literals from local modules (vf.*, bits.*) into a constants pool whose iteration order depends
    on an on-disk cache; a run must be a pure function of the code and VERIF_SEED, so the pool is emptied (boundary
    values are supplied explicitly by the strategies instead)."""
    try:
        import hypothesis.internal.conjecture.providers as hp
        from hypothesis.internal.constants_ast import Constants

        hp._get_local_constants = lambda: Constants()
    except Exception:  # noqa: BLE001 - different Hypothesis version: fall back to a private storage directory
        pass


def run_shard(job):
    pid, tname, tier, seed, shard, nshards, deadline, mode, want_sig = job
    out = {"target": tname, "shard": shard, "error": None}
    covdir = os.environ.get("VF_LINECOV")
    if covdir:  # diagnostic line coverage of the library (tools/linecov.py); no effect on the verdict
        from vf import cov

        cov.start(os.path.join(core.REPO, "src") + os.sep)
    try:
        mod = load_prop(pid)
        tgt = {t.name: t for t in mod.targets(tier)}[tname]
        if tgt.setup:
            tgt.setup()
        stats = ShardStats()

        def one(case):
            if time.time() > deadline:
                stats.skipped += 1
                return
            if stats.inconclusive:
                stats.skipped += 1
                return
            try:
                classes, failures = checked(tgt, case)
            except Inconclusive as exc:
                # undecided case (watchdog): the rest of this shard is skipped, what was decided before it stands
                stats.inconclusive.append(str(exc))
                return
            except Exception as exc:  # noqa: BLE001 - check code tripped over this case: contain it, go on with the others
                stats.n_case_errors += 1
                if len(stats.case_errors) < 2:
                    tb = "".join(traceback.format_exception(type(exc), exc, exc.__traceback__))[-1500:]
                    stats.case_errors.append(f"{tb}case: {core.canon(case)[:400]}")
                return
            stats.record(case, classes, failures)

        if tgt.kind == "enum":
            for i, case in enumerate(tgt.enumerate_(tier)):
                if i % nshards == shard:
                    one(case)
        else:
            import hypothesis
            from hypothesis import HealthCheck, Phase, given, settings

            _pin_hypothesis()

            n = max(1, int(tgt.budget[tier] * float(os.environ.get("VERIF_SCALE", "1"))) // nshards)
            dseed = derive_seed(seed, pid, tname, shard)
            if mode == "collect":

                @hypothesis.seed(dseed)
                @settings(
                    max_examples=n,
                    database=None,
                    deadline=None,
                    derandomize=False,
                    report_multiple_bugs=False,
                    phases=[Phase.generate],
                    suppress_health_check=[HealthCheck.too_slow, HealthCheck.data_too_large, HealthCheck.large_base_example],
                )
                @given(tgt.strategy(tier))
                def t(case):
                    one(case)

                t()
            else:  # shrink one signature
                last = {}

                @hypothesis.seed(dseed)
                @settings(
                    max_examples=n,
                    database=None,
                    deadline=None,
                    derandomize=False,
                    report_multiple_bugs=False,
                    phases=[Phase.generate, Phase.shrink],
                    suppress_health_check=list(HealthCheck),
                )
                @given(tgt.strategy(tier))
                def t(case):
                    try:
                        classes, failures = checked(tgt, case)
                    except Inconclusive:
                        raise
                    except Exception:  # noqa: BLE001 - contained in collect mode too; not the signature being shrunk
                        return
                    for sig, detail in failures:
                        if sig == want_sig:
                            last["case"] = case
                            last["detail"] = detail
                            raise AssertionError(sig)

                try:
                    t()
                except AssertionError:
                    pass
                out["shrunk"] = last
                return out
        out.update(
            evals=stats.evals,
            classes=dict(stats.classes),
            nt=stats.nt,
            nt_extra=stats.nt_extra,
            samples=stats.samples,
            failures=stats.failures,
            skipped=stats.skipped,
            case_errors=stats.case_errors,
            n_case_errors=stats.n_case_errors,
            inconclusive=stats.inconclusive,
        )
    except BaseException as exc:  # noqa: BLE001
        out["error"] = "".join(traceback.format_exception(type(exc), exc, exc.__traceback__))[-4000:]
    if covdir:
        cov.dump(covdir, pid)
    return out


# ------------------------------------------------------------------ orchestration


def write_replay(pid, tname, sig, case, detail):
    d = os.path.join(VERIF, "out", "replay")
    os.makedirs(d, exist_ok=True)
    safe = "".join(ch if ch.isalnum() or ch in "-_." else "_" for ch in f"{pid}-{tname}-{sig}")[:150]
    path = os.path.join(d, safe + ".json")
    with open(path, "w") as f:
        json.dump({"property": pid, "target": tname, "sig": sig, "detail": detail, "case": case}, f, indent=1)
    return path


def do_replay(pid, path, tier):
    mod = load_prop(pid)
    rec = json.load(open(path))
    tgts = {t.name: t for t in mod.targets(tier)}
    if rec["target"] not in tgts:
        tgts = {t.name: t for t in mod.targets("thorough")}
    tgt = tgts[rec["target"]]
    if tgt.setup:
        tgt.setup()
    known = load_known(pid)
    classes, failures = checked(tgt, rec["case"])
    print(f"replay {path}: classes={classes}")
    bad = 0
    for sig, detail in failures:
        if sig in known:
            print(f"KNOWN-FINDING: property={pid} {known[sig]}")
        else:
            bad += 1
            print(f"  failure sig={sig} :: {detail}")
    if bad:
        print(f"VIOLATION property={pid} replay={path}")
        return 1
    print("replay: no violation")
    return 0


def run_corpus(pid, mod, tier, agg):
    d = os.path.join(VERIF, "corpus", pid)
    n = 0
    if not os.path.isdir(d):
        return 0
    tgts = {t.name: t for t in mod.targets("thorough")}
    for fn in sorted(os.listdir(d)):
        if not fn.endswith(".json"):
            continue
        rec = json.load(open(os.path.join(d, fn)))
        entries = rec if isinstance(rec, list) else [rec]
        for e in entries:
            tgt = tgts[e["target"]]
            if tgt.setup:
                tgt.setup()
            classes, failures = checked(tgt, e["case"])
            agg["stats"][tgt.name].record(e["case"], list(classes) + ["corpus"], failures)
            n += 1
    return n


def main(argv=None):
    ap = argparse.ArgumentParser()
    ap.add_argument("pid", nargs="?")
    ap.add_argument("--tier", default=os.environ.get("VERIF_TIER", "quick"), choices=["quick", "thorough"])
    ap.add_argument("--replay")
    ap.add_argument("--target", action="append")
    ap.add_argument("--jobs", type=int, default=int(os.environ.get("VERIF_JOBS", "16")))
    ap.add_argument("--selftest", action="store_true")
    ap.add_argument("--scale", type=float, default=float(os.environ.get("VERIF_SCALE", "1")))
    args = ap.parse_args(argv)

    if args.selftest:
        return selftest()
    pid = args.pid
    if pid not in ALL_IDS:
        print(f"unknown property id {pid}", file=sys.stderr)
        return 2
    tier = args.tier
    seed = int(os.environ.get("VERIF_SEED", "1") or "1")
    if args.replay:
        try:
            return do_replay(pid, args.replay, tier)
        except Exception:  # noqa: BLE001
            traceback.print_exc()
            print("HARNESS-ERROR during replay")
            return 2

    t0 = time.time()
    try:
        mod = load_prop(pid)
        for sc in getattr(mod, "SELFCHECKS", []):
            sc()
        targets = mod.targets(tier)
    except Exception:  # noqa: BLE001
        traceback.print_exc()
        print(f"HARNESS-ERROR property={pid}: import / oracle self-check failed")
        return 2
    if args.target:
        targets = [t for t in targets if t.name in args.target]
    os.environ["VERIF_SCALE"] = str(args.scale)
    if args.scale != 1:
        for t in targets:
            t.budget = {k: max(1, int(v * args.scale)) for k, v in t.budget.items()}

    known = load_known(pid)
    agg = {"stats": collections.defaultdict(ShardStats)}
    deadline = t0 + SOFT_WALL[tier]
    jobs = []
    for t in targets:
        ns = t.shards or args.jobs
        if t.kind == "hyp":
            ns = max(1, min(ns, t.budget[tier]))
        for s in range(ns):
            jobs.append((pid, t.name, tier, seed, s, ns, deadline, "collect", None))

    errors = []
    corpus_n = 0
    try:
        corpus_n = run_corpus(pid, mod, tier, agg)
    except Exception:  # noqa: BLE001
        errors.append("corpus: " + traceback.format_exc()[-2000:])

    per_target_evals = collections.Counter()
    fail_shard = {}
    skipped = 0
    pool = multiprocessing.Pool(min(args.jobs, max(1, len(jobs))))
    try:
        for res in pool.imap_unordered(run_shard, jobs, chunksize=1):
            if res["error"]:
                errors.append(f"{res['target']}#{res['shard']}: {res['error']}")
                continue
            for msg in res.get("inconclusive") or []:
                errors.append(f"inconclusive-case: {res['target']}#{res['shard']}: {msg}")
            if res.get("n_case_errors"):
                errors.append(f"case-error: {res['n_case_errors']} case(s) of {res['target']}#{res['shard']} raised inside the check code; first: {res['case_errors'][0]}")
            st = agg["stats"][res["target"]]
            st.evals += res["evals"]
            per_target_evals[res["target"]] += res["evals"]
            st.classes.update(res["classes"])
            st.nt |= res["nt"]
            st.nt_extra += res.get("nt_extra", 0)
            skipped += res["skipped"]
            for c, s in res["samples"].items():
                st.samples.setdefault(c, s)
            for sig, slot in res["failures"].items():
                cur = st.failures.get(sig)
                if cur is None:
                    st.failures[sig] = dict(slot)
                    fail_shard[(res["target"], sig)] = res["shard"]
                else:
                    cur["count"] += slot["count"]
                    if slot["size"] < cur["size"]:
                        cur.update(case=slot["case"], detail=slot["detail"], size=slot["size"])
                        fail_shard[(res["target"], sig)] = res["shard"]

        # ---- required classes (a silently vacuous generator is a harness error)
        by_name = {t.name: t for t in targets}
        for name, t in by_name.items():
            seen = agg["stats"][name].classes
            for rc in t.required:
                # "A || B": any one of the alternatives will do (B usually says why A cannot occur on this tree)
                if all(seen.get(alt, 0) == 0 for alt in rc.split(" || ")) and not skipped:
                    errors.append(f"required class '{rc}' of target {name} never generated")

        # ---- failures: known findings vs new violations (shrink new ones)
        violations = []
        known_hit = {}
        pending = []
        for name, st in agg["stats"].items():
            for sig, slot in sorted(st.failures.items()):
                if sig in known:
                    known_hit[sig] = known_hit.get(sig, 0) + slot["count"]
                    continue
                t = by_name.get(name)
                ar = None
                if t is not None and t.kind == "hyp" and (name, sig) in fail_shard and len(pending) < 12:
                    ns = max(1, min(t.shards or args.jobs, t.budget[tier]))
                    job = (pid, name, tier, seed, fail_shard[(name, sig)], ns, 0, "shrink", sig)
                    ar = pool.apply_async(run_shard, (job,))
                pending.append((name, sig, slot, ar))
        shrink_deadline = time.time() + SHRINK_TIMEOUT[tier]
        for name, sig, slot, ar in pending:
            case, detail = slot["case"], slot["detail"]
            if ar is not None:
                try:
                    r = ar.get(max(0.1, shrink_deadline - time.time()))
                    if r.get("shrunk") and "case" in r["shrunk"]:
                        sc = r["shrunk"]["case"]
                        if len(core.canon(sc)) <= len(core.canon(case)):
                            case, detail = sc, r["shrunk"]["detail"]
                except multiprocessing.TimeoutError:
                    pass
                except Exception:  # noqa: BLE001
                    pass
            path = write_replay(pid, name, sig, case, detail)
            violations.append((name, sig, slot["count"], detail, path))
    finally:
        pool.terminate()
        pool.join()

    # ---- evidence
    total_evals = sum(st.evals for st in agg["stats"].values())
    nt_all = set()
    hist = {}
    samples = []
    per_target = {}
    for name, st in agg["stats"].items():
        nt_all |= {(name, d) for d in st.nt}
        per_target[name] = {"evaluations": st.evals, "distinct_nontrivial": len(st.nt) + st.nt_extra}
        for c, n in st.classes.items():
            hist[f"{name}/{c}"] = n
        for c, s in st.samples.items():
            if c.startswith("nt:") and len(samples) < MAX_SAMPLES:
                samples.append({"target": name, "class": c, "case": s})
    if not samples:
        for name, st in agg["stats"].items():
            for c, s in list(st.samples.items())[:2]:
                samples.append({"target": name, "class": c, "case": s})
    exhaustive_targets = [t.name for t in targets if t.exhaustive]
    evidence = {
        "property_id": pid,
        "tier": tier,
        "seed": seed,
        "level": mod.LEVEL,
        "coverage": {
            "evaluations": total_evals,
            "distinct_nontrivial": len(nt_all) + sum(st.nt_extra for st in agg["stats"].values()),
            "rule": mod.RULE,
            "samples": samples,
            "class_histogram": dict(sorted(hist.items())),
            "per_target": per_target,
            "exhaustive_targets": exhaustive_targets,
            "corpus_replayed": corpus_n,
            "excluded_by_known_finding": known_hit,
            "skipped_after_soft_wall": skipped,
            "budget_hit": bool(skipped),
            "repo": core.REPO,
        },
        "assumptions": list(getattr(mod, "ASSUMPTIONS", [])),
        "wall_s": round(time.time() - t0, 2),
        "violations": len(violations),
    }
    if exhaustive_targets and len(exhaustive_targets) == len(targets):
        evidence["coverage"]["exhaustive"] = True
    extra = getattr(mod, "evidence_extra", None)
    if extra:
        evidence["coverage"].update(extra(tier))
    if not args.target:
        # evidence/<ID>.json only ever describes a run against /repo itself; runs against another tree (BITS_REPO: scratch
        # mutants, seeded changes) leave their evidence under out/
        edir = os.path.join(VERIF, "evidence") if os.path.abspath(core.REPO) == "/repo" else os.path.join(VERIF, "out", "evidence-other-tree")
        os.makedirs(edir, exist_ok=True)
        with open(os.path.join(edir, f"{pid}.json"), "w") as f:
            json.dump(evidence, f, indent=1, default=str)

    # ---- report
    print(
        f"[{pid}] tier={tier} seed={seed} evaluations={total_evals} distinct_nontrivial={evidence['coverage']['distinct_nontrivial']} "
        f"targets={len(targets)} wall={evidence['wall_s']}s"
    )
    for name in per_target:
        print(f"  target {name}: {per_target[name]}")
    for sig, n in known_hit.items():
        print(f"KNOWN-FINDING: property={pid} {known[sig]} (sig={sig}, {n} cases excluded)")
    # a missing required class next to real failures is usually their consequence (cases fail before they are
    # classified), and so is check code tripping over single cases (a return value of an unexpected shape): violations
    # win, also over a case the watchdog gave up on (what other cases showed does not depend on it); with no violation
    # each of these makes the run inconclusive (exit 2)
    hard = [e for e in errors if not e.startswith(("required class", "case-error", "inconclusive-case"))]
    for name, sig, n, detail, path in violations:
        print(f"  failure target={name} sig={sig} count={n} :: {detail[:300]}")
        if not hard:
            print(f"VIOLATION property={pid} replay={path}")
    for e in errors:
        print("HARNESS-ERROR:" if (e in hard or not violations) else "note:", e)
    if hard:
        return 2
    if violations:
        return 1
    return 2 if errors else 0


def selftest():
    """setup-time sanity: harness imports, reference oracles validate against embedded vectors."""
    ok = True
    for pid in ALL_IDS:
        try:
            mod = load_prop(pid)
        except ModuleNotFoundError as e:
            if f"vf.props.{pid}" in str(e):
                continue
            traceback.print_exc()
            ok = False
            continue
        except Exception:  # noqa: BLE001
            traceback.print_exc()
            ok = False
            continue
        try:
            for sc in getattr(mod, "SELFCHECKS", []):
                sc()
            mod.targets("quick")
            print(f"selftest {pid}: ok")
        except Exception:  # noqa: BLE001
            traceback.print_exc()
            ok = False
    return 0 if ok else 2


if __name__ == "__main__":
    sys.exit(main())
